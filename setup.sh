#!/bin/bash
# MANIFEST.setup_cmd: offline build of the explorer and of the product binary from /repo.
set -eu
cd "$(dirname "$(readlink -f "$0")")"
export CARGO_NET_OFFLINE=true
mkdir -p target evidence
cargo build --offline --release --manifest-path harness/Cargo.toml --target-dir target/harness
CARGO_PROFILE_RELEASE_OVERFLOW_CHECKS=true \
cargo build --offline --release -p sfs-cli --manifest-path /repo/Cargo.toml --target-dir target/cli
echo "setup ok"
