//! Byte-level generators for call sets: VCF text, BCF binary (written from the BCF2.2 spec, not
//! with noodles' writers) and BGZF with an arbitrary block layout.

use std::io::Write;

use flate2::{write::DeflateEncoder, Compression};

#[derive(Clone, Debug, PartialEq)]
pub struct Record {
    pub chrom: usize,
    pub pos: usize,
    /// ALT alleles; empty = monomorphic (`.`)
    pub alts: Vec<&'static str>,
    /// one GT string per sample, e.g. "0/1", "./.", "1|2", "0", "0/0/1", "."; two conventions mark
    /// records without genotypes: every entry `NO_FORMAT` = a record without any FORMAT field
    /// (VCF `.` columns, BCF n_fmt = 0), every entry `NO_GT_KEY` = FORMAT holds only the integer
    /// field XF (no GT key)
    pub gts: Vec<String>,
    /// add an INFO field and a second FORMAT field
    pub decorated: bool,
}

pub const NO_FORMAT: &str = "~";
pub const NO_GT_KEY: &str = "~XF";

impl Record {
    pub fn no_format(&self) -> bool {
        !self.gts.is_empty() && self.gts.iter().all(|g| g == NO_FORMAT)
    }
    pub fn no_gt_key(&self) -> bool {
        !self.gts.is_empty() && self.gts.iter().all(|g| g == NO_GT_KEY)
    }
}

#[derive(Clone, Debug, PartialEq)]
pub struct CallSet {
    pub samples: Vec<String>,
    pub contigs: Vec<String>,
    pub records: Vec<Record>,
    /// write the `##contig` header lines in reverse order (their `IDX` values, which are what BCF
    /// records refer to, stay the same)
    pub contig_lines_reversed: bool,
    /// number of further (unused) INFO definitions in front of the FORMAT definitions: with 126 or
    /// more, the dictionary index of GT no longer fits one byte in BCF
    pub extra_info_defs: usize,
    /// decorated records also carry INFO `AN=0` (a stale annotation: the genotypes are what they are)
    pub stale_an: bool,
}

impl CallSet {
    pub fn new(n_samples: usize) -> Self {
        CallSet {
            samples: (0..n_samples).map(|i| format!("s{i}")).collect(),
            contigs: vec!["chr1".into(), "chr2".into()],
            records: Vec::new(),
            contig_lines_reversed: false,
            extra_info_defs: 0,
            stale_an: false,
        }
    }
    /// Appends a plain biallelic record at the next position of contig 0.
    pub fn push_gts<S: AsRef<str>>(&mut self, gts: &[S]) {
        assert_eq!(gts.len(), self.samples.len());
        let pos = self.records.len() + 1;
        self.records.push(Record {
            chrom: 0,
            pos,
            alts: vec!["C"],
            gts: gts.iter().map(|s| s.as_ref().to_string()).collect(),
            decorated: false,
        });
    }
}

pub fn vcf_header(cs: &CallSet, bcf_idx: bool) -> String {
    let mut s = String::new();
    s.push_str("##fileformat=VCFv4.3\n");
    let idx = |i: usize| if bcf_idx { format!(",IDX={i}") } else { String::new() };
    s.push_str(&format!(
        "##FILTER=<ID=PASS,Description=\"All filters passed\"{}>\n",
        idx(0)
    ));
    let mut order: Vec<usize> = (0..cs.contigs.len()).collect();
    if cs.contig_lines_reversed {
        order.reverse();
    }
    for i in order {
        s.push_str(&format!("##contig=<ID={},length=2147483647{}>\n", cs.contigs[i], idx(i)));
    }
    s.push_str(&format!(
        "##INFO=<ID=XI,Number=1,Type=Integer,Description=\"Extra info\"{}>\n",
        idx(1)
    ));
    for k in 0..cs.extra_info_defs {
        s.push_str(&format!("##INFO=<ID=Y{k},Number=1,Type=Integer,Description=\"Unused annotation {k}\"{}>\n", idx(2 + k)));
    }
    let base = 2 + cs.extra_info_defs;
    s.push_str(&format!(
        "##FORMAT=<ID=GT,Number=1,Type=String,Description=\"Genotype\"{}>\n",
        idx(base)
    ));
    s.push_str(&format!(
        "##FORMAT=<ID=XF,Number=1,Type=Integer,Description=\"Extra format\"{}>\n",
        idx(base + 1)
    ));
    if cs.stale_an {
        s.push_str(&format!("##INFO=<ID=AN,Number=1,Type=Integer,Description=\"Total number of alleles in called genotypes\"{}>\n", idx(base + 2)));
    }
    s.push_str("#CHROM\tPOS\tID\tREF\tALT\tQUAL\tFILTER\tINFO\tFORMAT");
    for n in &cs.samples {
        s.push('\t');
        s.push_str(n);
    }
    s.push('\n');
    s
}

pub fn vcf_record_line(cs: &CallSet, r: &Record) -> String {
    let alt = if r.alts.is_empty() {
        ".".to_string()
    } else {
        r.alts.join(",")
    };
    if r.no_format() || r.no_gt_key() {
        let mut s = format!("{}\t{}\t.\tA\t{}\t.\t.\t{}\t{}", cs.contigs[r.chrom], r.pos, alt, if r.decorated { if cs.stale_an { "XI=5;AN=0" } else { "XI=5" } } else { "." }, if r.no_format() { "." } else { "XF" });
        for i in 0..r.gts.len() {
            s.push('\t');
            if r.no_format() {
                s.push('.');
            } else {
                s.push_str(&(i % 7 + 1).to_string());
            }
        }
        s.push('\n');
        return s;
    }
    let mut s = format!(
        "{}\t{}\t.\tA\t{}\t.\t.\t{}\t{}",
        cs.contigs[r.chrom],
        r.pos,
        alt,
        if r.decorated { if cs.stale_an { "XI=5;AN=0" } else { "XI=5" } } else { "." },
        if r.decorated { "GT:XF" } else { "GT" }
    );
    for (i, g) in r.gts.iter().enumerate() {
        s.push('\t');
        s.push_str(g);
        if r.decorated {
            s.push_str(&format!(":{}", i % 7 + 1));
        }
    }
    s.push('\n');
    s
}

/// Returns the VCF text and the byte offsets at which each record line starts (plus the end).
pub fn to_vcf(cs: &CallSet) -> (Vec<u8>, Vec<usize>) {
    let mut out = vcf_header(cs, false).into_bytes();
    let mut bounds = vec![out.len()];
    for r in &cs.records {
        out.extend_from_slice(vcf_record_line(cs, r).as_bytes());
        bounds.push(out.len());
    }
    (out, bounds)
}

// ---------------------------------------------------------------------------------------------
// BCF2.2

const INT8_EOV: u8 = 0x81;

/// Parses a GT string into (allele or missing, phased-with-previous) per allele.
pub fn parse_gt(gt: &str) -> Vec<(Option<u32>, bool)> {
    let mut out = Vec::new();
    let mut cur = String::new();
    let mut phased = false;
    for c in gt.chars() {
        if c == '/' || c == '|' {
            out.push((if cur == "." { None } else { Some(cur.parse().unwrap()) }, phased));
            phased = c == '|';
            cur.clear();
        } else {
            cur.push(c);
        }
    }
    out.push((if cur == "." { None } else { Some(cur.parse().unwrap()) }, phased));
    out
}

fn typed_int8_vec_header(n: usize, ty: u8, out: &mut Vec<u8>) {
    if n < 15 {
        out.push(((n as u8) << 4) | ty);
    } else {
        out.push(0xf0 | ty);
        // length as typed int
        if n <= 127 {
            out.push(0x11);
            out.push(n as u8);
        } else {
            out.push(0x12);
            out.extend_from_slice(&(n as i16).to_le_bytes());
        }
    }
}

fn typed_string(s: &str, out: &mut Vec<u8>) {
    typed_int8_vec_header(s.len(), 7, out);
    out.extend_from_slice(s.as_bytes());
}

pub fn bcf_record(r: &Record, n_samples: usize) -> Vec<u8> {
    bcf_record_of(r, n_samples, 0, false)
}

/// A dictionary index as a typed integer (one byte up to 127, two bytes beyond).
fn typed_key(idx: usize, out: &mut Vec<u8>) {
    if idx <= 127 {
        out.extend_from_slice(&[0x11, idx as u8]);
    } else {
        out.push(0x12);
        out.extend_from_slice(&(idx as i16).to_le_bytes());
    }
}

/// The BCF record under a header with `extra` further INFO definitions in front of GT (which moves
/// the dictionary indices of GT, XF and AN) and, with `stale_an`, `AN=0` on decorated records.
pub fn bcf_record_of(r: &Record, n_samples: usize, extra: usize, stale_an: bool) -> Vec<u8> {
    let (gt_key, xf_key, an_key) = (2 + extra, 3 + extra, 4 + extra);
    let mut shared = Vec::new();
    shared.extend_from_slice(&(r.chrom as i32).to_le_bytes());
    shared.extend_from_slice(&((r.pos as i32) - 1).to_le_bytes());
    shared.extend_from_slice(&1i32.to_le_bytes()); // rlen
    shared.extend_from_slice(&0x7f80_0001u32.to_le_bytes()); // QUAL missing
    let n_info: u16 = if r.decorated { if stale_an { 2 } else { 1 } } else { 0 };
    let n_allele: u16 = 1 + r.alts.len() as u16;
    shared.extend_from_slice(&n_info.to_le_bytes());
    shared.extend_from_slice(&n_allele.to_le_bytes());
    let n_fmt: u32 = if r.no_format() { 0 } else if r.no_gt_key() { 1 } else if r.decorated { 2 } else { 1 };
    let ns = (n_samples as u32 & 0x00ff_ffff) | (n_fmt << 24);
    shared.extend_from_slice(&ns.to_le_bytes());
    typed_string("", &mut shared); // ID
    typed_string("A", &mut shared); // REF
    for a in &r.alts {
        typed_string(a, &mut shared);
    }
    shared.push(0x00); // FILTER: empty vector
    if r.decorated {
        shared.extend_from_slice(&[0x11, 1]); // key XI (idx 1)
        shared.extend_from_slice(&[0x11, 5]); // value 5
        if stale_an {
            typed_key(an_key, &mut shared);
            shared.extend_from_slice(&[0x11, 0]); // value 0
        }
    }
    let mut indiv = Vec::new();
    if r.no_format() || r.no_gt_key() {
        if r.no_gt_key() {
            typed_key(xf_key, &mut indiv); // key XF
            indiv.push(0x11); // one int8 per sample
            for i in 0..n_samples {
                indiv.push((i % 7 + 1) as u8);
            }
        }
        let mut out = Vec::new();
        out.extend_from_slice(&(shared.len() as u32).to_le_bytes());
        out.extend_from_slice(&(indiv.len() as u32).to_le_bytes());
        out.extend_from_slice(&shared);
        out.extend_from_slice(&indiv);
        return out;
    }
    // GT
    typed_key(gt_key, &mut indiv); // key GT
    let parsed: Vec<Vec<(Option<u32>, bool)>> = r.gts.iter().map(|g| parse_gt(g)).collect();
    let max_ploidy = parsed.iter().map(|p| p.len()).max().unwrap_or(1);
    typed_int8_vec_header(max_ploidy, 1, &mut indiv);
    for p in &parsed {
        for j in 0..max_ploidy {
            match p.get(j) {
                Some((allele, phased)) => {
                    let a = allele.map_or(0, |a| a + 1);
                    indiv.push(((a << 1) as u8) | (*phased as u8));
                }
                None => indiv.push(INT8_EOV),
            }
        }
    }
    if r.decorated {
        typed_key(xf_key, &mut indiv); // key XF
        indiv.push(0x11); // one int8 per sample
        for i in 0..n_samples {
            indiv.push((i % 7 + 1) as u8);
        }
    }
    let mut out = Vec::new();
    out.extend_from_slice(&(shared.len() as u32).to_le_bytes());
    out.extend_from_slice(&(indiv.len() as u32).to_le_bytes());
    out.extend_from_slice(&shared);
    out.extend_from_slice(&indiv);
    out
}

/// Uncompressed BCF bytes and the offsets at which each record starts (plus the end).
pub fn to_bcf(cs: &CallSet) -> (Vec<u8>, Vec<usize>) {
    let mut out = b"BCF\x02\x02".to_vec();
    let mut text = vcf_header(cs, true).into_bytes();
    text.push(0);
    out.extend_from_slice(&(text.len() as u32).to_le_bytes());
    out.extend_from_slice(&text);
    let mut bounds = vec![out.len()];
    for r in &cs.records {
        out.extend_from_slice(&bcf_record_of(r, cs.samples.len(), cs.extra_info_defs, cs.stale_an));
        bounds.push(out.len());
    }
    (out, bounds)
}

// ---------------------------------------------------------------------------------------------
// BGZF

pub const BGZF_EOF: [u8; 28] = [
    0x1f, 0x8b, 0x08, 0x04, 0x00, 0x00, 0x00, 0x00, 0x00, 0xff, 0x06, 0x00, 0x42, 0x43, 0x02, 0x00,
    0x1b, 0x00, 0x03, 0x00, 0x00, 0x00, 0x00, 0x00, 0x00, 0x00, 0x00, 0x00,
];

pub const BGZF_MAX_INPUT: usize = 65280;

pub fn bgzf_block(data: &[u8], level: u32) -> Vec<u8> {
    assert!(data.len() <= BGZF_MAX_INPUT);
    let mut enc = DeflateEncoder::new(Vec::new(), Compression::new(level));
    enc.write_all(data).unwrap();
    let cdata = enc.finish().unwrap();
    let total = 18 + cdata.len() + 8;
    assert!(total <= 65536, "block too large");
    let mut out = Vec::with_capacity(total);
    out.extend_from_slice(&[0x1f, 0x8b, 0x08, 0x04, 0, 0, 0, 0, 0x00, 0xff, 0x06, 0x00, 0x42, 0x43, 0x02, 0x00]);
    out.extend_from_slice(&((total - 1) as u16).to_le_bytes());
    out.extend_from_slice(&cdata);
    out.extend_from_slice(&crc32fast::hash(data).to_le_bytes());
    out.extend_from_slice(&(data.len() as u32).to_le_bytes());
    out
}

#[derive(Clone, Debug, PartialEq)]
pub enum Layout {
    /// as few blocks as possible
    Single,
    /// one block per unit (record / line); the header is one block
    PerUnit,
    /// fixed-size blocks of k input bytes
    Fixed(usize),
    /// Fixed(k) with an empty block inserted in front / in the middle / before the EOF marker
    EmptyFront(usize),
    EmptyMiddle(usize),
    EmptyEnd(usize),
    /// Fixed(k) with stored (level 0) blocks
    Stored(usize),
    /// a first block of the largest size the format allows (65 536 bytes on disk, BSIZE = 65 535:
    /// one stored deflate block of 65 505 bytes), the rest as `Single`
    MaxFirst,
    /// Fixed(k) without the trailing EOF marker block
    NoEof(usize),
}

impl Layout {
    pub fn name(&self) -> String {
        match self {
            Layout::Single => "single".into(),
            Layout::PerUnit => "per-unit".into(),
            Layout::Fixed(k) => format!("fixed{k}"),
            Layout::EmptyFront(k) => format!("empty-front{k}"),
            Layout::EmptyMiddle(k) => format!("empty-middle{k}"),
            Layout::EmptyEnd(k) => format!("empty-end{k}"),
            Layout::Stored(k) => format!("stored{k}"),
            Layout::MaxFirst => "max-first-block".to_string(),
            Layout::NoEof(k) => format!("no-eof{k}"),
        }
    }
}

/// Compresses `data` into BGZF with the given layout; `bounds` are unit boundaries (first entry
/// = end of header, last = data.len()) used by `PerUnit`.
pub fn bgzf(data: &[u8], bounds: &[usize], layout: &Layout) -> Vec<u8> {
    let fixed = |k: usize| -> Vec<&[u8]> { data.chunks(k.min(BGZF_MAX_INPUT)).collect() };
    let (chunks, level, eof): (Vec<&[u8]>, u32, bool) = match layout {
        Layout::Single => (fixed(BGZF_MAX_INPUT), 6, true),
        Layout::PerUnit => {
            let mut v: Vec<&[u8]> = Vec::new();
            let mut prev = 0;
            for &b in bounds {
                for c in data[prev..b].chunks(BGZF_MAX_INPUT) {
                    v.push(c);
                }
                prev = b;
            }
            if prev < data.len() {
                v.push(&data[prev..]);
            }
            (v, 6, true)
        }
        Layout::Fixed(k) => (fixed(*k), 6, true),
        Layout::EmptyFront(k) => {
            let mut v = fixed(*k);
            v.insert(0, &data[0..0]);
            (v, 6, true)
        }
        Layout::EmptyMiddle(k) => {
            let mut v = fixed(*k);
            let m = v.len() / 2;
            v.insert(m, &data[0..0]);
            (v, 6, true)
        }
        Layout::EmptyEnd(k) => {
            let mut v = fixed(*k);
            v.push(&data[0..0]);
            (v, 6, true)
        }
        Layout::Stored(k) => (fixed(*k), 0, true),
        Layout::MaxFirst => (fixed(BGZF_MAX_INPUT), 6, true),
        Layout::NoEof(k) => (fixed(*k), 6, false),
    };
    let mut out = Vec::new();
    if *layout == Layout::MaxFirst && data.len() > 65_505 {
        let first = &data[..65_505];
        let len = first.len() as u16;
        let total = 18 + 5 + first.len() + 8;
        assert_eq!(total, 65_536);
        out.extend_from_slice(&[0x1f, 0x8b, 0x08, 0x04, 0, 0, 0, 0, 0x00, 0xff, 0x06, 0x00, 0x42, 0x43, 0x02, 0x00]);
        out.extend_from_slice(&((total - 1) as u16).to_le_bytes());
        out.push(0x01); // final stored block
        out.extend_from_slice(&len.to_le_bytes());
        out.extend_from_slice(&(!len).to_le_bytes());
        out.extend_from_slice(first);
        out.extend_from_slice(&crc32fast::hash(first).to_le_bytes());
        out.extend_from_slice(&(first.len() as u32).to_le_bytes());
        for c in data[65_505..].chunks(BGZF_MAX_INPUT) {
            out.extend_from_slice(&bgzf_block(c, 6));
        }
        out.extend_from_slice(&BGZF_EOF);
        return out;
    }
    for c in chunks {
        out.extend_from_slice(&bgzf_block(c, level));
    }
    if eof {
        out.extend_from_slice(&BGZF_EOF);
    }
    out
}

pub fn all_layouts() -> Vec<Layout> {
    vec![
        Layout::Single,
        Layout::PerUnit,
        Layout::Fixed(1),
        Layout::Fixed(7),
        Layout::Fixed(64),
        Layout::Fixed(4096),
        Layout::Fixed(65280),
        Layout::EmptyFront(64),
        Layout::EmptyMiddle(64),
        Layout::EmptyEnd(64),
        Layout::Stored(64),
        Layout::NoEof(64),
    ]
}

#[derive(Clone, Copy, Debug, PartialEq, Eq)]
pub enum Container {
    Vcf,
    VcfGz,
    Bcf,
    RawBcf,
    /// BCF whose magic string names minor version 1 (BCF2.1, still written by older tools)
    BcfMinor1,
    RawBcfMinor1,
}

impl Container {
    pub fn name(self) -> &'static str {
        match self {
            Container::Vcf => "vcf",
            Container::VcfGz => "vcf.gz",
            Container::Bcf => "bcf",
            Container::RawBcf => "raw-bcf",
            Container::BcfMinor1 => "bcf-2.1",
            Container::RawBcfMinor1 => "raw-bcf-2.1",
        }
    }
    pub fn suffix(self) -> &'static str {
        match self {
            Container::Vcf => ".vcf",
            Container::VcfGz => ".vcf.gz",
            Container::Bcf => ".bcf",
            Container::RawBcf => ".raw.bcf",
            Container::BcfMinor1 => ".bcf",
            Container::RawBcfMinor1 => ".raw.bcf",
        }
    }
    pub fn all() -> [Container; 4] {
        [Container::Vcf, Container::VcfGz, Container::Bcf, Container::RawBcf]
    }
    /// `all()` and the two BCF containers with the older minor version in the magic string.
    pub fn all_with_versions() -> [Container; 6] {
        [Container::Vcf, Container::VcfGz, Container::Bcf, Container::RawBcf, Container::BcfMinor1, Container::RawBcfMinor1]
    }
    pub fn compressed(self) -> bool {
        matches!(self, Container::VcfGz | Container::Bcf | Container::BcfMinor1)
    }
}

pub fn render(cs: &CallSet, c: Container, layout: &Layout) -> Vec<u8> {
    match c {
        Container::Vcf => to_vcf(cs).0,
        Container::VcfGz => {
            let (d, b) = to_vcf(cs);
            bgzf(&d, &b, layout)
        }
        Container::RawBcf => to_bcf(cs).0,
        Container::Bcf => {
            let (d, b) = to_bcf(cs);
            bgzf(&d, &b, layout)
        }
        Container::RawBcfMinor1 => {
            let mut d = to_bcf(cs).0;
            d[4] = 1;
            d
        }
        Container::BcfMinor1 => {
            let (mut d, b) = to_bcf(cs);
            d[4] = 1;
            bgzf(&d, &b, layout)
        }
    }
}

#[cfg(test)]
mod tests {
    use super::*;
    #[test]
    fn gt_parse() {
        assert_eq!(parse_gt("0|1"), vec![(Some(0), false), (Some(1), true)]);
        assert_eq!(parse_gt("./10/2"), vec![(None, false), (Some(10), false), (Some(2), false)]);
        assert_eq!(parse_gt("."), vec![(None, false)]);
    }
    #[test]
    fn bcf_matches_htslib_fixture_record() {
        // first record of /repo/cli/tests/create/simple.bcf as written by bcftools
        let r = Record {
            chrom: 0,
            pos: 1,
            alts: vec!["C"],
            gts: ["0|0", "0|1", "0/0", "1/1", "1|1"].iter().map(|s| s.to_string()).collect(),
            decorated: false,
        };
        let b = bcf_record(&r, 5);
        // identical apart from the GT dictionary index (1 in the fixture header, 2 in ours)
        let expect: Vec<u8> = vec![
            0x1e, 0, 0, 0, 0x0d, 0, 0, 0, 0, 0, 0, 0, 0, 0, 0, 0, 1, 0, 0, 0, 1, 0, 0x80, 0x7f, 0, 0, 2, 0, 5, 0, 0, 1,
            0x07, 0x17, 0x41, 0x17, 0x43, 0x00, 0x11, 0x02, 0x21, 2, 3, 2, 5, 2, 2, 4, 4, 4, 5,
        ];
        assert_eq!(b, expect);
    }
}
