//! NPY reference: a strict NPY 1.0/2.0/3.0 parser written from NEP-1 (used to judge what sfs
//! writes) and a synthesizer of numpy-style files with header spelling variants (used to judge
//! what sfs reads).

#[derive(Clone, Debug, PartialEq)]
pub struct Parsed {
    pub version: (u8, u8),
    pub header_len: usize,
    pub data_offset: usize,
    pub descr: String,
    pub fortran_order: bool,
    pub shape: Vec<usize>,
    pub dict_text: String,
}

// ---- tiny tokenizer for the Python-literal header dict ------------------------------------

#[derive(Clone, Debug, PartialEq)]
enum Tok {
    LBrace,
    RBrace,
    LParen,
    RParen,
    Colon,
    Comma,
    Str(String),
    Int(u64),
    Ident(String),
}

fn tokenize(s: &str) -> Result<Vec<Tok>, String> {
    let b = s.as_bytes();
    let mut i = 0;
    let mut out = Vec::new();
    while i < b.len() {
        let c = b[i];
        match c {
            b' ' | b'\t' | b'\n' => i += 1,
            b'{' => {
                out.push(Tok::LBrace);
                i += 1
            }
            b'}' => {
                out.push(Tok::RBrace);
                i += 1
            }
            b'(' => {
                out.push(Tok::LParen);
                i += 1
            }
            b')' => {
                out.push(Tok::RParen);
                i += 1
            }
            b':' => {
                out.push(Tok::Colon);
                i += 1
            }
            b',' => {
                out.push(Tok::Comma);
                i += 1
            }
            b'\'' | b'"' => {
                let q = c;
                let start = i + 1;
                i += 1;
                while i < b.len() && b[i] != q {
                    if b[i] == b'\\' {
                        return Err("escape in header string".into());
                    }
                    i += 1;
                }
                if i >= b.len() {
                    return Err("unterminated string".into());
                }
                out.push(Tok::Str(s[start..i].to_string()));
                i += 1;
            }
            b'0'..=b'9' => {
                let start = i;
                while i < b.len() && b[i].is_ascii_digit() {
                    i += 1;
                }
                out.push(Tok::Int(s[start..i].parse().map_err(|_| "bad int")?));
            }
            c if c.is_ascii_alphabetic() => {
                let start = i;
                while i < b.len() && (b[i].is_ascii_alphanumeric() || b[i] == b'_') {
                    i += 1;
                }
                out.push(Tok::Ident(s[start..i].to_string()));
            }
            other => return Err(format!("unexpected byte {other:#x} in header dict")),
        }
    }
    Ok(out)
}

fn parse_dict(s: &str) -> Result<(String, bool, Vec<usize>), String> {
    let t = tokenize(s)?;
    let mut i = 0;
    let mut eat = |want: &Tok, i: &mut usize| -> Result<(), String> {
        if t.get(*i) == Some(want) {
            *i += 1;
            Ok(())
        } else {
            Err(format!("expected {want:?} at token {i}, found {:?}", t.get(*i)))
        }
    };
    eat(&Tok::LBrace, &mut i)?;
    let mut descr = None;
    let mut fortran = None;
    let mut shape = None;
    loop {
        if t.get(i) == Some(&Tok::RBrace) {
            i += 1;
            break;
        }
        let key = match t.get(i) {
            Some(Tok::Str(k)) => k.clone(),
            other => return Err(format!("expected key string, found {other:?}")),
        };
        i += 1;
        eat(&Tok::Colon, &mut i)?;
        match key.as_str() {
            "descr" => match t.get(i) {
                Some(Tok::Str(v)) if descr.is_none() => {
                    descr = Some(v.clone());
                    i += 1;
                }
                other => return Err(format!("bad descr value {other:?}")),
            },
            "fortran_order" => match t.get(i) {
                Some(Tok::Ident(v)) if fortran.is_none() && (v == "True" || v == "False") => {
                    fortran = Some(v == "True");
                    i += 1;
                }
                other => return Err(format!("bad fortran_order value {other:?}")),
            },
            "shape" => {
                if shape.is_some() {
                    return Err("duplicate shape".into());
                }
                eat(&Tok::LParen, &mut i)?;
                let mut dims = Vec::new();
                let mut trailing_comma = false;
                loop {
                    match t.get(i) {
                        Some(Tok::RParen) => {
                            i += 1;
                            break;
                        }
                        Some(Tok::Int(v)) => {
                            dims.push(*v as usize);
                            i += 1;
                            trailing_comma = false;
                            match t.get(i) {
                                Some(Tok::Comma) => {
                                    i += 1;
                                    trailing_comma = true;
                                }
                                Some(Tok::RParen) => {}
                                other => return Err(format!("bad shape tuple at {other:?}")),
                            }
                        }
                        other => return Err(format!("bad shape tuple at {other:?}")),
                    }
                }
                if dims.len() == 1 && !trailing_comma {
                    return Err("(n) is not a tuple in Python; a 1-tuple needs a trailing comma".into());
                }
                shape = Some(dims);
            }
            other => return Err(format!("unexpected key '{other}'")),
        }
        match t.get(i) {
            Some(Tok::Comma) => i += 1,
            Some(Tok::RBrace) => {}
            other => return Err(format!("expected , or }} after value, found {other:?}")),
        }
    }
    if i != t.len() {
        return Err("trailing tokens after dict".into());
    }
    match (descr, fortran, shape) {
        (Some(d), Some(f), Some(s)) => Ok((d, f, s)),
        _ => Err("missing key (need exactly descr, fortran_order, shape)".into()),
    }
}

/// Strict header parse per NEP-1. Does not look at the data.
pub fn strict_parse_header(bytes: &[u8]) -> Result<Parsed, String> {
    if bytes.len() < 10 {
        return Err("shorter than the fixed header".into());
    }
    if &bytes[..6] != b"\x93NUMPY" {
        return Err("bad magic".into());
    }
    let version = (bytes[6], bytes[7]);
    let (header_len, pre) = match version {
        (1, 0) => (u16::from_le_bytes([bytes[8], bytes[9]]) as usize, 10),
        (2, 0) | (3, 0) => {
            if bytes.len() < 12 {
                return Err("short v2 header".into());
            }
            (
                u32::from_le_bytes([bytes[8], bytes[9], bytes[10], bytes[11]]) as usize,
                12,
            )
        }
        v => return Err(format!("unsupported version {v:?}")),
    };
    let data_offset = pre + header_len;
    if bytes.len() < data_offset {
        return Err("file shorter than declared header".into());
    }
    if data_offset % 64 != 0 {
        return Err(format!("data offset {data_offset} is not a multiple of 64"));
    }
    let h = &bytes[pre..data_offset];
    if h.last() != Some(&b'\n') {
        return Err("header does not end with a newline".into());
    }
    if !h.is_ascii() {
        return Err("header is not ASCII".into());
    }
    let text = std::str::from_utf8(h).map_err(|e| e.to_string())?;
    let body = &text[..text.len() - 1];
    if body.contains('\n') {
        return Err("newline inside header".into());
    }
    let (descr, fortran_order, shape) = parse_dict(body)?;
    Ok(Parsed {
        version,
        header_len,
        data_offset,
        descr,
        fortran_order,
        shape,
        dict_text: body.trim_end().to_string(),
    })
}

/// Full strict check of a file that must be NPY 1.0 '<f8' C-order with the given shape and values.
pub fn check_written(bytes: &[u8], shape: &[usize], values: &[f64]) -> Result<(), String> {
    let p = strict_parse_header(bytes)?;
    if p.version != (1, 0) {
        return Err(format!("version {:?}, expected (1,0)", p.version));
    }
    if p.descr != "<f8" {
        return Err(format!("descr '{}', expected '<f8'", p.descr));
    }
    if p.fortran_order {
        return Err("fortran_order True".into());
    }
    if p.shape != shape {
        return Err(format!("shape {:?}, expected {shape:?}", p.shape));
    }
    let data = &bytes[p.data_offset..];
    if data.len() != 8 * values.len() {
        return Err(format!(
            "{} data bytes, expected {}",
            data.len(),
            8 * values.len()
        ));
    }
    for (i, v) in values.iter().enumerate() {
        let got = f64::from_le_bytes(data[8 * i..8 * i + 8].try_into().unwrap());
        if got.to_bits() != v.to_bits() {
            return Err(format!("value {i} is {got:?} ({:#x}), expected {v:?} ({:#x})", got.to_bits(), v.to_bits()));
        }
    }
    Ok(())
}

// ---- synthesizer ---------------------------------------------------------------------------

#[derive(Clone, Debug)]
pub struct Spelling {
    pub quote: char,
    pub colon_spaces: (usize, usize),
    pub comma_spaces: (usize, usize),
    /// permutation of [descr, fortran_order, shape]
    pub key_order: [usize; 3],
    pub trailing_comma: bool,
    pub shape_trailing_comma: bool,
}

impl Spelling {
    pub fn numpy() -> Self {
        Spelling {
            quote: '\'',
            colon_spaces: (0, 1),
            comma_spaces: (0, 1),
            key_order: [0, 1, 2],
            trailing_comma: true,
            shape_trailing_comma: false,
        }
    }
    pub fn describe(&self) -> String {
        format!(
            "quote={} colon={:?} comma={:?} keys={:?} trailing={} shape_trailing={}",
            self.quote, self.colon_spaces, self.comma_spaces, self.key_order, self.trailing_comma, self.shape_trailing_comma
        )
    }
}

pub fn dict_text(descr: &str, fortran: bool, shape: &[usize], sp: &Spelling) -> String {
    let q = sp.quote;
    let colon = format!("{}:{}", " ".repeat(sp.colon_spaces.0), " ".repeat(sp.colon_spaces.1));
    let comma = format!("{},{}", " ".repeat(sp.comma_spaces.0), " ".repeat(sp.comma_spaces.1));
    let shape_txt = {
        let items: Vec<String> = shape.iter().map(|n| n.to_string()).collect();
        if shape.len() == 1 {
            format!("({},)", items[0])
        } else if sp.shape_trailing_comma {
            format!("({}{})", items.join(&comma), ",")
        } else {
            format!("({})", items.join(&comma))
        }
    };
    let entries = [
        format!("{q}descr{q}{colon}{q}{descr}{q}"),
        format!("{q}fortran_order{q}{colon}{}", if fortran { "True" } else { "False" }),
        format!("{q}shape{q}{colon}{shape_txt}"),
    ];
    let ordered: Vec<String> = sp.key_order.iter().map(|&i| entries[i].clone()).collect();
    let mut s = format!("{{{}", ordered.join(&comma));
    if sp.trailing_comma {
        s.push_str(", ");
    }
    s.push('}');
    s
}

/// A file laid out as numpy lays it out: magic, version, header length, dict, space padding to a
/// multiple of 64 ending in '\n', data.
pub fn synth(version: u8, dict: &str, data: &[u8]) -> Vec<u8> {
    synth_aligned(version, dict, data, 64)
}

/// As `synth`, with the data starting at a multiple of `align` bytes that is not a multiple of 64
/// (16: what numpy before 1.14 and other writers of format 1.0 produce; 1: no padding at all beyond
/// one blank, which the format allows a reader to meet).
pub fn synth_aligned(version: u8, dict: &str, data: &[u8], align: usize) -> Vec<u8> {
    let pre = if version == 1 { 10 } else { 12 };
    let unpadded = pre + dict.len() + 1;
    let mut pad = (align - unpadded % align) % align;
    if align < 64 && (unpadded + pad) % 64 == 0 {
        pad += align.max(3);
    }
    let header_len = dict.len() + pad + 1;
    let mut out = b"\x93NUMPY".to_vec();
    out.push(version);
    out.push(0);
    if version == 1 {
        out.extend_from_slice(&(header_len as u16).to_le_bytes());
    } else {
        out.extend_from_slice(&(header_len as u32).to_le_bytes());
    }
    out.extend_from_slice(dict.as_bytes());
    out.extend(std::iter::repeat(b' ').take(pad));
    out.push(b'\n');
    out.extend_from_slice(data);
    out
}

pub const TYPES: [&str; 10] = ["f4", "f8", "i1", "i2", "i4", "i8", "u1", "u2", "u4", "u8"];

/// Boundary values of a dtype as (bytes in the given byte order, expected f64 bits).
pub fn boundary_values(ty: &str, big_endian: bool) -> Vec<(Vec<u8>, u64)> {
    fn enc<const N: usize>(le: [u8; N], big: bool) -> Vec<u8> {
        let mut v = le.to_vec();
        if big {
            v.reverse();
        }
        v
    }
    let mut out = Vec::new();
    match ty {
        "f4" => {
            for v in [0.0f32, -0.0, 1.0, -1.5, f32::MAX, f32::MIN_POSITIVE, 1e-45, f32::INFINITY, f32::NEG_INFINITY, f32::NAN, 0.1, 16_777_217.0] {
                out.push((enc(v.to_le_bytes(), big_endian), (v as f64).to_bits()));
            }
        }
        "f8" => {
            for v in [0.0f64, -0.0, 1.0, -1.5, f64::MAX, f64::MIN_POSITIVE, 5e-324, f64::INFINITY, f64::NEG_INFINITY, f64::NAN, 0.1, 1e22, f64::from_bits(0x7ff0_0000_0000_0001), f64::from_bits(0xfff8_0000_dead_beef)] {
                out.push((enc(v.to_le_bytes(), big_endian), v.to_bits()));
            }
        }
        "i1" => {
            for v in [i8::MIN, -1, 0, 1, i8::MAX, 42] {
                out.push((enc(v.to_le_bytes(), big_endian), (v as f64).to_bits()));
            }
        }
        "i2" => {
            for v in [i16::MIN, -1, 0, 1, i16::MAX, 258, -255] {
                out.push((enc(v.to_le_bytes(), big_endian), (v as f64).to_bits()));
            }
        }
        "i4" => {
            for v in [i32::MIN, -1, 0, 1, i32::MAX, 16_909_060, -65_536] {
                out.push((enc(v.to_le_bytes(), big_endian), (v as f64).to_bits()));
            }
        }
        "i8" => {
            for v in [i64::MIN, -1, 0, 1, i64::MAX, 72_623_859_790_382_856, -(1 << 53) - 1, (1 << 53) + 1] {
                out.push((enc(v.to_le_bytes(), big_endian), decimal_i128_to_f64(v as i128).to_bits()));
            }
        }
        "u1" => {
            for v in [0u8, 1, 127, 128, u8::MAX] {
                out.push((enc(v.to_le_bytes(), big_endian), (v as f64).to_bits()));
            }
        }
        "u2" => {
            for v in [0u16, 1, 258, 32768, u16::MAX] {
                out.push((enc(v.to_le_bytes(), big_endian), (v as f64).to_bits()));
            }
        }
        "u4" => {
            for v in [0u32, 1, 16_909_060, 1 << 31, u32::MAX] {
                out.push((enc(v.to_le_bytes(), big_endian), (v as f64).to_bits()));
            }
        }
        "u8" => {
            for v in [0u64, 1, 72_623_859_790_382_856, 1 << 63, u64::MAX, (1 << 53) + 1, u64::MAX - 1024] {
                out.push((enc(v.to_le_bytes(), big_endian), decimal_i128_to_f64(v as i128).to_bits()));
            }
        }
        _ => panic!("unknown type"),
    }
    out
}

/// Integer -> nearest f64 (ties to even), computed from the decimal meaning with integer
/// arithmetic only (independent of the `as f64` cast the subject uses).
pub fn decimal_i128_to_f64(v: i128) -> f64 {
    if v == 0 {
        return 0.0;
    }
    let neg = v < 0;
    let mut m = v.unsigned_abs();
    let mut e: i32 = 0;
    // reduce to 53 bits with round-half-even
    let bits = 128 - m.leading_zeros() as i32;
    if bits > 53 {
        let shift = (bits - 53) as u32;
        let rem = m & ((1u128 << shift) - 1);
        let half = 1u128 << (shift - 1);
        m >>= shift;
        e = shift as i32;
        if rem > half || (rem == half && (m & 1) == 1) {
            m += 1;
            if m == (1u128 << 53) {
                m >>= 1;
                e += 1;
            }
        }
    }
    let x = (m as u64) as f64 * 2f64.powi(e);
    if neg {
        -x
    } else {
        x
    }
}

#[cfg(test)]
mod tests {
    use super::*;
    #[test]
    fn numpy_default_layout_parses() {
        let d = dict_text("<f8", false, &[3, 4], &Spelling::numpy());
        assert_eq!(d, "{'descr': '<f8', 'fortran_order': False, 'shape': (3, 4), }");
        let f = synth(1, &d, &[0u8; 96]);
        let p = strict_parse_header(&f).unwrap();
        assert_eq!(p.shape, vec![3, 4]);
        assert_eq!(p.data_offset % 64, 0);
        assert_eq!(f.len(), p.data_offset + 96);
    }
    #[test]
    fn int_rounding() {
        assert_eq!(decimal_i128_to_f64(i64::MAX as i128), 9.223372036854775807e18);
        assert_eq!(decimal_i128_to_f64(u64::MAX as i128), 1.8446744073709552e19);
        assert_eq!(decimal_i128_to_f64((1i128 << 53) + 1), 9007199254740992.0);
        assert_eq!(decimal_i128_to_f64(-((1i128 << 53) + 1)), -9007199254740992.0);
        assert_eq!(decimal_i128_to_f64((1i128 << 53) + 3), 9007199254740996.0);
    }
}
