//! Reference models (the oracle side; deliberately naive). Written from the property statements
//! and the cited papers, never from the implementation.

use std::sync::OnceLock;

use crate::enumerate::{for_each_index, indices};

// ---------------------------------------------------------------------------------------------
// RefArray: shape + Vec<f64>, explicit row-major arithmetic, no strides/views.

#[derive(Clone, Debug, PartialEq)]
pub struct RefArray {
    pub shape: Vec<usize>,
    pub data: Vec<f64>,
}

impl RefArray {
    pub fn zeros(shape: &[usize]) -> Self {
        RefArray {
            shape: shape.to_vec(),
            data: vec![0.0; shape.iter().product()],
        }
    }
    pub fn from_fn(shape: &[usize], mut f: impl FnMut(usize, &[usize]) -> f64) -> Self {
        let mut data = Vec::with_capacity(shape.iter().product());
        let mut flat = 0;
        for_each_index(shape, |idx| {
            data.push(f(flat, idx));
            flat += 1;
        });
        RefArray {
            shape: shape.to_vec(),
            data,
        }
    }
    /// Row-major flat position: ((i0 * n1 + i1) * n2 + i2) ...
    pub fn flat(&self, idx: &[usize]) -> usize {
        assert_eq!(idx.len(), self.shape.len());
        let mut f = 0usize;
        for (i, n) in idx.iter().zip(&self.shape) {
            assert!(i < n);
            f = f * n + i;
        }
        f
    }
    pub fn get(&self, idx: &[usize]) -> f64 {
        self.data[self.flat(idx)]
    }
    pub fn add(&mut self, idx: &[usize], v: f64) {
        let f = self.flat(idx);
        self.data[f] += v;
    }
    pub fn sum(&self) -> f64 {
        self.data.iter().sum()
    }

    /// Sum over the removed axes (a set); remaining axes keep their original order.
    pub fn marginalize(&self, remove: &[usize]) -> RefArray {
        let keep: Vec<usize> = (0..self.shape.len()).filter(|a| !remove.contains(a)).collect();
        let new_shape: Vec<usize> = keep.iter().map(|&a| self.shape[a]).collect();
        let mut out = RefArray::zeros(&new_shape);
        let mut flat = 0;
        for_each_index(&self.shape, |idx| {
            let sub: Vec<usize> = keep.iter().map(|&a| idx[a]).collect();
            out.add(&sub, self.data[flat]);
            flat += 1;
        });
        out
    }

    /// Every index k_j replaced by n_j - k_j.
    pub fn mirror(&self) -> RefArray {
        let mut out = RefArray::zeros(&self.shape);
        let mut flat = 0;
        for_each_index(&self.shape, |idx| {
            let m: Vec<usize> = idx.iter().zip(&self.shape).map(|(k, n)| n - 1 - k).collect();
            let f = out.flat(&m);
            out.data[f] = self.data[flat];
            flat += 1;
        });
        out
    }

    /// Folding by the statement of C05 on multi-indices.
    pub fn fold(&self, fill: f64) -> RefArray {
        let total: usize = self.shape.iter().map(|n| n - 1).sum();
        let mut out = RefArray::zeros(&self.shape);
        let mut flat = 0;
        for_each_index(&self.shape, |idx| {
            let s: usize = idx.iter().sum();
            let m: Vec<usize> = idx.iter().zip(&self.shape).map(|(k, n)| n - 1 - k).collect();
            let x = self.data[flat];
            let y = self.get(&m);
            out.data[flat] = if 2 * s < total {
                x + y
            } else if 2 * s == total {
                0.5 * x + 0.5 * y
            } else {
                fill
            };
            flat += 1;
        });
        out
    }

    /// Axis permutation: out[idx permuted] = self[idx]; new axis j is old axis perm[j].
    pub fn transpose(&self, perm: &[usize]) -> RefArray {
        let new_shape: Vec<usize> = perm.iter().map(|&a| self.shape[a]).collect();
        let mut out = RefArray::zeros(&new_shape);
        let mut flat = 0;
        for_each_index(&self.shape, |idx| {
            let n: Vec<usize> = perm.iter().map(|&a| idx[a]).collect();
            let f = out.flat(&n);
            out.data[f] = self.data[flat];
            flat += 1;
        });
        out
    }

    /// Hypergeometric projection to `to` (a shape, entries m_j + 1).
    pub fn project(&self, to: &[usize]) -> RefArray {
        let mut out = RefArray::zeros(to);
        let d = self.shape.len();
        let tgt = indices(to);
        let mut flat = 0;
        for_each_index(&self.shape, |k| {
            let x = self.data[flat];
            flat += 1;
            if x == 0.0 {
                return;
            }
            for (tf, kp) in tgt.iter().enumerate() {
                let mut w = 1.0;
                for j in 0..d {
                    w *= hyper_exact(
                        (self.shape[j] - 1) as u64,
                        k[j] as u64,
                        (to[j] - 1) as u64,
                        kp[j] as u64,
                    );
                    if w == 0.0 {
                        break;
                    }
                }
                out.data[tf] += x * w;
            }
        });
        out
    }
}

// ---------------------------------------------------------------------------------------------
// Exact / high-accuracy hypergeometric pmf: P(k successes in n draws | N items, K successes).

fn binom_u128(n: u64, k: u64) -> Option<u128> {
    if k > n {
        return Some(0);
    }
    let k = k.min(n - k);
    let mut c: u128 = 1;
    for i in 0..k {
        // c * (n - i) / (i + 1) is always integral
        c = c.checked_mul((n - i) as u128)? / (i as u128 + 1);
    }
    Some(c)
}

const LNF_MAX: usize = 40_001;

fn lnfact_table() -> &'static Vec<f64> {
    static T: OnceLock<Vec<f64>> = OnceLock::new();
    T.get_or_init(|| {
        // compensated (Kahan) summation of ln(i)
        let mut v = Vec::with_capacity(LNF_MAX);
        v.push(0.0);
        let (mut sum, mut c) = (0.0f64, 0.0f64);
        for i in 1..LNF_MAX {
            let y = (i as f64).ln() - c;
            let t = sum + y;
            c = (t - sum) - y;
            sum = t;
            v.push(sum);
        }
        v
    })
}

pub fn ln_binom(n: u64, k: u64) -> f64 {
    let t = lnfact_table();
    t[n as usize] - t[k as usize] - t[(n - k) as usize]
}

pub fn hyper_exact(big_n: u64, big_k: u64, n: u64, k: u64) -> f64 {
    assert!(big_k <= big_n && n <= big_n);
    // support: max(0, n - (N-K)) <= k <= min(n, K)
    if k > n || k > big_k || n - k > big_n - big_k {
        return 0.0;
    }
    if big_n <= 120 {
        if let (Some(a), Some(b), Some(c)) = (
            binom_u128(big_k, k),
            binom_u128(big_n - big_k, n - k),
            binom_u128(big_n, n),
        ) {
            if let Some(num) = a.checked_mul(b) {
                // exact integers; the two conversions round to nearest (relative 2^-53 each)
                return num as f64 / c as f64;
            }
        }
    }
    (ln_binom(big_k, k) + ln_binom(big_n - big_k, n - k) - ln_binom(big_n, n)).exp()
}

// ---------------------------------------------------------------------------------------------
// Comparison helpers (DESIGN 2.9)

pub fn bits_eq(a: f64, b: f64) -> bool {
    a.to_bits() == b.to_bits()
}

/// Bitwise equality, except that any NaN equals any NaN when `nan_payload` is false.
pub fn same_f64(a: f64, b: f64) -> bool {
    (a.is_nan() && b.is_nan()) || a.to_bits() == b.to_bits()
}

pub fn close(x: f64, r: f64, rel: f64, abs: f64) -> bool {
    if x.is_nan() || r.is_nan() {
        return x.is_nan() && r.is_nan();
    }
    if x.is_infinite() || r.is_infinite() {
        return x == r;
    }
    (x - r).abs() <= rel * r.abs() + abs
}

/// A value printed with `p` decimals and parsed back, against the reference value.
pub fn printed_ok(got: f64, expect: f64, p: usize) -> bool {
    if got.is_nan() || expect.is_nan() {
        return got.is_nan() && expect.is_nan();
    }
    if got.is_infinite() || expect.is_infinite() {
        return got == expect;
    }
    (got - expect).abs() <= 0.5 * 10f64.powi(-(p as i32)) * (1.0 + 1e-6) + 1e-9 * expect.abs()
}

/// Tolerance for hypergeometric coefficients and projected mass.
pub fn close_coef(x: f64, r: f64) -> bool {
    close(x, r, 1e-8, 1e-13)
}

/// Tolerance for a single hypergeometric coefficient of population size `big_n`, relative also in
/// the far tails. The unchanged tree is within 1e-13 (N <= 170, factorial table) and 2e-12 (larger N,
/// log-gamma) of the exact value; the bounds leave a factor of 50 to 100 for other correct
/// implementations and still separate rounding from a lower-precision accumulator, a truncated
/// series or an approximation formula.
pub fn close_coef_n(x: f64, r: f64, big_n: u64) -> bool {
    let rel = if big_n <= 170 {
        1e-11
    } else if big_n <= 5000 {
        1e-10
    } else {
        1e-8
    };
    close(x, r, rel, 1e-300)
}

/// Tolerance for statistics; `scale` is a natural magnitude of the terms involved.
pub fn close_stat(x: f64, r: f64, scale: f64) -> bool {
    if x.is_nan() || r.is_nan() {
        return x.is_nan() && r.is_nan();
    }
    if x.is_infinite() || r.is_infinite() {
        return x == r;
    }
    (x - r).abs() <= 1e-9 * r.abs().max(scale) + 1e-12
}

#[cfg(test)]
mod tests {
    use super::*;
    #[test]
    fn hyper_basic() {
        assert!((hyper_exact(10, 7, 8, 5) - 0.4666666666666667).abs() < 1e-15);
        assert_eq!(hyper_exact(6, 2, 2, 3), 0.0);
        // mass
        for n in [200u64, 1030, 4000] {
            let s: f64 = (0..=50).map(|k| hyper_exact(n, n / 2, 50, k)).sum();
            assert!((s - 1.0).abs() < 1e-9, "{n} {s}");
        }
        // exact vs log agreement at the switch
        let a = hyper_exact(120, 60, 30, 15);
        let b = (ln_binom(60, 15) + ln_binom(60, 15) - ln_binom(120, 30)).exp();
        assert!((a - b).abs() / a < 1e-12);
    }
    #[test]
    fn fold_3x3() {
        let a = RefArray::from_fn(&[3, 3], |f, _| f as f64);
        let f = a.fold(-1.0);
        assert_eq!(f.data, vec![8.0, 8.0, 4.0, 8.0, 4.0, -1.0, 4.0, -1.0, -1.0]);
    }
    #[test]
    fn marg() {
        let a = RefArray::from_fn(&[2, 3], |f, _| f as f64);
        assert_eq!(a.marginalize(&[0]).data, vec![3.0, 5.0, 7.0]);
        assert_eq!(a.marginalize(&[1]).data, vec![3.0, 12.0]);
    }
}
