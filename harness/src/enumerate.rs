//! Deterministic, simplest-first enumerators (DESIGN 2.5). No randomness anywhere.

/// All shapes with 1..=max_dims axes, every length in min_len..=max_len, at most max_cells cells;
/// ordered by number of axes, then lexicographically.
pub fn shapes(max_dims: usize, min_len: usize, max_len: usize, max_cells: usize) -> Vec<Vec<usize>> {
    let mut out = Vec::new();
    for d in 1..=max_dims {
        for idx in indices(&vec![max_len - min_len + 1; d]) {
            let s: Vec<usize> = idx.iter().map(|x| x + min_len).collect();
            if s.iter().product::<usize>() <= max_cells {
                out.push(s);
            }
        }
    }
    out
}

/// All multi-indices of a box in row-major order (last axis fastest), by explicit odometer.
pub fn indices(shape: &[usize]) -> Vec<Vec<usize>> {
    let mut out = Vec::new();
    if shape.iter().any(|&n| n == 0) {
        return out;
    }
    let mut cur = vec![0usize; shape.len()];
    loop {
        out.push(cur.clone());
        let mut i = shape.len();
        loop {
            if i == 0 {
                return out;
            }
            i -= 1;
            cur[i] += 1;
            if cur[i] < shape[i] {
                break;
            }
            cur[i] = 0;
        }
    }
}

/// Calls `f` for each multi-index of the box in row-major order without allocating per index.
pub fn for_each_index(shape: &[usize], mut f: impl FnMut(&[usize])) {
    if shape.iter().any(|&n| n == 0) {
        return;
    }
    let mut cur = vec![0usize; shape.len()];
    loop {
        f(&cur);
        let mut i = shape.len();
        loop {
            if i == 0 {
                return;
            }
            i -= 1;
            cur[i] += 1;
            if cur[i] < shape[i] {
                break;
            }
            cur[i] = 0;
        }
    }
}

/// All permutations of 0..n in lexicographic order.
pub fn permutations(n: usize) -> Vec<Vec<usize>> {
    fn rec(cur: &mut Vec<usize>, used: &mut Vec<bool>, n: usize, out: &mut Vec<Vec<usize>>) {
        if cur.len() == n {
            out.push(cur.clone());
            return;
        }
        for i in 0..n {
            if !used[i] {
                used[i] = true;
                cur.push(i);
                rec(cur, used, n, out);
                cur.pop();
                used[i] = false;
            }
        }
    }
    let mut out = Vec::new();
    rec(&mut Vec::new(), &mut vec![false; n], n, &mut out);
    out
}

/// All ordered lists of distinct elements of 0..n with length in min_len..=max_len.
pub fn ordered_lists(n: usize, min_len: usize, max_len: usize) -> Vec<Vec<usize>> {
    fn rec(
        cur: &mut Vec<usize>,
        used: &mut Vec<bool>,
        n: usize,
        min_len: usize,
        max_len: usize,
        out: &mut Vec<Vec<usize>>,
    ) {
        if cur.len() >= min_len {
            out.push(cur.clone());
        }
        if cur.len() == max_len {
            return;
        }
        for i in 0..n {
            if !used[i] {
                used[i] = true;
                cur.push(i);
                rec(cur, used, n, min_len, max_len, out);
                cur.pop();
                used[i] = false;
            }
        }
    }
    let mut out = Vec::new();
    rec(&mut Vec::new(), &mut vec![false; n], n, min_len, max_len, &mut out);
    out
}

/// All sequences over 0..k (with repetition) of length in min_len..=max_len, shortest first.
pub fn sequences(k: usize, min_len: usize, max_len: usize) -> Vec<Vec<usize>> {
    let mut out = Vec::new();
    for len in min_len..=max_len {
        let mut cur = vec![0usize; len];
        if len == 0 {
            out.push(cur);
            continue;
        }
        if k == 0 {
            continue;
        }
        'outer: loop {
            out.push(cur.clone());
            let mut i = len;
            loop {
                if i == 0 {
                    break 'outer;
                }
                i -= 1;
                cur[i] += 1;
                if cur[i] < k {
                    break;
                }
                cur[i] = 0;
            }
        }
    }
    out
}

/// All subsets of 0..n as sorted vectors, ordered by bit mask.
pub fn subsets(n: usize) -> Vec<Vec<usize>> {
    (0..(1usize << n))
        .map(|m| (0..n).filter(|i| m >> i & 1 == 1).collect())
        .collect()
}

/// Sample -> population maps: each of `s` samples is unselected (None) or in population 0..max_pops,
/// with population ids in first-use order (restricted growth), at least one sample selected.
pub fn sample_maps(s: usize, max_pops: usize) -> Vec<Vec<Option<usize>>> {
    fn rec(
        cur: &mut Vec<Option<usize>>,
        used: usize,
        s: usize,
        max_pops: usize,
        out: &mut Vec<Vec<Option<usize>>>,
    ) {
        if cur.len() == s {
            if used > 0 {
                out.push(cur.clone());
            }
            return;
        }
        cur.push(None);
        rec(cur, used, s, max_pops, out);
        cur.pop();
        for p in 0..=used.min(max_pops - 1) {
            cur.push(Some(p));
            rec(cur, used.max(p + 1), s, max_pops, out);
            cur.pop();
        }
    }
    let mut out = Vec::new();
    rec(&mut Vec::new(), 0, s, max_pops, &mut out);
    out
}

#[cfg(test)]
mod tests {
    use super::*;
    #[test]
    fn counts() {
        assert_eq!(shapes(4, 1, 4, usize::MAX).len(), 340);
        assert_eq!(shapes(5, 1, 5, usize::MAX).len(), 3905);
        assert_eq!(permutations(4).len(), 24);
        assert_eq!(sample_maps(3, 4).len(), 14);
        assert_eq!(sample_maps(4, 4).len(), 51);
        assert_eq!(sequences(6, 0, 4).len(), 1555);
        assert_eq!(indices(&[2, 3]).len(), 6);
        assert_eq!(indices(&[2, 3])[1], vec![0, 1]);
    }
}

/// Shapes beyond the small-scope grid (DESIGN 8.2, "scale"): every shape over lengths {1,2} with
/// 6..=max_axes axes (up to 2^max_axes cells), and a ladder of long axes around 255/256, 1 000 and
/// 65 536 alone and next to short axes.
pub fn scale_shapes(max_axes: usize) -> Vec<Vec<usize>> {
    let mut out = Vec::new();
    for d in 6..=max_axes {
        for idx in indices(&vec![2; d]) {
            out.push(idx.iter().map(|x| x + 1).collect());
        }
    }
    for n in [255usize, 256, 257, 1000, 4097, 65535, 65536, 65537] {
        out.push(vec![n]);
        if n <= 4097 {
            out.push(vec![2, n]);
            out.push(vec![n, 3]);
            out.push(vec![2, n, 2]);
        }
    }
    out.push(vec![256, 256]);
    out.push(vec![3, 3, 3, 3, 3, 3, 3]);
    out.push(vec![2, 3, 2, 3, 2, 3, 2, 3]);
    out
}
