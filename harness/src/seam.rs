//! Environment seams: chunk-scheduled / failing readers and short / failing writers (DESIGN 2.7).

use std::{
    io::{self, BufRead, Read, Write},
    sync::{
        atomic::{AtomicBool, AtomicUsize, Ordering},
        Arc,
    },
};

/// How the bytes after the explicit cuts are delivered.
#[derive(Clone, Debug, PartialEq)]
pub struct Schedule {
    /// sorted absolute offsets at which a chunk must end
    pub cuts: Vec<usize>,
    /// after the last cut: chunk size (0 = everything that is left)
    pub period: usize,
    /// at this offset every further call returns an error
    pub fault_at: Option<usize>,
}

impl Schedule {
    pub fn whole() -> Self {
        Schedule {
            cuts: vec![],
            period: 0,
            fault_at: None,
        }
    }
    pub fn cuts(cuts: &[usize]) -> Self {
        Schedule {
            cuts: cuts.to_vec(),
            period: 0,
            fault_at: None,
        }
    }
    pub fn periodic(k: usize) -> Self {
        Schedule {
            cuts: vec![],
            period: k,
            fault_at: None,
        }
    }
    pub fn with_fault(mut self, at: usize) -> Self {
        self.fault_at = Some(at);
        self
    }
    pub fn describe(&self) -> String {
        format!(
            "cuts={:?} period={} fault_at={:?}",
            self.cuts, self.period, self.fault_at
        )
    }
}

/// Shared log of what the subject saw.
#[derive(Clone, Default)]
pub struct SeamLog {
    pub fault_delivered: Arc<AtomicBool>,
    pub bytes_consumed: Arc<AtomicUsize>,
    pub deliveries: Arc<AtomicUsize>,
}

pub struct ChunkedReader {
    data: Arc<Vec<u8>>,
    pos: usize,
    sched: Schedule,
    log: SeamLog,
}

impl ChunkedReader {
    pub fn new(data: Arc<Vec<u8>>, sched: Schedule) -> (Self, SeamLog) {
        let log = SeamLog::default();
        (
            ChunkedReader {
                data,
                pos: 0,
                sched,
                log: log.clone(),
            },
            log,
        )
    }

    /// End of the chunk that starts at `self.pos`.
    fn chunk_end(&self) -> usize {
        let len = self.data.len();
        let mut end = len;
        if let Some(&c) = self.sched.cuts.iter().find(|&&c| c > self.pos) {
            end = end.min(c);
        } else if self.sched.period > 0 {
            // periodic chunks counted from the last explicit cut (or 0)
            let base = self.sched.cuts.last().copied().unwrap_or(0);
            let k = self.sched.period;
            let next = base + ((self.pos - base) / k + 1) * k;
            end = end.min(next);
        }
        if let Some(f) = self.sched.fault_at {
            if f > self.pos {
                end = end.min(f);
            }
        }
        end
    }

    fn check_fault(&self) -> io::Result<()> {
        if let Some(f) = self.sched.fault_at {
            if self.pos >= f {
                self.log.fault_delivered.store(true, Ordering::SeqCst);
                return Err(io::Error::new(io::ErrorKind::Other, "injected read fault"));
            }
        }
        Ok(())
    }
}

impl Read for ChunkedReader {
    fn read(&mut self, buf: &mut [u8]) -> io::Result<usize> {
        if buf.is_empty() {
            return Ok(0);
        }
        let n = {
            let avail = self.fill_buf()?;
            let n = avail.len().min(buf.len());
            buf[..n].copy_from_slice(&avail[..n]);
            n
        };
        self.consume(n);
        Ok(n)
    }
}

impl BufRead for ChunkedReader {
    fn fill_buf(&mut self) -> io::Result<&[u8]> {
        self.check_fault()?;
        let end = self.chunk_end();
        self.log.deliveries.fetch_add(1, Ordering::Relaxed);
        Ok(&self.data[self.pos..end])
    }
    fn consume(&mut self, amt: usize) {
        self.pos = (self.pos + amt).min(self.data.len());
        self.log.bytes_consumed.store(self.pos, Ordering::SeqCst);
    }
}

/// Writer that accepts at most `max` bytes per call and optionally fails / returns Ok(0) at an
/// offset.
pub struct SeamWriter {
    pub out: Vec<u8>,
    pub max: usize,
    pub fail_at: Option<usize>,
    pub zero_at: Option<usize>,
    pub fail_on_flush: bool,
    pub fault_delivered: bool,
    /// fail exactly once when the output has reached this length, then accept data again
    pub fail_once_at: Option<usize>,
}

impl SeamWriter {
    pub fn short(max: usize) -> Self {
        SeamWriter {
            out: Vec::new(),
            max,
            fail_at: None,
            zero_at: None,
            fail_on_flush: false,
            fault_delivered: false,
            fail_once_at: None,
        }
    }
}

impl Write for SeamWriter {
    fn write(&mut self, buf: &[u8]) -> io::Result<usize> {
        if buf.is_empty() {
            return Ok(0);
        }
        let pos = self.out.len();
        let mut n = buf.len().min(self.max.max(1));
        if let Some(f) = self.fail_at {
            if pos >= f {
                self.fault_delivered = true;
                return Err(io::Error::new(io::ErrorKind::Other, "injected write fault"));
            }
            n = n.min(f - pos);
        }
        if let Some(f) = self.fail_once_at {
            if pos >= f && !self.fault_delivered {
                self.fault_delivered = true;
                return Err(io::Error::new(io::ErrorKind::Other, "injected one-off write fault"));
            }
            if !self.fault_delivered {
                n = n.min(f - pos);
            }
        }
        if let Some(z) = self.zero_at {
            if pos >= z {
                self.fault_delivered = true;
                return Ok(0);
            }
            n = n.min(z - pos);
        }
        self.out.extend_from_slice(&buf[..n]);
        Ok(n)
    }
    fn flush(&mut self) -> io::Result<()> {
        Ok(())
    }
}

#[cfg(test)]
mod tests {
    use super::*;
    #[test]
    fn chunks() {
        let data = Arc::new((0u8..20).collect::<Vec<_>>());
        let (mut r, _) = ChunkedReader::new(data.clone(), Schedule { cuts: vec![3, 5], period: 4, fault_at: None });
        let mut sizes = vec![];
        loop {
            let n = r.fill_buf().unwrap().len();
            if n == 0 {
                break;
            }
            sizes.push(n);
            r.consume(n);
        }
        assert_eq!(sizes, vec![3, 2, 4, 4, 4, 3]);
        let (mut r, log) = ChunkedReader::new(data, Schedule::whole().with_fault(7));
        let mut v = Vec::new();
        assert!(r.read_to_end(&mut v).is_err());
        assert_eq!(v.len(), 7);
        assert!(log.fault_delivered.load(Ordering::SeqCst));
    }
}
