//! Verdict protocol: violations with canonical failure keys, replay files, known-findings
//! matching, evidence JSON, exit status (DESIGN 2.10).

use std::{
    cell::{Cell, RefCell},
    collections::BTreeMap,
    fs,
    panic::{self, AssertUnwindSafe},
    path::PathBuf,
    time::Instant,
};

use crate::json::J;

pub const VERIF_DIR: &str = "/verif";

/// Replay records of violations seen so far in this run (written as soon as a new failure key
/// appears); the wall-cap watchdog reports them if the run has to be cut short.
static EARLY: std::sync::Mutex<Vec<(String, PathBuf)>> = std::sync::Mutex::new(Vec::new());

pub fn early_violations() -> Vec<(String, PathBuf)> {
    EARLY.lock().map(|e| e.clone()).unwrap_or_default()
}

#[derive(Clone, Copy, Debug, PartialEq, Eq)]
pub enum Tier {
    Quick,
    Thorough,
}

impl Tier {
    pub fn name(self) -> &'static str {
        match self {
            Tier::Quick => "quick",
            Tier::Thorough => "thorough",
        }
    }
    pub fn thorough(self) -> bool {
        self == Tier::Thorough
    }
    /// Picks the quick or the thorough value of a bound.
    pub fn pick<T>(self, quick: T, thorough: T) -> T {
        match self {
            Tier::Quick => quick,
            Tier::Thorough => thorough,
        }
    }
}

#[derive(Clone, Debug)]
pub struct Violation {
    pub key: String,
    pub what: String,
    pub replay: J,
}

/// One named part of a check with its own measured counts (goes into coverage.parts).
#[derive(Clone, Debug, Default)]
pub struct Part {
    pub name: String,
    pub evaluations: u64,
    pub nontrivial: u64,
    pub note: String,
    pub exhaustive: bool,
    pub extra: Vec<(String, J)>,
}

pub struct Report {
    pub prop: &'static str,
    pub tier: Tier,
    pub level: &'static str,
    pub seed: i64,
    pub rule: String,
    pub parts: Vec<Part>,
    pub samples: Vec<J>,
    pub states: u64,
    pub transitions: u64,
    pub traces: u64,
    pub exhaustive: bool,
    pub caps_hit: Vec<String>,
    pub assumptions: Vec<String>,
    pub extra: Vec<(String, J)>,
    pub outcomes: BTreeMap<String, u64>,
    pub inconclusive: u64,
    violations: BTreeMap<String, (u64, Vec<Violation>)>,
    start: Instant,
}

impl Report {
    pub fn new(prop: &'static str, tier: Tier, level: &'static str) -> Self {
        let seed = std::env::var("VERIF_SEED")
            .ok()
            .and_then(|s| s.parse().ok())
            .unwrap_or(0);
        Report {
            prop,
            tier,
            level,
            seed,
            rule: String::new(),
            parts: Vec::new(),
            samples: Vec::new(),
            states: 0,
            transitions: 0,
            traces: 0,
            exhaustive: true,
            caps_hit: Vec::new(),
            assumptions: Vec::new(),
            extra: Vec::new(),
            outcomes: BTreeMap::new(),
            inconclusive: 0,
            violations: BTreeMap::new(),
            start: Instant::now(),
        }
    }

    pub fn part(&mut self, p: Part) {
        eprintln!(
            "[{}] part {:<28} evaluations={:<9} nontrivial={:<9} {}",
            self.prop, p.name, p.evaluations, p.nontrivial, p.note
        );
        if !p.exhaustive {
            self.exhaustive = false;
        }
        self.parts.push(p);
    }

    pub fn sample(&mut self, j: J) {
        if self.samples.len() < 12 {
            self.samples.push(j);
        }
    }

    pub fn outcome<S: Into<String>>(&mut self, class: S) {
        *self.outcomes.entry(class.into()).or_insert(0) += 1;
    }

    pub fn outcome_n<S: Into<String>>(&mut self, class: S, n: u64) {
        *self.outcomes.entry(class.into()).or_insert(0) += n;
    }

    pub fn violation<K: Into<String>, W: Into<String>>(&mut self, key: K, what: W, replay: J) {
        let key = key.into();
        let e = self.violations.entry(key.clone()).or_insert((0, Vec::new()));
        e.0 += 1;
        if e.1.is_empty() {
            let what = what.into();
            // the replay record of a new failure key is written at once (unless it is a listed known
            // finding), so that a run which is later cut short by the wall cap still has its verdict
            if KnownFindings::load().matches(self.prop, &key).is_none() {
                let dir = PathBuf::from(VERIF_DIR).join("replays").join(self.prop);
                let _ = fs::create_dir_all(&dir);
                let path = dir.join(format!("{}-0.json", sanitize(&key)));
                let j = J::obj([("property", J::s(self.prop)), ("key", J::s(key.clone())), ("what", J::s(what.clone())), ("case", replay.clone())]);
                if fs::write(&path, j.to_pretty()).is_ok() {
                    if let Ok(mut early) = EARLY.lock() {
                        if early.len() < 20 {
                            early.push((self.prop.to_string(), path));
                        }
                    }
                }
            }
            e.1.push(Violation { key, what, replay });
        }
    }

    pub fn n_violation_keys(&self) -> usize {
        self.violations.len()
    }

    pub fn cap<S: Into<String>>(&mut self, what: S) {
        self.exhaustive = false;
        self.caps_hit.push(what.into());
    }

    /// Writes replays + evidence, prints KNOWN-FINDING / VIOLATION lines, returns the exit status.
    pub fn finish(self) -> i32 {
        let known = KnownFindings::load();
        let wall = self.start.elapsed().as_secs_f64();
        let mut exit = 0;
        let mut n_viol_total = 0u64;
        let mut n_known_total = 0u64;
        let mut printed = 0;
        let mut known_printed: Vec<String> = Vec::new();
        let mut viol_keys = Vec::new();
        let mut known_keys = Vec::new();
        let (mut gate_reproduced, mut gate_unsupported, mut gate_failed, mut gate_blocking) = (0u64, 0u64, 0u64, 0u64);
        let replay_dir = PathBuf::from(VERIF_DIR).join("replays").join(self.prop);
        let mut lines: Vec<(String, bool)> = Vec::new();
        for (key, (count, vs)) in &self.violations {
            if let Some(f) = known.matches(self.prop, key) {
                n_known_total += count;
                known_keys.push(J::obj([
                    ("key", J::s(key.clone())),
                    ("count", J::Int(*count as i64)),
                ]));
                if !known_printed.contains(&f.text) {
                    println!("KNOWN-FINDING: property={} {}", self.prop, f.text);
                    known_printed.push(f.text.clone());
                }
                continue;
            }
            n_viol_total += count;
            exit = 1;
            viol_keys.push(J::obj([
                ("key", J::s(key.clone())),
                ("count", J::Int(*count as i64)),
                ("what", J::s(vs[0].what.clone())),
            ]));
            let _ = fs::create_dir_all(&replay_dir);
            for (i, v) in vs.iter().enumerate() {
                if printed >= 20 {
                    break;
                }
                let fname = format!("{}-{}.json", sanitize(key), i);
                let path = replay_dir.join(fname);
                let j = J::obj([
                    ("property", J::s(self.prop)),
                    ("key", J::s(v.key.clone())),
                    ("what", J::s(v.what.clone())),
                    ("case", v.replay.clone()),
                ]);
                let _ = fs::write(&path, j.to_pretty());
                eprintln!("[{}] violation key={} :: {}", self.prop, v.key, v.what);
                // determinism gate: the replay record is re-executed twice without the explorer; a
                // violation that its own record does not reproduce is not reported as a verdict
                // (C12 and the OS-timed pipe confirmations are about run-to-run variation itself)
                let mut not_reproduced_here = false;
                if printed < 20 {
                    let timing = self.prop == "C12" || v.key.contains("pipe");
                    let runs: Vec<Option<Vec<String>>> = (0..2).map(|_| crate::props::replay_case(self.prop, &v.replay)).collect();
                    match (&runs[0], &runs[1]) {
                        (Some(a), Some(b)) if !a.is_empty() && !b.is_empty() => gate_reproduced += 1,
                        (None, _) | (_, None) => gate_unsupported += 1,
                        (a, b) => {
                            gate_failed += 1;
                            eprintln!(
                                "[{}] replay of {} did not reproduce the violation (run 1: {:?}, run 2: {:?}){}",
                                self.prop,
                                path.display(),
                                a.as_ref().map(|x| x.len()),
                                b.as_ref().map(|x| x.len()),
                                if timing { " - kept: this check is about run-to-run variation" } else { "" }
                            );
                            if !timing {
                                gate_blocking += 1;
                                not_reproduced_here = true;
                            }
                        }
                    }
                }
                lines.push((format!("VIOLATION property={} replay={}", self.prop, path.display()), not_reproduced_here));
                printed += 1;
            }
        }

        // a violation whose record did not reproduce it is listed above on stderr; its VIOLATION line
        // is only printed when no other violation of the run reproduced (and the run then ends as a
        // machinery failure, below)
        for (line, not_reproduced) in &lines {
            if !*not_reproduced || gate_reproduced == 0 {
                println!("{line}");
            }
        }

        let evaluations: u64 = self.parts.iter().map(|p| p.evaluations).sum();
        let nontrivial: u64 = self.parts.iter().map(|p| p.nontrivial).sum();
        let parts = J::arr(self.parts.iter().map(|p| {
            let mut o = vec![
                ("name".to_string(), J::s(p.name.clone())),
                ("evaluations".to_string(), J::Int(p.evaluations as i64)),
                ("distinct_nontrivial".to_string(), J::Int(p.nontrivial as i64)),
                ("exhaustive".to_string(), J::Bool(p.exhaustive)),
                ("note".to_string(), J::s(p.note.clone())),
            ];
            o.extend(p.extra.iter().cloned());
            J::Obj(o)
        }));
        let mut cov = vec![
            ("evaluations".to_string(), J::Int(evaluations as i64)),
            ("distinct_nontrivial".to_string(), J::Int(nontrivial as i64)),
            ("rule".to_string(), J::s(self.rule.clone())),
            ("samples".to_string(), J::Arr(self.samples.clone())),
            ("states".to_string(), J::Int(self.states.max(1) as i64)),
            ("transitions".to_string(), J::Int(self.transitions.max(1) as i64)),
            (
                "traces_validated_against_impl".to_string(),
                J::Int(self.traces as i64),
            ),
            ("exhaustive".to_string(), J::Bool(self.exhaustive)),
            ("caps_hit".to_string(), J::strs(&self.caps_hit)),
            ("parts".to_string(), parts),
            (
                "distinct_outcomes".to_string(),
                J::Obj(
                    self.outcomes
                        .iter()
                        .map(|(k, v)| (k.clone(), J::Int(*v as i64)))
                        .collect(),
                ),
            ),
            ("inconclusive".to_string(), J::Int(self.inconclusive as i64)),
            (
                "determinism_gate".to_string(),
                J::obj([
                    ("violations_replayed_twice_and_reproduced", J::Int(gate_reproduced as i64)),
                    ("without_standalone_replay", J::Int(gate_unsupported as i64)),
                    ("not_reproduced", J::Int(gate_failed as i64)),
                ]),
            ),
            ("violation_keys".to_string(), J::Arr(viol_keys)),
            ("known_finding_keys".to_string(), J::Arr(known_keys)),
            (
                "known_finding_cases".to_string(),
                J::Int(n_known_total as i64),
            ),
        ];
        cov.extend(self.extra.iter().cloned());
        let ev = J::obj([
            ("property_id", J::s(self.prop)),
            ("tier", J::s(self.tier.name())),
            ("seed", J::Int(self.seed)),
            ("level", J::s(self.level)),
            ("coverage", J::Obj(cov)),
            ("assumptions", J::strs(&self.assumptions)),
            ("wall_s", J::Num((wall * 1000.0).round() / 1000.0)),
            ("violations", J::Int(n_viol_total as i64)),
        ]);
        let evdir = PathBuf::from(VERIF_DIR).join("evidence");
        let _ = fs::create_dir_all(&evdir);
        let path = evdir.join(format!("{}.json", self.prop));
        if let Err(e) = fs::write(&path, ev.to_pretty()) {
            eprintln!("cannot write evidence {}: {e}", path.display());
            return 2;
        }
        eprintln!(
            "[{}] {} tier: evaluations={} nontrivial={} states={} transitions={} violations={} known-finding cases={} exhaustive={} wall={:.1}s",
            self.prop,
            self.tier.name(),
            evaluations,
            nontrivial,
            self.states,
            self.transitions,
            n_viol_total,
            n_known_total,
            self.exhaustive,
            wall
        );
        // a run in which at least one violation was reproduced by its record keeps its verdict; the
        // others are listed above as not reproduced (e.g. a stale per-thread cache that only a
        // particular order of cases in the worker pool exposes, next to the deterministic two-step
        // history that exposes the same defect)
        if gate_blocking > 0 && gate_reproduced == 0 {
            eprintln!("ENGINE: {gate_blocking} violation(s) were not reproduced by their own replay records; this is a machinery failure (uncaptured nondeterminism or an incomplete replay record), not a verdict");
            return 2;
        }
        exit
    }
}

fn sanitize(s: &str) -> String {
    let mut out: String = s
        .chars()
        .map(|c| if c.is_ascii_alphanumeric() { c } else { '_' })
        .collect();
    out.truncate(120);
    out
}

pub struct Finding {
    pub prop: String,
    pub pattern: String,
    pub text: String,
}

pub struct KnownFindings(Vec<Finding>);

impl KnownFindings {
    pub fn load() -> Self {
        let path = PathBuf::from(VERIF_DIR).join("KNOWN_FINDINGS.txt");
        let mut v = Vec::new();
        if let Ok(s) = fs::read_to_string(path) {
            for line in s.lines() {
                let line = line.trim();
                // only `finding:` lines suppress; `fixed:` lines are documentation
                let Some(rest) = line.strip_prefix("finding:") else {
                    continue;
                };
                let Some((head, text)) = rest.split_once("::") else {
                    continue;
                };
                let head = head.trim();
                let Some(p) = head.strip_prefix("property=") else {
                    continue;
                };
                let Some((prop, key)) = p.split_once(" key=") else {
                    continue;
                };
                v.push(Finding {
                    prop: prop.trim().to_string(),
                    pattern: key.trim().to_string(),
                    text: text.trim().to_string(),
                });
            }
        }
        KnownFindings(v)
    }

    /// Exact key match, or prefix match when the pattern ends in `*`.
    pub fn matches(&self, prop: &str, key: &str) -> Option<&Finding> {
        self.0.iter().find(|f| {
            f.prop == prop
                && (f.pattern == key
                    || f.pattern
                        .strip_suffix('*')
                        .map_or(false, |pre| key.starts_with(pre)))
        })
    }
}

// ---------------------------------------------------------------------------------------------
// Panic capture: a panic of the subject is an observation, not a crash of the engine.

thread_local! {
    static IN_CATCH: Cell<bool> = Cell::new(false);
    static LAST_PANIC: RefCell<Option<String>> = RefCell::new(None);
}

pub fn install_panic_hook() {
    panic::set_hook(Box::new(|info| {
        let loc = info
            .location()
            .map(|l| short_path(l.file()))
            .unwrap_or_else(|| "?".into());
        let msg = if let Some(s) = info.payload().downcast_ref::<&str>() {
            s.to_string()
        } else if let Some(s) = info.payload().downcast_ref::<String>() {
            s.clone()
        } else {
            "<non-string panic>".to_string()
        };
        if IN_CATCH.with(|c| c.get()) {
            LAST_PANIC.with(|c| *c.borrow_mut() = Some(format!("{loc}: {msg}")));
        } else {
            eprintln!(
                "ENGINE PANIC at {}: {msg}",
                info.location()
                    .map(|l| format!("{}:{}", l.file(), l.line()))
                    .unwrap_or_default()
            );
        }
    }));
}

/// Runs the subject; a panic becomes `Err("file: message")` (numbers not yet normalised).
pub fn catch<T>(f: impl FnOnce() -> T) -> Result<T, String> {
    let prev = IN_CATCH.with(|c| c.replace(true));
    let r = panic::catch_unwind(AssertUnwindSafe(f));
    IN_CATCH.with(|c| c.set(prev));
    match r {
        Ok(v) => Ok(v),
        Err(_) => Err(LAST_PANIC
            .with(|c| c.borrow_mut().take())
            .unwrap_or_else(|| "?: <unknown panic>".into())),
    }
}

/// `/repo/core/src/x.rs` -> `core/src/x.rs`; registry paths -> `crate-ver/src/x.rs`.
pub fn short_path(p: &str) -> String {
    if let Some(i) = p.find("/repo/") {
        return p[i + 6..].to_string();
    }
    if let Some(i) = p.find("/registry/src/") {
        let rest = &p[i + 14..];
        if let Some(j) = rest.find('/') {
            return rest[j + 1..].to_string();
        }
    }
    if let Some(i) = p.find("/rustc/") {
        let rest = &p[i + 7..];
        if let Some(j) = rest.find('/') {
            return format!("rust:{}", &rest[j + 1..]);
        }
    }
    p.to_string()
}

/// Normalises a panic / error message into a key fragment: digit runs become `N`.
pub fn norm_msg(s: &str) -> String {
    let mut out = String::new();
    let mut in_digits = false;
    for c in s.chars() {
        if c.is_ascii_digit() {
            if !in_digits {
                out.push('N');
            }
            in_digits = true;
        } else {
            in_digits = false;
            out.push(if c == '\n' { ' ' } else { c });
        }
    }
    out.truncate(160);
    out
}
