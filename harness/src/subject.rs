//! Glue between reference values and the real sfs_core types / the real binary.

use sfs_core::spectrum::{Spectrum, State};
use sfs_core::Scs;

use crate::{
    cli::{parse_f64_tokens, parse_text_spectrum, Out},
    refmodel::RefArray,
};

pub fn scs_from_ref(r: &RefArray) -> Scs {
    Scs::new(r.data.clone(), r.shape.clone()).expect("reference array is well-formed")
}

pub fn ref_from_spectrum<S: State>(s: &Spectrum<S>) -> RefArray {
    RefArray {
        shape: s.shape().to_vec(),
        data: s.inner().as_slice().to_vec(),
    }
}

/// The text spectrum format with values in Rust's shortest round-trip spelling.
pub fn text_of(r: &RefArray) -> String {
    let shape: Vec<String> = r.shape.iter().map(|n| n.to_string()).collect();
    let vals: Vec<String> = r.data.iter().map(|v| format!("{v}")).collect();
    format!("#SHAPE=<{}>\n{}\n", shape.join("/"), vals.join(" "))
}

/// Parses a successful run's stdout as a text spectrum.
pub fn parse_out(o: &Out) -> Result<RefArray, String> {
    if !o.ok() {
        return Err(format!("{}: {}", o.status_str(), o.stderr_str().trim()));
    }
    let (shape, toks) = parse_text_spectrum(&o.stdout_str())?;
    let data = parse_f64_tokens(&toks)?;
    if data.len() != shape.iter().product::<usize>() {
        return Err(format!("{} values for shape {shape:?}", data.len()));
    }
    Ok(RefArray { shape, data })
}

pub fn join_usizes(v: &[usize], sep: &str) -> String {
    v.iter().map(|x| x.to_string()).collect::<Vec<_>>().join(sep)
}

/// Bit-label array: cell i holds 2^i (exact in f64 for <= 52 cells; sums name their summands).
pub fn bit_labels(shape: &[usize]) -> RefArray {
    assert!(shape.iter().product::<usize>() <= 52, "bit labels need <= 52 cells");
    RefArray::from_fn(shape, |f, _| (1u64 << f) as f64)
}
