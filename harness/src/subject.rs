//! Glue between reference values and the real sfs_core types / the real binary.

use sfs_core::spectrum::{Spectrum, State};
use sfs_core::Scs;

use crate::{
    cli::{parse_f64_tokens, parse_text_spectrum, Out},
    refmodel::RefArray,
};

pub fn scs_from_ref(r: &RefArray) -> Scs {
    Scs::new(r.data.clone(), r.shape.clone()).expect("reference array is well-formed")
}

pub fn ref_from_spectrum<S: State>(s: &Spectrum<S>) -> RefArray {
    RefArray {
        shape: s.shape().to_vec(),
        data: s.inner().as_slice().to_vec(),
    }
}

/// The text spectrum format with values in Rust's shortest round-trip spelling.
pub fn text_of(r: &RefArray) -> String {
    let shape: Vec<String> = r.shape.iter().map(|n| n.to_string()).collect();
    let vals: Vec<String> = r.data.iter().map(|v| format!("{v}")).collect();
    format!("#SHAPE=<{}>\n{}\n", shape.join("/"), vals.join(" "))
}

/// Parses a successful run's stdout as a text spectrum.
pub fn parse_out(o: &Out) -> Result<RefArray, String> {
    if !o.ok() {
        return Err(format!("{}: {}", o.status_str(), o.stderr_str().trim()));
    }
    let (shape, toks) = parse_text_spectrum(&o.stdout_str())?;
    let data = parse_f64_tokens(&toks)?;
    if data.len() != shape.iter().product::<usize>() {
        return Err(format!("{} values for shape {shape:?}", data.len()));
    }
    Ok(RefArray { shape, data })
}

pub fn join_usizes(v: &[usize], sep: &str) -> String {
    v.iter().map(|x| x.to_string()).collect::<Vec<_>>().join(sep)
}

/// Bit-label array: cell i holds 2^i (exact in f64 for <= 52 cells; sums name their summands).
pub fn bit_labels(shape: &[usize]) -> RefArray {
    assert!(shape.iter().product::<usize>() <= 52, "bit labels need <= 52 cells");
    RefArray::from_fn(shape, |f, _| (1u64 << f) as f64)
}

/// Writes `scs` in both formats through writers that accept 1, 7 and 64 bytes per call and implement
/// nothing but `write` / `flush`, through a writer that reports "full" (`Ok(0)`) part-way, and - for
/// the reading side - parses the npy bytes back through buffered readers of small capacities; and
/// through the file route onto a fresh path and onto a path that holds a longer file.
/// Returns a description of the first discrepancy: what a library user gets must be what a `Vec`
/// would have received, an error, or never a silent prefix.
pub fn io_through_plain_streams(scs: &Scs, precision: usize) -> Option<String> {
    use crate::seam::SeamWriter;
    use sfs_core::spectrum::io::{write, Format};
    use std::io::BufReader;
    for (fname, format) in [("text", Format::Text), ("npy", Format::Npy)] {
        let mut reference = Vec::new();
        if let Err(e) = write::Builder::default().set_precision(precision).set_format(format).write(&mut reference, scs) {
            return Some(format!("writing {fname} into a Vec failed: {e}"));
        }
        // the builder's setters in the other order, and called again: the same bytes
        for (what, b) in [
            ("set_format before set_precision", write::Builder::default().set_format(format).set_precision(precision)),
            ("set_precision called twice around set_format", write::Builder::default().set_precision(precision + 3).set_format(format).set_precision(precision)),
            ("set_format called twice around set_precision", write::Builder::default().set_format(if fname == "npy" { Format::Text } else { Format::Npy }).set_precision(precision).set_format(format)),
        ] {
            let mut out = Vec::new();
            match b.write(&mut out, scs) {
                Ok(()) if out == reference => {}
                Ok(()) => return Some(format!("{fname} with {what}: {} bytes, starting {:?}; with set_precision before set_format {} bytes", out.len(), String::from_utf8_lossy(&out[..out.len().min(24)]), reference.len())),
                Err(e) => return Some(format!("{fname} with {what} failed: {e}")),
            }
        }
        for max in [1usize, 7, 64] {
            let mut w = SeamWriter::short(max);
            match write::Builder::default().set_precision(precision).set_format(format).write(&mut w, scs) {
                Ok(()) if w.out == reference => {}
                Ok(()) => return Some(format!("{fname} through a writer accepting {max} bytes per call: Ok(()) with {} of {} bytes delivered", w.out.len(), reference.len())),
                Err(e) => return Some(format!("{fname} through a writer accepting {max} bytes per call failed: {e}")),
            }
        }
        // a writer that is full after k bytes (`Ok(0)`): success must not be reported
        for at in [0usize, 1, reference.len() / 2, reference.len().saturating_sub(1)] {
            if at >= reference.len() {
                continue;
            }
            let mut w = SeamWriter::short(usize::MAX);
            w.zero_at = Some(at);
            if write::Builder::default().set_precision(precision).set_format(format).write(&mut w, scs).is_ok() {
                return Some(format!("{fname} into a writer that is full after {at} of {} bytes: Ok(()) although only {} bytes were taken", reference.len(), w.out.len()));
            }
        }
        // the file route: onto a fresh path, and onto a path that already holds a longer file
        {
            static N: std::sync::atomic::AtomicU64 = std::sync::atomic::AtomicU64::new(0);
            let _ = std::fs::create_dir_all(crate::cli::SCRATCH_ROOT);
            let path = format!("{}/plain-{}-{}.{fname}", crate::cli::SCRATCH_ROOT, std::process::id(), N.fetch_add(1, std::sync::atomic::Ordering::Relaxed));
            for (what, old) in [("a fresh path", None), ("a path holding a longer file", Some([&reference[..], &b"7 7 7 7 7 7 7 7 7 7 7 7 7 7 7 7\n"[..]].concat()))] {
                match &old {
                    Some(o) => {
                        let _ = std::fs::write(&path, o);
                    }
                    None => {
                        let _ = std::fs::remove_file(&path);
                    }
                }
                for via_option in [false, true] {
                    let b = write::Builder::default().set_precision(precision).set_format(format);
                    let r = if via_option { b.write_to_path_or_stdout(Some(&path), scs) } else { b.write_to_path(&path, scs) };
                    let got = std::fs::read(&path).unwrap_or_default();
                    if let Some(o) = &old {
                        let _ = std::fs::write(&path, o);
                    }
                    match r {
                        Ok(()) if got == reference => {}
                        Ok(()) => {
                            let _ = std::fs::remove_file(&path);
                            return Some(format!("{fname} written to {what} ({}): the file holds {} bytes, a Vec receives {}", if via_option { "write_to_path_or_stdout" } else { "write_to_path" }, got.len(), reference.len()));
                        }
                        Err(e) => {
                            let _ = std::fs::remove_file(&path);
                            return Some(format!("{fname} written to {what} failed: {e}"));
                        }
                    }
                }
            }
            let _ = std::fs::remove_file(&path);
        }
        if fname == "npy" {
            for cap in [1usize, 3, 7, 8, 12, 20, 100, 127, 129] {
                match sfs_core::Array::read_npy(BufReader::with_capacity(cap, &reference[..])) {
                    Ok(a) if a.shape().to_vec() == scs.shape().to_vec() && a.as_slice().len() == scs.inner().as_slice().len() && a.as_slice().iter().zip(scs.inner().as_slice()).all(|(x, y)| x.to_bits() == y.to_bits()) => {}
                    Ok(a) => return Some(format!("npy read back through a BufReader of capacity {cap}: shape {:?} with {} values", a.shape().to_vec(), a.as_slice().len())),
                    Err(e) => return Some(format!("npy read back through a BufReader of capacity {cap} failed: {e}")),
                }
            }
        }
    }
    None
}
