//! sfsmc — bounded-exhaustive explorer for the 19 properties of malthesr/sfs.
//!
//! usage: sfsmc <ID> <quick|thorough>      run the check for one property
//!        sfsmc <ID> --replay <file>       re-run one recorded case without the explorer

#![allow(clippy::needless_range_loop, clippy::too_many_arguments, clippy::type_complexity)]

mod cli;
mod createmodel;
mod enumerate;
mod gen;
mod json;
mod npyref;
mod par;
mod props;
mod refmodel;
mod seam;
mod statref;
mod subject;
mod verdict;

use verdict::Tier;

fn main() {
    verdict::install_panic_hook();
    let args: Vec<String> = std::env::args().collect();
    if args.len() < 3 {
        eprintln!("usage: sfsmc <ID> <quick|thorough> | sfsmc <ID> --replay <file>");
        std::process::exit(2);
    }
    let id = args[1].as_str();
    if args[2] == "--replay" {
        let Some(path) = args.get(3) else {
            eprintln!("--replay needs a file");
            std::process::exit(2);
        };
        let text = match std::fs::read_to_string(path) {
            Ok(t) => t,
            Err(e) => {
                eprintln!("cannot read {path}: {e}");
                std::process::exit(2);
            }
        };
        let j = match json::J::parse(&text) {
            Ok(j) => j,
            Err(e) => {
                eprintln!("cannot parse {path}: {e}");
                std::process::exit(2);
            }
        };
        let code = props::replay(id, &j);
        cli::remove_private_devices();
        std::process::exit(code);
    }
    let tier = match args[2].as_str() {
        "quick" => Tier::Quick,
        "thorough" => Tier::Thorough,
        other => {
            eprintln!("unknown tier '{other}'");
            std::process::exit(2);
        }
    };
    // watchdog: a subject that hangs (or an explorer that does) must not hang the caller; a run that
    // exceeds the wall cap ends as a machinery failure, never as a verdict
    let cap_s: u64 = std::env::var("SFSMC_WALL_CAP_S").ok().and_then(|s| s.parse().ok()).unwrap_or(match tier {
        Tier::Quick => 900,
        Tier::Thorough => 7200,
    });
    let id_owned = id.to_string();
    std::thread::spawn(move || {
        std::thread::sleep(std::time::Duration::from_secs(cap_s));
        let early = verdict::early_violations();
        if early.is_empty() {
            eprintln!("ENGINE: check {id_owned} exceeded its wall cap of {cap_s} s (a call into the subject does not return, or the exploration is far slower than on the unchanged tree); machinery failure, not a verdict");
            std::process::exit(2);
        }
        eprintln!("ENGINE: check {id_owned} exceeded its wall cap of {cap_s} s and is cut short; the violations recorded before that are reported (no evidence file is written for a cut run)");
        for (prop, path) in early {
            println!("VIOLATION property={prop} replay={}", path.display());
        }
        std::process::exit(1);
    });
    let code = match std::panic::catch_unwind(|| props::run(id, tier)) {
        Ok(c) => c,
        Err(_) => {
            eprintln!("ENGINE: explorer panicked; this is a machinery failure, not a verdict");
            2
        }
    };
    cli::remove_private_devices();
    std::process::exit(code);
}
