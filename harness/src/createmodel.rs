//! Genotype-class level model of `create`: an in-memory genotype source for the real
//! `site::Reader`, a replica of the CLI runner loop, and the reference result computed from the
//! genotype classes (DESIGN 2.6).

use sfs_core::{
    array::Shape,
    input::{
        genotype::{self, Genotype, Skipped},
        sample::Population,
        site::{
            self,
            reader::builder::{Project, Samples},
            Site,
        },
        ReadStatus, Sample,
    },
};

use crate::{
    enumerate::indices,
    refmodel::{hyper_exact, RefArray},
    subject::ref_from_spectrum,
    verdict::catch,
};

#[derive(Clone, Copy, Debug, PartialEq, Eq, Hash, PartialOrd, Ord)]
pub enum Cls {
    G0,
    G1,
    G2,
    Missing,
    Multi,
}

impl Cls {
    pub const ALL: [Cls; 5] = [Cls::G0, Cls::G1, Cls::G2, Cls::Missing, Cls::Multi];
    pub const CALLED: [Cls; 3] = [Cls::G0, Cls::G1, Cls::G2];

    /// A VCF spelling of the class; `variant` rotates through equivalent spellings.
    pub fn spell(self, variant: usize) -> &'static str {
        match self {
            Cls::G0 => ["0/0", "0|0"][variant % 2],
            Cls::G1 => ["0/1", "1|0", "0|1", "1/0"][variant % 4],
            Cls::G2 => ["1/1", "1|1"][variant % 2],
            Cls::Missing => ["./.", "./1", "0|.", ".|."][variant % 4],
            Cls::Multi => ["1/2", "2|1", "2/2", "0/2", "3|0"][variant % 5],
        }
    }
    pub fn alt(self) -> Option<usize> {
        match self {
            Cls::G0 => Some(0),
            Cls::G1 => Some(1),
            Cls::G2 => Some(2),
            _ => None,
        }
    }
    pub fn to_result(self) -> genotype::Result {
        match self {
            Cls::G0 => genotype::Result::Genotype(Genotype::Zero),
            Cls::G1 => genotype::Result::Genotype(Genotype::One),
            Cls::G2 => genotype::Result::Genotype(Genotype::Two),
            Cls::Missing => genotype::Result::Skipped(Skipped::Missing),
            Cls::Multi => genotype::Result::Skipped(Skipped::Multiallelic),
        }
    }
    pub fn letter(self) -> char {
        match self {
            Cls::G0 => '0',
            Cls::G1 => '1',
            Cls::G2 => '2',
            Cls::Missing => '.',
            Cls::Multi => 'm',
        }
    }
}

pub fn row_str(row: &[Cls]) -> String {
    row.iter().map(|c| c.letter()).collect()
}

/// All rows over the class alphabet for `s` samples, in odometer order.
pub fn all_rows(s: usize, alphabet: &[Cls]) -> Vec<Vec<Cls>> {
    indices(&vec![alphabet.len(); s])
        .into_iter()
        .map(|ix| ix.into_iter().map(|i| alphabet[i]).collect())
        .collect()
}

/// In-memory genotype source implementing the public `genotype::Reader` trait.
pub struct MemReader {
    samples: Vec<Sample>,
    rows: Vec<Vec<genotype::Result>>,
    next: usize,
}

impl MemReader {
    pub fn new(n_samples: usize, rows: Vec<Vec<genotype::Result>>) -> Self {
        MemReader {
            samples: (0..n_samples).map(|i| Sample::from(format!("s{i}"))).collect(),
            rows,
            next: 0,
        }
    }
    /// Columns named explicitly (for column-permutation relations).
    pub fn with_names(names: &[String], rows: Vec<Vec<genotype::Result>>) -> Self {
        MemReader {
            samples: names.iter().map(|n| Sample::from(n.clone())).collect(),
            rows,
            next: 0,
        }
    }
    pub fn from_classes(n_samples: usize, rows: &[Vec<Cls>]) -> Self {
        Self::new(
            n_samples,
            rows.iter()
                .map(|r| r.iter().map(|c| c.to_result()).collect())
                .collect(),
        )
    }
}

impl genotype::reader::Reader for MemReader {
    fn current_contig(&self) -> &str {
        "mem"
    }
    fn current_position(&self) -> usize {
        self.next
    }
    fn read_genotypes(&mut self) -> ReadStatus<Vec<genotype::Result>> {
        if self.next < self.rows.len() {
            self.next += 1;
            ReadStatus::Read(self.rows[self.next - 1].clone())
        } else {
            ReadStatus::Done
        }
    }
    fn samples(&self) -> &[Sample] {
        &self.samples
    }
}

/// Sample list for a map (sample i -> population id); labels `p<id>` in sample order.
pub fn sample_list(map: &[Option<usize>]) -> Vec<(Sample, Population)> {
    map.iter()
        .enumerate()
        .filter_map(|(i, p)| {
            p.map(|p| {
                (
                    Sample::from(format!("s{i}")),
                    Population::from(Some(format!("p{p}"))),
                )
            })
        })
        .collect()
}

/// `-s` argument for the CLI.
pub fn sample_arg(map: &[Option<usize>]) -> String {
    map.iter()
        .enumerate()
        .filter_map(|(i, p)| p.map(|p| format!("s{i}=p{p}")))
        .collect::<Vec<_>>()
        .join(",")
}

pub fn pop_sizes(map: &[Option<usize>]) -> Vec<usize> {
    let d = map.iter().flatten().max().map_or(0, |m| m + 1);
    let mut n = vec![0; d];
    for p in map.iter().flatten() {
        n[*p] += 1;
    }
    n
}

pub fn build_site_reader(
    source: Box<dyn genotype::reader::Reader>,
    map: &[Option<usize>],
    project_shape: Option<&[usize]>,
) -> Result<site::Reader, String> {
    site::reader::Builder::default()
        .set_samples(Some(Samples::List(sample_list(map))))
        .set_project(project_shape.map(|s| Project::Shape(Shape(s.to_vec()))))
        .build(source)
        .map_err(|e| e.to_string())
}

#[derive(Clone, Debug, PartialEq)]
pub struct CreateResult {
    pub spectrum: RefArray,
    pub skipped: usize,
    pub sites: usize,
}

/// Replica of `cli/src/create/runner.rs::Runner::run` (the counters live in the CLI; at L1 this
/// 10-line loop stands in for it, at L2 the real binary is used).
pub fn run_reader(reader: &mut site::Reader) -> Result<CreateResult, String> {
    let r = catch(|| {
        let mut scs = reader.create_zero_scs();
        let mut skipped = 0;
        let mut sites = 0;
        loop {
            match reader.read_site() {
                ReadStatus::Read(Site::Standard(counts)) => {
                    scs[&counts] += 1.0;
                }
                ReadStatus::Read(Site::Projected(projected)) => {
                    projected.add_unchecked(&mut scs);
                }
                ReadStatus::Read(Site::InsufficientData) => skipped += 1,
                ReadStatus::Error(e) => return Err(format!("error: {e}")),
                ReadStatus::Done => break,
            }
            sites += 1;
        }
        Ok(CreateResult {
            spectrum: ref_from_spectrum(&scs),
            skipped,
            sites,
        })
    });
    match r {
        Ok(x) => x,
        Err(p) => Err(format!("panic: {p}")),
    }
}

/// Reference `create` from genotype classes. `project` = target chromosome counts m_j.
pub fn ref_create(rows: &[Vec<Cls>], map: &[Option<usize>], project: Option<&[usize]>) -> CreateResult {
    let n = pop_sizes(map);
    let d = n.len();
    let shape: Vec<usize> = match project {
        Some(m) => m.iter().map(|m| m + 1).collect(),
        None => n.iter().map(|n| 2 * n + 1).collect(),
    };
    let mut out = RefArray::zeros(&shape);
    let mut skipped = 0;
    let targets = indices(&shape);
    for row in rows {
        let mut alt = vec![0usize; d];
        let mut called = vec![0usize; d];
        let mut any_uncalled = false;
        for (c, p) in row.iter().zip(map) {
            let Some(p) = p else { continue };
            match c.alt() {
                Some(a) => {
                    alt[*p] += a;
                    called[*p] += 2;
                }
                None => any_uncalled = true,
            }
        }
        match project {
            None => {
                if any_uncalled {
                    skipped += 1;
                } else {
                    out.add(&alt, 1.0);
                }
            }
            Some(m) => {
                if (0..d).any(|j| called[j] < m[j]) {
                    skipped += 1;
                } else {
                    for (tf, k) in targets.iter().enumerate() {
                        let mut w = 1.0;
                        for j in 0..d {
                            w *= hyper_exact(called[j] as u64, alt[j] as u64, m[j] as u64, k[j] as u64);
                        }
                        out.data[tf] += w;
                    }
                }
            }
        }
    }
    CreateResult {
        spectrum: out,
        skipped,
        sites: rows.len(),
    }
}

// ---------------------------------------------------------------------------------------------
// Scripted sources: what a user of the library may do with the public `genotype::Reader` trait and
// with the sites a `site::Reader` hands out (continue after an error or after the end, drop a site,
// weight it, change the column layout between records).

/// One step of a scripted genotype source.
#[derive(Clone, Debug, PartialEq)]
pub enum Step {
    /// a record with these genotypes (in the current column order)
    Row(Vec<genotype::Result>),
    /// the source reports a (transient) I/O error
    IoError,
    /// the source reports the end; later steps are still delivered if the caller reads on
    End,
    /// from here on the columns are the samples with these names
    Columns(Vec<String>),
}

pub struct ScriptReader {
    samples: Vec<Sample>,
    steps: Vec<Step>,
    next: usize,
    position: usize,
}

impl ScriptReader {
    pub fn new(names: &[String], steps: Vec<Step>) -> Self {
        ScriptReader { samples: names.iter().map(|n| Sample::from(n.clone())).collect(), steps, next: 0, position: 0 }
    }
}

impl genotype::reader::Reader for ScriptReader {
    fn current_contig(&self) -> &str {
        "script"
    }
    fn current_position(&self) -> usize {
        self.position
    }
    fn read_genotypes(&mut self) -> ReadStatus<Vec<genotype::Result>> {
        loop {
            let Some(step) = self.steps.get(self.next).cloned() else { return ReadStatus::Done };
            self.next += 1;
            match step {
                Step::Row(r) => {
                    self.position += 1;
                    return ReadStatus::Read(r);
                }
                Step::IoError => return ReadStatus::Error(std::io::Error::new(std::io::ErrorKind::Interrupted, "scripted transient error")),
                Step::End => return ReadStatus::Done,
                Step::Columns(names) => self.samples = names.iter().map(|n| Sample::from(n.clone())).collect(),
            }
        }
    }
    fn samples(&self) -> &[Sample] {
        &self.samples
    }
}

/// What the caller does with a site it was handed.
#[derive(Clone, Copy, Debug, PartialEq)]
pub enum Use {
    Add,
    /// look at it and let it go
    Drop,
    /// add with a weight (`into_weighted(w)` for a projected site, `+= w` for a standard one)
    Weight(f64),
    /// `into_weighted(a).into_weighted(b)`: the last weight counts
    WeightTwice(f64, f64),
    /// only the first cell is looked at: a projected site is added into a one-cell spectrum that is
    /// thrown away (its iterator is left partly consumed); nothing reaches the accumulated spectrum
    Partial,
}

impl Use {
    pub fn effective(self) -> f64 {
        match self {
            Use::Add => 1.0,
            Use::Drop | Use::Partial => 0.0,
            Use::Weight(w) => w,
            Use::WeightTwice(_, b) => b,
        }
    }
}

/// What one call of `read_site` gave.
#[derive(Clone, Copy, Debug, PartialEq)]
pub enum Seen {
    Counted,
    Insufficient,
    Error,
    Done,
}

/// Calls `read_site` `calls` times whatever it returns, using the i-th handed-out site as `uses[i]`.
pub fn run_script(reader: &mut site::Reader, calls: usize, uses: &[Use]) -> Result<(RefArray, Vec<Seen>), String> {
    let r = catch(|| {
        let mut scs = reader.create_zero_scs();
        let mut seen = Vec::new();
        let mut handed = 0usize;
        for _ in 0..calls {
            match reader.read_site() {
                ReadStatus::Read(Site::Standard(counts)) => {
                    let u = uses.get(handed).copied().unwrap_or(Use::Add);
                    handed += 1;
                    if u != Use::Drop && u != Use::Partial {
                        scs[&counts] += u.effective();
                    }
                    seen.push(Seen::Counted);
                }
                ReadStatus::Read(Site::Projected(projected)) => {
                    let u = uses.get(handed).copied().unwrap_or(Use::Add);
                    handed += 1;
                    match u {
                        Use::Add => projected.add_unchecked(&mut scs),
                        Use::Drop => drop(projected),
                        Use::Partial => {
                            let mut first = sfs_core::Scs::from_zeros(sfs_core::array::Shape(vec![1]));
                            projected.add_unchecked(&mut first);
                        }
                        Use::Weight(w) => projected.into_weighted(w).add_unchecked(&mut scs),
                        Use::WeightTwice(a, b) => projected.into_weighted(a).into_weighted(b).add_unchecked(&mut scs),
                    }
                    seen.push(Seen::Counted);
                }
                ReadStatus::Read(Site::InsufficientData) => {
                    handed += 1;
                    seen.push(Seen::Insufficient);
                }
                ReadStatus::Error(_) => seen.push(Seen::Error),
                ReadStatus::Done => seen.push(Seen::Done),
            }
        }
        (ref_from_spectrum(&scs), seen)
    });
    r.map_err(|p| format!("panic: {p}"))
}
