//! Genotype-class level model of `create`: an in-memory genotype source for the real
//! `site::Reader`, a replica of the CLI runner loop, and the reference result computed from the
//! genotype classes (DESIGN 2.6).

use sfs_core::{
    array::Shape,
    input::{
        genotype::{self, Genotype, Skipped},
        sample::Population,
        site::{
            self,
            reader::builder::{Project, Samples},
            Site,
        },
        ReadStatus, Sample,
    },
};

use crate::{
    enumerate::indices,
    refmodel::{hyper_exact, RefArray},
    subject::ref_from_spectrum,
    verdict::catch,
};

#[derive(Clone, Copy, Debug, PartialEq, Eq, Hash, PartialOrd, Ord)]
pub enum Cls {
    G0,
    G1,
    G2,
    Missing,
    Multi,
}

impl Cls {
    pub const ALL: [Cls; 5] = [Cls::G0, Cls::G1, Cls::G2, Cls::Missing, Cls::Multi];
    pub const CALLED: [Cls; 3] = [Cls::G0, Cls::G1, Cls::G2];

    /// A VCF spelling of the class; `variant` rotates through equivalent spellings.
    pub fn spell(self, variant: usize) -> &'static str {
        match self {
            Cls::G0 => ["0/0", "0|0"][variant % 2],
            Cls::G1 => ["0/1", "1|0", "0|1", "1/0"][variant % 4],
            Cls::G2 => ["1/1", "1|1"][variant % 2],
            Cls::Missing => ["./.", "./1", "0|.", ".|."][variant % 4],
            Cls::Multi => ["1/2", "2|1", "2/2", "0/2", "3|0"][variant % 5],
        }
    }
    pub fn alt(self) -> Option<usize> {
        match self {
            Cls::G0 => Some(0),
            Cls::G1 => Some(1),
            Cls::G2 => Some(2),
            _ => None,
        }
    }
    pub fn to_result(self) -> genotype::Result {
        match self {
            Cls::G0 => genotype::Result::Genotype(Genotype::Zero),
            Cls::G1 => genotype::Result::Genotype(Genotype::One),
            Cls::G2 => genotype::Result::Genotype(Genotype::Two),
            Cls::Missing => genotype::Result::Skipped(Skipped::Missing),
            Cls::Multi => genotype::Result::Skipped(Skipped::Multiallelic),
        }
    }
    pub fn letter(self) -> char {
        match self {
            Cls::G0 => '0',
            Cls::G1 => '1',
            Cls::G2 => '2',
            Cls::Missing => '.',
            Cls::Multi => 'm',
        }
    }
}

pub fn row_str(row: &[Cls]) -> String {
    row.iter().map(|c| c.letter()).collect()
}

/// All rows over the class alphabet for `s` samples, in odometer order.
pub fn all_rows(s: usize, alphabet: &[Cls]) -> Vec<Vec<Cls>> {
    indices(&vec![alphabet.len(); s])
        .into_iter()
        .map(|ix| ix.into_iter().map(|i| alphabet[i]).collect())
        .collect()
}

/// In-memory genotype source implementing the public `genotype::Reader` trait.
pub struct MemReader {
    samples: Vec<Sample>,
    rows: Vec<Vec<genotype::Result>>,
    next: usize,
}

impl MemReader {
    pub fn new(n_samples: usize, rows: Vec<Vec<genotype::Result>>) -> Self {
        MemReader {
            samples: (0..n_samples).map(|i| Sample::from(format!("s{i}"))).collect(),
            rows,
            next: 0,
        }
    }
    /// Columns named explicitly (for column-permutation relations).
    pub fn with_names(names: &[String], rows: Vec<Vec<genotype::Result>>) -> Self {
        MemReader {
            samples: names.iter().map(|n| Sample::from(n.clone())).collect(),
            rows,
            next: 0,
        }
    }
    pub fn from_classes(n_samples: usize, rows: &[Vec<Cls>]) -> Self {
        Self::new(
            n_samples,
            rows.iter()
                .map(|r| r.iter().map(|c| c.to_result()).collect())
                .collect(),
        )
    }
}

impl genotype::reader::Reader for MemReader {
    fn current_contig(&self) -> &str {
        "mem"
    }
    fn current_position(&self) -> usize {
        self.next
    }
    fn read_genotypes(&mut self) -> ReadStatus<Vec<genotype::Result>> {
        if self.next < self.rows.len() {
            self.next += 1;
            ReadStatus::Read(self.rows[self.next - 1].clone())
        } else {
            ReadStatus::Done
        }
    }
    fn samples(&self) -> &[Sample] {
        &self.samples
    }
}

/// Sample list for a map (sample i -> population id); labels `p<id>` in sample order.
pub fn sample_list(map: &[Option<usize>]) -> Vec<(Sample, Population)> {
    map.iter()
        .enumerate()
        .filter_map(|(i, p)| {
            p.map(|p| {
                (
                    Sample::from(format!("s{i}")),
                    Population::from(Some(format!("p{p}"))),
                )
            })
        })
        .collect()
}

/// `-s` argument for the CLI.
pub fn sample_arg(map: &[Option<usize>]) -> String {
    map.iter()
        .enumerate()
        .filter_map(|(i, p)| p.map(|p| format!("s{i}=p{p}")))
        .collect::<Vec<_>>()
        .join(",")
}

pub fn pop_sizes(map: &[Option<usize>]) -> Vec<usize> {
    let d = map.iter().flatten().max().map_or(0, |m| m + 1);
    let mut n = vec![0; d];
    for p in map.iter().flatten() {
        n[*p] += 1;
    }
    n
}

pub fn build_site_reader(
    source: Box<dyn genotype::reader::Reader>,
    map: &[Option<usize>],
    project_shape: Option<&[usize]>,
) -> Result<site::Reader, String> {
    site::reader::Builder::default()
        .set_samples(Some(Samples::List(sample_list(map))))
        .set_project(project_shape.map(|s| Project::Shape(Shape(s.to_vec()))))
        .build(source)
        .map_err(|e| e.to_string())
}

#[derive(Clone, Debug, PartialEq)]
pub struct CreateResult {
    pub spectrum: RefArray,
    pub skipped: usize,
    pub sites: usize,
}

/// Replica of `cli/src/create/runner.rs::Runner::run` (the counters live in the CLI; at L1 this
/// 10-line loop stands in for it, at L2 the real binary is used).
pub fn run_reader(reader: &mut site::Reader) -> Result<CreateResult, String> {
    let r = catch(|| {
        let mut scs = reader.create_zero_scs();
        let mut skipped = 0;
        let mut sites = 0;
        loop {
            match reader.read_site() {
                ReadStatus::Read(Site::Standard(counts)) => {
                    scs[&counts] += 1.0;
                }
                ReadStatus::Read(Site::Projected(projected)) => {
                    projected.add_unchecked(&mut scs);
                }
                ReadStatus::Read(Site::InsufficientData) => skipped += 1,
                ReadStatus::Error(e) => return Err(format!("error: {e}")),
                ReadStatus::Done => break,
            }
            sites += 1;
        }
        Ok(CreateResult {
            spectrum: ref_from_spectrum(&scs),
            skipped,
            sites,
        })
    });
    match r {
        Ok(x) => x,
        Err(p) => Err(format!("panic: {p}")),
    }
}

/// Reference `create` from genotype classes. `project` = target chromosome counts m_j.
pub fn ref_create(rows: &[Vec<Cls>], map: &[Option<usize>], project: Option<&[usize]>) -> CreateResult {
    let n = pop_sizes(map);
    let d = n.len();
    let shape: Vec<usize> = match project {
        Some(m) => m.iter().map(|m| m + 1).collect(),
        None => n.iter().map(|n| 2 * n + 1).collect(),
    };
    let mut out = RefArray::zeros(&shape);
    let mut skipped = 0;
    let targets = indices(&shape);
    for row in rows {
        let mut alt = vec![0usize; d];
        let mut called = vec![0usize; d];
        let mut any_uncalled = false;
        for (c, p) in row.iter().zip(map) {
            let Some(p) = p else { continue };
            match c.alt() {
                Some(a) => {
                    alt[*p] += a;
                    called[*p] += 2;
                }
                None => any_uncalled = true,
            }
        }
        match project {
            None => {
                if any_uncalled {
                    skipped += 1;
                } else {
                    out.add(&alt, 1.0);
                }
            }
            Some(m) => {
                if (0..d).any(|j| called[j] < m[j]) {
                    skipped += 1;
                } else {
                    for (tf, k) in targets.iter().enumerate() {
                        let mut w = 1.0;
                        for j in 0..d {
                            w *= hyper_exact(called[j] as u64, alt[j] as u64, m[j] as u64, k[j] as u64);
                        }
                        out.data[tf] += w;
                    }
                }
            }
        }
    }
    CreateResult {
        spectrum: out,
        skipped,
        sites: rows.len(),
    }
}
