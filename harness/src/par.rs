//! Tiny data-parallel helpers over std::thread::scope (16 cores; no rayon needed).

use std::sync::atomic::{AtomicUsize, Ordering};

pub fn workers() -> usize {
    std::env::var("VERIF_WORKERS")
        .ok()
        .and_then(|s| s.parse().ok())
        .unwrap_or_else(|| {
            std::thread::available_parallelism()
                .map(|n| n.get())
                .unwrap_or(4)
                .min(16)
        })
}

/// Applies `f` to every index in `0..n` on a worker pool; results are returned in index order,
/// so the outcome is independent of scheduling.
pub fn par_map<T: Send, F: Fn(usize) -> T + Sync>(n: usize, f: F) -> Vec<T> {
    let w = workers().min(n.max(1));
    let next = AtomicUsize::new(0);
    let mut chunks: Vec<Vec<(usize, T)>> = Vec::new();
    std::thread::scope(|s| {
        let handles: Vec<_> = (0..w)
            .map(|_| {
                s.spawn(|| {
                    let mut local = Vec::new();
                    loop {
                        let i = next.fetch_add(1, Ordering::Relaxed);
                        if i >= n {
                            break;
                        }
                        local.push((i, f(i)));
                    }
                    local
                })
            })
            .collect();
        for h in handles {
            match h.join() {
                Ok(v) => chunks.push(v),
                Err(_) => {
                    eprintln!("ENGINE: worker thread panicked");
                    std::process::exit(2);
                }
            }
        }
    });
    let mut all: Vec<(usize, T)> = chunks.into_iter().flatten().collect();
    all.sort_by_key(|x| x.0);
    all.into_iter().map(|x| x.1).collect()
}

/// Like `par_map` over a slice.
pub fn par_each<I: Sync, T: Send, F: Fn(&I) -> T + Sync>(items: &[I], f: F) -> Vec<T> {
    par_map(items.len(), |i| f(&items[i]))
}
