//! Minimal JSON value, printer and parser (no external crates are available offline beyond the
//! repository's lock file, so this is written by hand and kept boring).

use std::fmt::Write as _;

#[derive(Clone, Debug, PartialEq)]
pub enum J {
    Null,
    Bool(bool),
    Int(i64),
    Num(f64),
    Str(String),
    Arr(Vec<J>),
    Obj(Vec<(String, J)>),
}

impl J {
    pub fn s<S: Into<String>>(s: S) -> J {
        J::Str(s.into())
    }
    pub fn u(v: usize) -> J {
        J::Int(v as i64)
    }
    pub fn arr<I: IntoIterator<Item = J>>(it: I) -> J {
        J::Arr(it.into_iter().collect())
    }
    pub fn usizes(v: &[usize]) -> J {
        J::Arr(v.iter().map(|&x| J::Int(x as i64)).collect())
    }
    pub fn f64s(v: &[f64]) -> J {
        J::Arr(v.iter().map(|&x| J::f(x)).collect())
    }
    pub fn strs<S: AsRef<str>>(v: &[S]) -> J {
        J::Arr(v.iter().map(|x| J::s(x.as_ref())).collect())
    }
    /// A float; non-finite values are written as strings since JSON has no spelling for them.
    pub fn f(x: f64) -> J {
        if x.is_finite() {
            J::Num(x)
        } else {
            J::Str(format!("{x}"))
        }
    }
    pub fn obj<K: Into<String>, I: IntoIterator<Item = (K, J)>>(it: I) -> J {
        J::Obj(it.into_iter().map(|(k, v)| (k.into(), v)).collect())
    }
    pub fn get(&self, key: &str) -> Option<&J> {
        match self {
            J::Obj(v) => v.iter().find(|(k, _)| k == key).map(|(_, v)| v),
            _ => None,
        }
    }
    pub fn as_str(&self) -> Option<&str> {
        match self {
            J::Str(s) => Some(s),
            _ => None,
        }
    }
    pub fn as_i64(&self) -> Option<i64> {
        match self {
            J::Int(i) => Some(*i),
            J::Num(f) if f.fract() == 0.0 => Some(*f as i64),
            _ => None,
        }
    }
    pub fn as_f64(&self) -> Option<f64> {
        match self {
            J::Int(i) => Some(*i as f64),
            J::Num(f) => Some(*f),
            J::Str(s) => s.parse().ok(),
            _ => None,
        }
    }
    pub fn as_arr(&self) -> Option<&[J]> {
        match self {
            J::Arr(v) => Some(v),
            _ => None,
        }
    }
    pub fn as_usizes(&self) -> Option<Vec<usize>> {
        self.as_arr()?
            .iter()
            .map(|x| x.as_i64().map(|v| v as usize))
            .collect()
    }

    pub fn to_string(&self) -> String {
        let mut s = String::new();
        self.write(&mut s, 0, false);
        s
    }
    pub fn to_pretty(&self) -> String {
        let mut s = String::new();
        self.write(&mut s, 0, true);
        s.push('\n');
        s
    }

    fn write(&self, out: &mut String, indent: usize, pretty: bool) {
        match self {
            J::Null => out.push_str("null"),
            J::Bool(b) => out.push_str(if *b { "true" } else { "false" }),
            J::Int(i) => {
                let _ = write!(out, "{i}");
            }
            J::Num(f) => {
                if f.is_finite() {
                    if f.fract() == 0.0 && f.abs() < 1e15 {
                        let _ = write!(out, "{f:.1}");
                    } else {
                        let _ = write!(out, "{f:e}");
                    }
                } else {
                    let _ = write!(out, "\"{f}\"");
                }
            }
            J::Str(s) => write_str(out, s),
            J::Arr(v) => {
                // arrays of scalars stay on one line even when pretty printing
                let scalar = v
                    .iter()
                    .all(|x| !matches!(x, J::Arr(_) | J::Obj(_)));
                out.push('[');
                for (i, x) in v.iter().enumerate() {
                    if i > 0 {
                        out.push(',');
                        if pretty && scalar {
                            out.push(' ');
                        }
                    }
                    if pretty && !scalar {
                        out.push('\n');
                        out.push_str(&" ".repeat(indent + 1));
                    }
                    x.write(out, indent + 1, pretty);
                }
                if pretty && !scalar && !v.is_empty() {
                    out.push('\n');
                    out.push_str(&" ".repeat(indent));
                }
                out.push(']');
            }
            J::Obj(v) => {
                out.push('{');
                for (i, (k, x)) in v.iter().enumerate() {
                    if i > 0 {
                        out.push(',');
                    }
                    if pretty {
                        out.push('\n');
                        out.push_str(&" ".repeat(indent + 1));
                    }
                    write_str(out, k);
                    out.push(':');
                    if pretty {
                        out.push(' ');
                    }
                    x.write(out, indent + 1, pretty);
                }
                if pretty && !v.is_empty() {
                    out.push('\n');
                    out.push_str(&" ".repeat(indent));
                }
                out.push('}');
            }
        }
    }

    pub fn parse(s: &str) -> Result<J, String> {
        let b = s.as_bytes();
        let mut p = 0usize;
        let v = parse_value(b, &mut p)?;
        skip_ws(b, &mut p);
        if p != b.len() {
            return Err(format!("trailing data at {p}"));
        }
        Ok(v)
    }
}

fn write_str(out: &mut String, s: &str) {
    out.push('"');
    for c in s.chars() {
        match c {
            '"' => out.push_str("\\\""),
            '\\' => out.push_str("\\\\"),
            '\n' => out.push_str("\\n"),
            '\r' => out.push_str("\\r"),
            '\t' => out.push_str("\\t"),
            c if (c as u32) < 0x20 => {
                let _ = write!(out, "\\u{:04x}", c as u32);
            }
            c => out.push(c),
        }
    }
    out.push('"');
}

fn skip_ws(b: &[u8], p: &mut usize) {
    while *p < b.len() && matches!(b[*p], b' ' | b'\n' | b'\r' | b'\t') {
        *p += 1;
    }
}

fn parse_value(b: &[u8], p: &mut usize) -> Result<J, String> {
    skip_ws(b, p);
    if *p >= b.len() {
        return Err("unexpected end".into());
    }
    match b[*p] {
        b'n' => lit(b, p, "null", J::Null),
        b't' => lit(b, p, "true", J::Bool(true)),
        b'f' => lit(b, p, "false", J::Bool(false)),
        b'"' => parse_string(b, p).map(J::Str),
        b'[' => {
            *p += 1;
            let mut v = Vec::new();
            skip_ws(b, p);
            if *p < b.len() && b[*p] == b']' {
                *p += 1;
                return Ok(J::Arr(v));
            }
            loop {
                v.push(parse_value(b, p)?);
                skip_ws(b, p);
                match b.get(*p) {
                    Some(b',') => *p += 1,
                    Some(b']') => {
                        *p += 1;
                        return Ok(J::Arr(v));
                    }
                    _ => return Err(format!("expected , or ] at {p}")),
                }
            }
        }
        b'{' => {
            *p += 1;
            let mut v = Vec::new();
            skip_ws(b, p);
            if *p < b.len() && b[*p] == b'}' {
                *p += 1;
                return Ok(J::Obj(v));
            }
            loop {
                skip_ws(b, p);
                let k = parse_string(b, p)?;
                skip_ws(b, p);
                if b.get(*p) != Some(&b':') {
                    return Err(format!("expected : at {p}"));
                }
                *p += 1;
                let x = parse_value(b, p)?;
                v.push((k, x));
                skip_ws(b, p);
                match b.get(*p) {
                    Some(b',') => *p += 1,
                    Some(b'}') => {
                        *p += 1;
                        return Ok(J::Obj(v));
                    }
                    _ => return Err(format!("expected , or }} at {p}")),
                }
            }
        }
        _ => {
            let start = *p;
            while *p < b.len() && matches!(b[*p], b'-' | b'+' | b'.' | b'e' | b'E' | b'0'..=b'9') {
                *p += 1;
            }
            let t = std::str::from_utf8(&b[start..*p]).map_err(|e| e.to_string())?;
            if let Ok(i) = t.parse::<i64>() {
                Ok(J::Int(i))
            } else {
                t.parse::<f64>()
                    .map(J::Num)
                    .map_err(|_| format!("bad number '{t}' at {start}"))
            }
        }
    }
}

fn lit(b: &[u8], p: &mut usize, word: &str, v: J) -> Result<J, String> {
    if b[*p..].starts_with(word.as_bytes()) {
        *p += word.len();
        Ok(v)
    } else {
        Err(format!("bad literal at {p}"))
    }
}

fn parse_string(b: &[u8], p: &mut usize) -> Result<String, String> {
    if b.get(*p) != Some(&b'"') {
        return Err(format!("expected string at {p}"));
    }
    *p += 1;
    let mut out = Vec::new();
    while *p < b.len() {
        match b[*p] {
            b'"' => {
                *p += 1;
                return String::from_utf8(out).map_err(|e| e.to_string());
            }
            b'\\' => {
                *p += 1;
                match b.get(*p) {
                    Some(b'n') => out.push(b'\n'),
                    Some(b'r') => out.push(b'\r'),
                    Some(b't') => out.push(b'\t'),
                    Some(b'b') => out.push(8),
                    Some(b'f') => out.push(12),
                    Some(b'/') => out.push(b'/'),
                    Some(b'\\') => out.push(b'\\'),
                    Some(b'"') => out.push(b'"'),
                    Some(b'u') => {
                        let h = std::str::from_utf8(&b[*p + 1..*p + 5]).map_err(|e| e.to_string())?;
                        let c = u32::from_str_radix(h, 16).map_err(|e| e.to_string())?;
                        let ch = char::from_u32(c).unwrap_or('\u{fffd}');
                        let mut buf = [0u8; 4];
                        out.extend_from_slice(ch.encode_utf8(&mut buf).as_bytes());
                        *p += 4;
                    }
                    _ => return Err("bad escape".into()),
                }
                *p += 1;
            }
            c => {
                out.push(c);
                *p += 1;
            }
        }
    }
    Err("unterminated string".into())
}

/// Hex encoding of bytes for replay files (simple and greppable; inputs are small).
pub fn hex(bytes: &[u8]) -> String {
    let mut s = String::with_capacity(bytes.len() * 2);
    for b in bytes {
        let _ = write!(s, "{b:02x}");
    }
    s
}

pub fn unhex(s: &str) -> Option<Vec<u8>> {
    if s.len() % 2 != 0 {
        return None;
    }
    (0..s.len() / 2)
        .map(|i| u8::from_str_radix(&s[2 * i..2 * i + 2], 16).ok())
        .collect()
}

/// Bytes as a JSON value: printable ASCII text as a string under "text", otherwise hex.
pub fn bytes_j(bytes: &[u8]) -> J {
    let printable = bytes
        .iter()
        .all(|&b| b == b'\n' || b == b'\t' || (0x20..0x7f).contains(&b));
    if printable {
        J::obj([("text", J::s(String::from_utf8_lossy(bytes)))])
    } else {
        J::obj([("hex", J::s(hex(bytes)))])
    }
}

pub fn j_bytes(j: &J) -> Option<Vec<u8>> {
    if let Some(t) = j.get("text").and_then(|x| x.as_str()) {
        Some(t.as_bytes().to_vec())
    } else {
        j.get("hex").and_then(|x| x.as_str()).and_then(unhex)
    }
}
