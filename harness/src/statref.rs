//! Reference statistics: (a) from spectra by the published estimator formulas (typed from the
//! papers: Watterson 1975, Tajima 1983/1989, Fu & Li 1993, Reich 2009 / Peter 2016, Bhatia 2013,
//! Nei & Li 1987, Manichaikul 2010 / Waples 2019), (b) directly from genotypes.

use sfs_core::Scs;

use crate::{enumerate::for_each_index, refmodel::RefArray};

pub const ALL_STATS: [&str; 14] = [
    "d-fu-li", "d-tajima", "f2", "f3", "f4", "fst", "king", "pi", "pi-xy", "r0", "r1", "s", "sum", "theta",
];

/// Is the statistic defined for a spectrum of this shape (by the documented requirements)?
pub fn admissible(stat: &str, shape: &[usize]) -> bool {
    match stat {
        "sum" | "s" => true,
        "pi" | "theta" | "d-tajima" | "d-fu-li" => shape.len() == 1,
        "f2" | "fst" | "pi-xy" => shape.len() == 2,
        "f3" => shape.len() == 3,
        "f4" => shape.len() == 4,
        "king" | "r0" | "r1" => shape == [3, 3],
        _ => false,
    }
}

/// Calls the real library statistic (as the CLI does: f2/f3/f4/fst on the normalized spectrum).
pub fn real_stat(stat: &str, scs: &Scs) -> Result<f64, String> {
    let r = match stat {
        "d-fu-li" => scs.d_fu_li(),
        "d-tajima" => scs.d_tajima(),
        "f2" => scs.clone().into_normalized().f2(),
        "f3" => scs.clone().into_normalized().f3(),
        "f4" => scs.clone().into_normalized().f4(),
        "fst" => scs.clone().into_normalized().fst(),
        "king" => scs.king(),
        "pi" => scs.pi(),
        "pi-xy" => scs.pi_xy(),
        "r0" => scs.r0(),
        "r1" => scs.r1(),
        "s" => Ok(scs.segregating_sites()),
        "sum" => Ok(scs.sum()),
        "theta" => scs.theta_watterson(),
        _ => return Err("unknown statistic".into()),
    };
    r.map_err(|e| e.to_string())
}

fn harmonic(n: usize, p: i32) -> f64 {
    (1..n).map(|i| 1.0 / (i as f64).powi(p)).sum()
}

/// Reference value of a statistic on a (count) spectrum, by the definitions / estimator formulas.
pub fn ref_stat(stat: &str, x: &RefArray) -> f64 {
    let shape = &x.shape;
    let cells = x.data.len();
    let total: f64 = x.sum();
    // allele frequencies per cell
    let mut num = 0.0;
    let mut den = 0.0;
    match stat {
        "sum" => return total,
        "s" => return x.data.iter().enumerate().filter(|(i, _)| *i != 0 && *i != cells - 1).map(|(_, v)| *v).sum(),
        "pi" => {
            let n = shape[0] - 1;
            let pairs = (n * (n - 1)) as f64 / 2.0;
            return x.data.iter().enumerate().map(|(k, v)| v * (k * (n - k)) as f64 / pairs).sum();
        }
        "theta" => {
            let n = shape[0] - 1;
            let s: f64 = x.data.iter().enumerate().filter(|(k, _)| *k > 0 && *k < n).map(|(_, v)| *v).sum();
            return s / harmonic(n, 1);
        }
        "d-tajima" => {
            // Tajima (1989), eqs. 28-38
            let n = shape[0] - 1;
            let nf = n as f64;
            let s: f64 = x.data.iter().enumerate().filter(|(k, _)| *k > 0 && *k < n).map(|(_, v)| *v).sum();
            let pi = ref_stat("pi", x);
            let a1 = harmonic(n, 1);
            let a2 = harmonic(n, 2);
            let b1 = (nf + 1.0) / (3.0 * (nf - 1.0));
            let b2 = 2.0 * (nf * nf + nf + 3.0) / (9.0 * nf * (nf - 1.0));
            let c1 = b1 - 1.0 / a1;
            let c2 = b2 - (nf + 2.0) / (a1 * nf) + a2 / (a1 * a1);
            let e1 = c1 / a1;
            let e2 = c2 / (a1 * a1 + a2);
            return (pi - s / a1) / (e1 * s + e2 * s * (s - 1.0)).sqrt();
        }
        "d-fu-li" => {
            // Fu & Li (1993), D with an outgroup: (S - a_n * eta_e) / sqrt(u_D S + v_D S^2)
            let n = shape[0] - 1;
            let nf = n as f64;
            let s: f64 = x.data.iter().enumerate().filter(|(k, _)| *k > 0 && *k < n).map(|(_, v)| *v).sum();
            let eta_e = x.data[1];
            let an = harmonic(n, 1);
            let bn = harmonic(n, 2);
            let cn = 2.0 * (nf * an - 2.0 * (nf - 1.0)) / ((nf - 1.0) * (nf - 2.0));
            let vd = 1.0 + an * an / (bn + an * an) * (cn - (nf + 1.0) / (nf - 1.0));
            let ud = an - 1.0 - vd;
            return (s - an * eta_e) / (ud * s + vd * s * s).sqrt();
        }
        "king" => {
            let g = |i: usize, j: usize| x.get(&[i, j]);
            return (g(1, 1) - 2.0 * (g(0, 2) + g(2, 0))) / (g(0, 1) + g(1, 0) + g(1, 2) + g(2, 1) + 2.0 * g(1, 1));
        }
        "r0" => {
            let g = |i: usize, j: usize| x.get(&[i, j]);
            return (g(0, 2) + g(2, 0)) / g(1, 1);
        }
        "r1" => {
            let g = |i: usize, j: usize| x.get(&[i, j]);
            return g(1, 1) / (g(0, 1) + g(1, 0) + g(1, 2) + g(2, 1) + g(0, 2) + g(2, 0));
        }
        _ => {}
    }
    let mut flat = 0;
    for_each_index(shape, |idx| {
        let v = x.data[flat];
        flat += 1;
        let f: Vec<f64> = idx.iter().zip(shape).map(|(k, n)| *k as f64 / (n - 1) as f64).collect();
        match stat {
            "pi-xy" => {
                let (n1, n2) = ((shape[0] - 1) as f64, (shape[1] - 1) as f64);
                let (i, j) = (idx[0] as f64, idx[1] as f64);
                num += v * (i * (n2 - j) + j * (n1 - i)) / (n1 * n2);
            }
            "f2" => num += v * (f[0] - f[1]).powi(2),
            "f3" => num += v * (f[0] - f[1]) * (f[0] - f[2]),
            "f4" => num += v * (f[0] - f[1]) * (f[2] - f[3]),
            "fst" => {
                // Bhatia et al. (2013), eq. 10, ratio of sums over sites
                let (n1, n2) = ((shape[0] - 1) as f64, (shape[1] - 1) as f64);
                let (p1, p2) = (f[0], f[1]);
                if v != 0.0 {
                    num += v * ((p1 - p2).powi(2) - p1 * (1.0 - p1) / (n1 - 1.0) - p2 * (1.0 - p2) / (n2 - 1.0));
                    den += v * (p1 * (1.0 - p2) + p2 * (1.0 - p1));
                }
            }
            _ => panic!("unknown statistic {stat}"),
        }
    });
    match stat {
        "pi-xy" => num,
        "fst" => num / den,
        _ => num / total,
    }
}

// ---------------------------------------------------------------------------------------------
// From genotypes: `sites[r][s]` = ALT allele count (0,1,2) of diploid sample s at record r;
// `pops[j]` = sample indices of population j.

pub fn stat_from_genotypes(stat: &str, sites: &[Vec<usize>], pops: &[Vec<usize>]) -> f64 {
    let d = pops.len();
    let n: Vec<usize> = pops.iter().map(|p| 2 * p.len()).collect();
    // chromosomes of population j at a site as a 0/1 vector
    let chroms = |site: &Vec<usize>, j: usize| -> Vec<u8> {
        let mut v = Vec::new();
        for &s in &pops[j] {
            match site[s] {
                0 => v.extend([0, 0]),
                1 => v.extend([0, 1]),
                _ => v.extend([1, 1]),
            }
        }
        v
    };
    let freq = |site: &Vec<usize>, j: usize| -> f64 { pops[j].iter().map(|&s| site[s]).sum::<usize>() as f64 / n[j] as f64 };
    let polymorphic = |site: &Vec<usize>| -> bool {
        let tot: usize = (0..d).map(|j| pops[j].iter().map(|&s| site[s]).sum::<usize>()).sum();
        let max: usize = n.iter().sum();
        tot != 0 && tot != max
    };
    let n_sites = sites.len() as f64;
    match stat {
        "sum" => n_sites,
        "s" => sites.iter().filter(|s| polymorphic(s)).count() as f64,
        "pi" => {
            // mean number of pairwise differences between sampled chromosomes, by brute force
            let mut diff = 0usize;
            for site in sites {
                let c = chroms(site, 0);
                for a in 0..c.len() {
                    for b in a + 1..c.len() {
                        if c[a] != c[b] {
                            diff += 1;
                        }
                    }
                }
            }
            diff as f64 / (n[0] * (n[0] - 1) / 2) as f64
        }
        "pi-xy" => {
            let mut diff = 0usize;
            for site in sites {
                let (a, b) = (chroms(site, 0), chroms(site, 1));
                for x in &a {
                    for y in &b {
                        if x != y {
                            diff += 1;
                        }
                    }
                }
            }
            diff as f64 / (n[0] * n[1]) as f64
        }
        "theta" => stat_from_genotypes("s", sites, pops) / harmonic(n[0], 1),
        "f2" => sites.iter().map(|s| (freq(s, 0) - freq(s, 1)).powi(2)).sum::<f64>() / n_sites,
        "f3" => sites.iter().map(|s| (freq(s, 0) - freq(s, 1)) * (freq(s, 0) - freq(s, 2))).sum::<f64>() / n_sites,
        "f4" => sites.iter().map(|s| (freq(s, 0) - freq(s, 1)) * (freq(s, 2) - freq(s, 3))).sum::<f64>() / n_sites,
        "fst" => {
            let (mut num, mut den) = (0.0, 0.0);
            for s in sites {
                let (p1, p2) = (freq(s, 0), freq(s, 1));
                let (n1, n2) = (n[0] as f64, n[1] as f64);
                num += (p1 - p2).powi(2) - p1 * (1.0 - p1) / (n1 - 1.0) - p2 * (1.0 - p2) / (n2 - 1.0);
                den += p1 * (1.0 - p2) + p2 * (1.0 - p1);
            }
            num / den
        }
        "king" | "r0" | "r1" => {
            // genotype-pair counts of the two individuals
            let mut c = [[0.0f64; 3]; 3];
            for s in sites {
                c[s[pops[0][0]]][s[pops[1][0]]] += 1.0;
            }
            match stat {
                "king" => (c[1][1] - 2.0 * (c[0][2] + c[2][0])) / (c[0][1] + c[1][0] + c[1][2] + c[2][1] + 2.0 * c[1][1]),
                "r0" => (c[0][2] + c[2][0]) / c[1][1],
                _ => c[1][1] / (c[0][1] + c[1][0] + c[1][2] + c[2][1] + c[0][2] + c[2][0]),
            }
        }
        "d-tajima" | "d-fu-li" => {
            // estimator formulas applied to the genotype-level S, pi and singleton count
            let nn = n[0];
            let mut x = RefArray::zeros(&[nn + 1]);
            for s in sites {
                let k: usize = pops[0].iter().map(|&i| s[i]).sum();
                x.data[k] += 1.0;
            }
            ref_stat(stat, &x)
        }
        _ => panic!("unknown statistic"),
    }
}
