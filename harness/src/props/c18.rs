//! C18 — results do not depend on how the byte stream is chunked; I/O errors surface.
//!
//! Deviation-bounded exploration of environment answers: bound 0 = one chunk, bound 1 = every
//! single cut offset, bound 2 = every pair of cuts (thorough), plus periodic schedules; a fault
//! injected at every byte offset of the read and of the written stream.

use std::{
    num::NonZeroUsize,
    sync::{atomic::Ordering, Arc},
};

use sfs_core::{
    input::genotype,
    spectrum::io::{write, Format},
    Array,
};

use crate::{
    cli::{run_sfs, run_sfs_piped, run_sfs_stdout_to, Scratch, Stdin},
    createmodel::{build_site_reader, run_reader, CreateResult},
    gen::{render, CallSet, Container, Layout},
    json::{hex, J},
    npyref::{dict_text, synth, Spelling},
    par::par_map,
    refmodel::RefArray,
    seam::{ChunkedReader, Schedule, SeamWriter},
    subject::scs_from_ref,
    verdict::{catch, norm_msg, Part, Report, Tier},
};

type Viol = (String, String, J);

fn call_set() -> CallSet {
    let mut cs = CallSet::new(4);
    let rows: [[&str; 4]; 9] = [
        ["0/0", "0/1", "1/1", "0|1"],
        ["0/1", "0/1", "0/0", "0/0"],
        ["./.", "0/1", "1/1", "0/0"],
        ["1/1", "1|1", "1/1", "1/1"],
        ["0/0", "0/0", "0/0", "0/0"],
        ["0/1", "1/2", "0/0", "1/1"],
        ["1/0", "0/0", "1|1", "0/1"],
        ["0/1", "0/1", "0/1", "0/1"],
        ["1/1", "0/0", "0/1", "1/1"],
    ];
    for r in rows {
        cs.push_gts(&r);
    }
    cs.records[3].chrom = 1;
    cs.records[4].chrom = 1;
    cs.records[6].decorated = true;
    cs
}

#[derive(Clone)]
struct ReadInput {
    name: String,
    container: Option<Container>,
    bytes: Arc<Vec<u8>>,
    threads: usize,
    first_block: usize,
}

fn observe_callset(inp: &ReadInput, sched: &Schedule) -> (Result<CreateResult, String>, bool, usize) {
    let (reader, log) = ChunkedReader::new(inp.bytes.clone(), sched.clone());
    let threads = inp.threads;
    let r = catch(move || {
        let g = genotype::reader::Builder::default()
            .set_threads(NonZeroUsize::new(threads).unwrap())
            .verif_build_from_reader(reader)
            .map_err(|e| format!("build: {e}"))?;
        let map: Vec<Option<usize>> = vec![Some(0); 4];
        let mut site = build_site_reader(g, &map, None)?;
        run_reader(&mut site)
    });
    let r = match r {
        Ok(x) => x,
        Err(p) => Err(format!("panic: {p}")),
    };
    (
        r,
        log.fault_delivered.load(Ordering::SeqCst),
        log.bytes_consumed.load(Ordering::SeqCst),
    )
}

fn observe_npy(inp: &ReadInput, sched: &Schedule) -> (Result<CreateResult, String>, bool, usize) {
    let (reader, log) = ChunkedReader::new(inp.bytes.clone(), sched.clone());
    let r = catch(move || {
        Array::read_npy(reader)
            .map(|a| CreateResult {
                spectrum: RefArray {
                    shape: a.shape().to_vec(),
                    data: a.as_slice().to_vec(),
                },
                skipped: 0,
                sites: 0,
            })
            .map_err(|e| e.to_string())
    });
    let r = match r {
        Ok(x) => x,
        Err(p) => Err(format!("panic: {p}")),
    };
    (
        r,
        log.fault_delivered.load(Ordering::SeqCst),
        log.bytes_consumed.load(Ordering::SeqCst),
    )
}

fn observe(inp: &ReadInput, sched: &Schedule) -> (Result<CreateResult, String>, bool, usize) {
    if inp.container.is_some() {
        observe_callset(inp, sched)
    } else {
        observe_npy(inp, sched)
    }
}

fn same_result(a: &CreateResult, b: &CreateResult) -> bool {
    a.skipped == b.skipped
        && a.sites == b.sites
        && a.spectrum.shape == b.spectrum.shape
        && a.spectrum.data.len() == b.spectrum.data.len()
        && a.spectrum.data.iter().zip(&b.spectrum.data).all(|(x, y)| x.to_bits() == y.to_bits())
}

fn where_class(inp: &ReadInput, sched: &Schedule) -> &'static str {
    // the first chunk ends at the first cut, the period, or an injected fault, whichever is first
    let first = sched
        .cuts
        .first()
        .copied()
        .into_iter()
        .chain((sched.period > 0).then_some(sched.period))
        .chain(sched.fault_at.filter(|f| *f > 0))
        .min()
        .unwrap_or(usize::MAX);
    if first < 3 {
        "first-chunk-shorter-than-magic"
    } else if inp.container.map_or(false, |c| c.compressed()) && first < inp.first_block {
        "first-chunk-inside-first-bgzf-block"
    } else {
        "later-chunk"
    }
}

fn case_j(inp: &ReadInput, sched: &Schedule) -> J {
    J::obj([
        ("kind", J::s("c18-read")),
        ("input", J::s(inp.name.clone())),
        ("threads", J::u(inp.threads)),
        ("schedule", J::s(sched.describe())),
        ("cuts", J::usizes(&sched.cuts)),
        ("period", J::u(sched.period)),
        ("fault_at", sched.fault_at.map_or(J::Null, J::u)),
        ("bytes_hex", J::s(hex(&inp.bytes))),
        ("container", J::s(inp.container.map_or("npy", |c| c.name()))),
    ])
}

fn eval_schedule(inp: &ReadInput, base: &CreateResult, sched: &Schedule) -> Option<Viol> {
    let (r, delivered, _) = observe(inp, sched);
    let kind = inp.container.map_or("npy", |c| c.name());
    if sched.fault_at.is_some() && delivered {
        // the subject was handed an I/O error: it must not succeed
        return match r {
            Err(e) if e.starts_with("panic:") => Some((
                format!("C18|lib|read-fault-panic|{kind}|{}", norm_msg(&e)),
                format!("{}: injected read fault ({}) caused a panic: {e}", inp.name, sched.describe()),
                case_j(inp, sched),
            )),
            Err(_) => None,
            Ok(_) => Some((
                format!("C18|lib|read-fault-swallowed|{kind}"),
                format!("{}: a read error was delivered ({}) but the operation succeeded", inp.name, sched.describe()),
                case_j(inp, sched),
            )),
        };
    }
    match r {
        Ok(ref x) if same_result(x, base) => None,
        other => Some((
            format!("C18|lib|read-chunking|{kind}|{}", where_class(inp, sched)),
            format!(
                "{} (threads {}): schedule {} gives {:?} instead of the one-chunk result",
                inp.name,
                inp.threads,
                sched.describe(),
                other.as_ref().map(|c| &c.spectrum.data).map_err(|e| e.clone())
            ),
            case_j(inp, sched),
        )),
    }
}

/// Inputs whose one-chunk outcome may be a refusal: the outcome (refusal, or the same result) must
/// be the same however the bytes arrive, and a damaged compressed block must be refused always.
fn odd_inputs() -> Vec<(ReadInput, bool)> {
    let cs = call_set();
    let mut v = Vec::new();
    let lf = String::from_utf8(render(&cs, Container::Vcf, &Layout::Single)).unwrap();
    let crlf = lf.replace('\n', "\r\n");
    let lines: Vec<&str> = lf.lines().collect();
    let n = lines.len();
    let with_blank = |nl: &str, at: usize, final_blank: bool| -> String {
        let mut out = String::new();
        for (i, l) in lines.iter().enumerate() {
            out.push_str(l);
            out.push_str(nl);
            if i == at {
                out.push_str(nl);
            }
        }
        if final_blank {
            out.push_str(nl);
        }
        out
    };
    let mut texts: Vec<(String, String)> = vec![("vcf with CRLF line ends".into(), crlf.clone())];
    for (nl, nl_name) in [("\n", "LF"), ("\r\n", "CRLF")] {
        texts.push((format!("vcf ({nl_name}) with a blank line between two records"), with_blank(nl, n - 4, false)));
        texts.push((format!("vcf ({nl_name}) with a blank line behind the header"), with_blank(nl, n - 10, false)));
        texts.push((format!("vcf ({nl_name}) with a blank line at the end"), with_blank(nl, usize::MAX, true)));
    }
    texts.push(("vcf without the final line end".into(), lf.trim_end_matches('\n').to_string()));
    for (name, t) in texts {
        v.push((ReadInput { name: format!("{name} ({} bytes)", t.len()), container: Some(Container::Vcf), bytes: Arc::new(t.into_bytes()), threads: 1, first_block: 0 }, false));
    }
    // BGZF blocks that hold one or two bytes each: the first block is shorter than the magic string
    for c in [Container::Bcf, Container::VcfGz] {
        for k in [1usize, 2] {
            let bytes = render(&cs, c, &Layout::Fixed(k));
            let first_block = u16::from_le_bytes([bytes[16], bytes[17]]) as usize + 1;
            v.push((ReadInput { name: format!("{} in blocks of {k} byte(s) ({} bytes)", c.name(), bytes.len()), container: Some(c), bytes: Arc::new(bytes), threads: if k == 1 { 1 } else { 2 }, first_block }, false));
        }
    }
    // one bit of the checksum of a middle BGZF block flipped
    for c in [Container::VcfGz, Container::Bcf] {
        let mut bytes = render(&cs, c, &Layout::PerUnit);
        let mut starts = Vec::new();
        let mut at = 0;
        while at + 18 <= bytes.len() {
            starts.push(at);
            at += u16::from_le_bytes([bytes[at + 16], bytes[at + 17]]) as usize + 1;
        }
        // blocks: ..., data blocks, empty EOF block
        let k = starts.len() / 2;
        let end = starts[k + 1];
        bytes[end - 8] ^= 0x10;
        let first_block = u16::from_le_bytes([bytes[16], bytes[17]]) as usize + 1;
        for t in [1usize, 2] {
            v.push((ReadInput { name: format!("{} (one block per unit) with a checksum bit of block {k} of {} flipped ({} bytes)", c.name(), starts.len(), bytes.len()), container: Some(c), bytes: Arc::new(bytes.clone()), threads: t, first_block }, true));
        }
    }
    v
}

fn eval_odd(inp: &ReadInput, must_fail: bool, base: &Result<CreateResult, String>, sched: &Schedule) -> Option<Viol> {
    let (r, _, _) = observe(inp, sched);
    let kind = inp.container.map_or("npy", |c| c.name());
    let mut case = case_j(inp, sched);
    if let J::Obj(o) = &mut case {
        o.push(("odd".into(), J::Bool(true)));
        o.push(("must_fail".into(), J::Bool(must_fail)));
    }
    if let Err(e) = &r {
        if e.starts_with("panic:") {
            return Some((format!("C18|lib|odd-input-panic|{kind}|{}", norm_msg(e)), format!("{}: schedule {} caused a panic: {e}", inp.name, sched.describe()), case));
        }
    }
    if must_fail {
        return match r {
            Err(_) => None,
            Ok(x) => Some((format!("C18|lib|damaged-block-accepted|{kind}"), format!("{} (threads {}): schedule {} gives the spectrum {:?} although a compressed block fails its checksum", inp.name, inp.threads, sched.describe(), x.spectrum.data), case)),
        };
    }
    let same = match (&r, base) {
        (Ok(a), Ok(b)) => same_result(a, b),
        (Err(_), Err(_)) => true,
        _ => false,
    };
    if same {
        None
    } else {
        Some((
            format!("C18|lib|outcome-depends-on-chunking|{kind}|{}", if base.is_ok() { "accepted-in-one-chunk" } else { "refused-in-one-chunk" }),
            format!("{}: schedule {} gives {:?}, delivered in one chunk it gives {:?}", inp.name, sched.describe(), r.as_ref().map(|c| &c.spectrum.data), base.as_ref().map(|c| &c.spectrum.data)),
            case,
        ))
    }
}

fn read_inputs(tier: Tier) -> Vec<ReadInput> {
    let cs = call_set();
    let mut v = Vec::new();
    let thread_set: &[usize] = if tier.thorough() { &[1, 2, 4] } else { &[1, 2] };
    for c in Container::all() {
        let layouts: Vec<Layout> = if c.compressed() {
            vec![Layout::PerUnit, Layout::Single]
        } else {
            vec![Layout::Single]
        };
        for l in layouts {
            let bytes = render(&cs, c, &l);
            let first_block = if c.compressed() {
                u16::from_le_bytes([bytes[16], bytes[17]]) as usize + 1
            } else {
                0
            };
            for &t in thread_set {
                if !c.compressed() && t > 1 {
                    continue;
                }
                v.push(ReadInput {
                    name: format!("{} ({}; {} bytes)", c.name(), l.name(), bytes.len()),
                    container: Some(c),
                    bytes: Arc::new(bytes.clone()),
                    threads: t,
                    first_block,
                });
            }
        }
    }
    // npy inputs
    let np = Spelling::numpy();
    // three small files, and two of 2 000 eight-byte values (beyond the 512-value / 4 KiB thresholds of bulk paths)
    {
        // numpy writes version 2.0 exactly when the header does not fit 16 bits: a dict padded with
        // blanks to 65 600 bytes
        let shape = vec![3usize, 2];
        let mut d = dict_text("<f8", false, &shape, &np);
        let pad = 65_600 - d.len();
        d = format!("{}{}", d, " ".repeat(pad));
        let data: Vec<u8> = (0..6 * 8).map(|b| (b * 5 + 3) as u8 & 0x3f).collect();
        let bytes = synth(2, &d, &data);
        v.push(ReadInput { name: format!("npy <f8 v2 with a header of {} bytes ({} bytes)", d.len(), bytes.len()), container: None, bytes: Arc::new(bytes), threads: 1, first_block: 0 });
    }
    // mostly-zero files (a spectrum is often sparse): a few non-zero values between runs of zero bytes
    for (descr, size, shape, version) in [("<f8", 8usize, vec![5usize, 5], 1u8), (">i2", 2, vec![31], 1), ("<f4", 4, vec![3, 3, 3], 2)] {
        let n: usize = shape.iter().product();
        let mut data: Vec<u8> = vec![0u8; n * size];
        for k in [0usize, n / 2, n - 1] {
            for b in 0..size {
                data[k * size + b] = (7 * k + 3 * b + 1) as u8 & 0x3f;
            }
        }
        let bytes = synth(version, &dict_text(descr, false, &shape, &np), &data);
        v.push(ReadInput { name: format!("npy {descr} v{version} shape {shape:?}, mostly zeros ({} bytes)", bytes.len()), container: None, bytes: Arc::new(bytes), threads: 1, first_block: 0 });
    }
    for (descr, size, shape, version) in [("<f8", 8usize, vec![3usize, 4], 1u8), (">i2", 2, vec![7], 2), ("|u1", 1, vec![2, 3, 2], 3), ("<f8", 8, vec![40, 50], 1), (">f8", 8, vec![2000], 2)] {
        let n: usize = shape.iter().product();
        let data: Vec<u8> = (0..n * size).map(|b| (b * 5 + 3) as u8 & 0x3f).collect();
        let bytes = synth(version, &dict_text(descr, false, &shape, &np), &data);
        v.push(ReadInput {
            name: format!("npy {descr} v{version} shape {shape:?} ({} bytes)", bytes.len()),
            container: None,
            bytes: Arc::new(bytes),
            threads: 1,
            first_block: 0,
        });
    }
    v
}

// ---- write side ------------------------------------------------------------------------------

fn write_spectra() -> Vec<RefArray> {
    vec![
        RefArray::from_fn(&[1], |_, _| 2.0),
        RefArray::from_fn(&[5], |f, _| f as f64 / 3.0),
        RefArray::from_fn(&[3, 4], |f, _| (f * f) as f64 + 0.5),
        RefArray::from_fn(&[2, 3, 2], |f, _| if f == 4 { f64::NAN } else { f as f64 }),
        RefArray::from_fn(&[2, 2, 2, 2], |f, _| 1e15 + f as f64),
        RefArray::from_fn(&[40], |f, _| (f as f64).sqrt()),
        RefArray::from_fn(&[3, 1], |f, _| -(f as f64)),
        RefArray::from_fn(&[1, 1, 1], |_, _| f64::INFINITY),
        // mostly zeros: runs of neighbouring zero entries between a few counts, and whole-number
        // counts only (what create writes at precision 0)
        RefArray::from_fn(&[5, 5], |f, _| if f == 0 || f == 12 || f == 24 { (f + 3) as f64 } else { 0.0 }),
        RefArray::from_fn(&[30], |f, _| if f % 11 == 5 { 4.0 } else { 0.0 }),
        // beyond 512 and 4096 values (batching thresholds of writers); 3.25 carries a 0x0A byte
        RefArray::from_fn(&[1000], |f, _| if f % 97 == 3 { 3.25 } else { f as f64 + 0.5 }),
        RefArray::from_fn(&[70, 70], |f, _| (f % 1013) as f64 * 0.25 + 1.0),
    ]
}

const FIRST_BIG_WRITE: usize = 10;

fn write_with(x: &RefArray, format: Format, p: usize, w: &mut SeamWriter) -> Result<(), String> {
    let scs = scs_from_ref(x);
    match catch(|| {
        write::Builder::default()
            .set_format(format)
            .set_precision(p)
            .write(w, &scs)
            .map_err(|e| e.to_string())
    }) {
        Ok(r) => r,
        Err(p) => Err(format!("panic: {p}")),
    }
}

fn eval_write(si: usize, format: Format, p: usize) -> (u64, Vec<Viol>) {
    let x = &write_spectra()[si];
    let fname = if format == Format::Npy { "npy" } else { "text" };
    let mut viols = Vec::new();
    let mut evals = 0;
    let mut base = SeamWriter::short(usize::MAX);
    if let Err(e) = write_with(x, format, p, &mut base) {
        return (1, vec![(format!("C18|lib|write-failed|{fname}"), format!("baseline write failed: {e}"), J::Null)]);
    }
    let base = base.out;
    let case = |what: String| {
        J::obj([
            ("kind", J::s("c18-write")),
            ("spectrum", J::u(si)),
            ("format", J::s(fname)),
            ("precision", J::u(p)),
            ("what", J::s(what)),
        ])
    };
    // a small spectrum written right after every faulted write on the same thread: what an earlier,
    // failed write left behind must not show up in a later one
    let after = &write_spectra()[if si == 0 { 1 } else { 0 }];
    let mut after_base = SeamWriter::short(usize::MAX);
    let _ = write_with(after, format, p, &mut after_base);
    let after_base = after_base.out;
    let mut after_reported = false;
    let big = si >= FIRST_BIG_WRITE;
    let short_sizes: &[usize] = if big { &[1, 7, 512, 1000, 4095, 4096, 4097] } else { &[1, 2, 3, 7] };
    for &k in short_sizes {
        evals += 1;
        let mut w = SeamWriter::short(k);
        match write_with(x, format, p, &mut w) {
            Ok(()) if w.out == base => {}
            other => viols.push((
                format!("C18|lib|short-write-differs|{fname}"),
                format!("writing spectrum {si} as {fname} through a writer accepting {k} bytes per call: {other:?}, {} bytes instead of {}", w.out.len(), base.len()),
                case(format!("short {k}")),
            )),
        }
    }
    for at in 0..base.len() {
        // large outputs: every offset of the first 200 bytes, every 61st offset, and the neighbourhood of every multiple of 4096
        if big && !(at < 200 || at % 61 == 0 || at % 4096 <= 2 || at % 4096 >= 4094 || at + 3 >= base.len()) {
            continue;
        }
        // a fault that happens once and then goes away (a writer that recovers): it was still a failed
        // write and must surface
        {
            evals += 1;
            let mut w = SeamWriter::short(usize::MAX);
            w.fail_once_at = Some(at);
            if let Ok(()) = write_with(x, format, p, &mut w) {
                let header_end = if format == Format::Npy { 128.min(base.len()) } else { base.iter().position(|b| *b == b'\n').unwrap_or(0) + 1 };
                viols.push((
                    format!("C18|lib|write-fault-swallowed|{fname}|{}|once", if at < header_end { "header" } else { "values" }),
                    format!("spectrum {si} as {fname}: the writer failed once at offset {at} and accepted data afterwards, write returned Ok with {} of {} bytes written", w.out.len(), base.len()),
                    case(format!("one-off fault {at}")),
                ));
            }
        }
        for zero in [false, true] {
            evals += 1;
            let mut w = SeamWriter::short(usize::MAX);
            if zero {
                w.zero_at = Some(at);
            } else {
                w.fail_at = Some(at);
            }
            let r = write_with(x, format, p, &mut w);
            if !after_reported {
                evals += 1;
                let mut w2 = SeamWriter::short(usize::MAX);
                let r2 = write_with(after, format, p, &mut w2);
                if r2.is_err() || w2.out != after_base {
                    after_reported = true;
                    viols.push((
                        format!("C18|lib|write-after-failed-write|{fname}"),
                        format!("after a write of spectrum {si} as {fname} that failed at offset {at} ({}), the next write on the same thread gives {r2:?} with {} bytes instead of the {} bytes it gives otherwise", if zero { "Ok(0)" } else { "Err" }, w2.out.len(), after_base.len()),
                        case(format!("after fault {at} zero={zero}")),
                    ));
                }
            }
            match r {
                Err(e) if e.starts_with("panic:") => viols.push((
                    format!("C18|lib|write-fault-panic|{fname}|{}", norm_msg(&e)),
                    format!("write fault at offset {at} panicked: {e}"),
                    case(format!("fault {at} zero={zero}")),
                )),
                Err(_) => {}
                Ok(()) => {
                    let header_end = if format == Format::Npy { 128.min(base.len()) } else { base.iter().position(|b| *b == b'\n').unwrap_or(0) + 1 };
                    let region = if at < header_end { "header" } else { "values" };
                    viols.push((
                        format!("C18|lib|write-fault-swallowed|{fname}|{region}|{}", if zero { "ok0" } else { "err" }),
                        format!("spectrum {si} as {fname}: the writer failed at offset {at} ({}), yet write returned Ok with {} of {} bytes written", if zero { "Ok(0)" } else { "Err" }, w.out.len(), base.len()),
                        case(format!("fault {at} zero={zero}")),
                    ));
                }
            }
        }
    }
    (evals, viols)
}

// ---- real pipes ------------------------------------------------------------------------------

fn eval_pipe(c: Container, bytes: &[u8], first: usize, scratch: &Scratch) -> Option<Viol> {
    let path = scratch.file(c.suffix(), bytes);
    let ps = path.to_str().unwrap().to_string();
    let base = run_sfs(&["create", &ps], Stdin::Null, scratch);
    let first = first.min(bytes.len());
    let o = run_sfs_piped(&["create"], &[&bytes[..first], &bytes[first..]], 40, scratch);
    let _ = std::fs::remove_file(path);
    if o.code == base.code && o.stdout == base.stdout {
        None
    } else {
        let cls = if first < 3 { "first-chunk-shorter-than-magic" } else { "first-chunk-inside-first-bgzf-block-or-later" };
        Some((
            format!("C18|cli|pipe-chunking|{}|{cls}", c.name()),
            format!(
                "sfs create reading {} from a pipe whose first write is {first} bytes: {} stdout {:?} stderr {:?}; from a file: {} stdout {:?}",
                c.name(), o.status_str(), o.stdout_str(), o.stderr_str().trim(), base.status_str(), base.stdout_str()
            ),
            J::obj([
                ("kind", J::s("c18-pipe")),
                ("container", J::s(c.name())),
                ("first_chunk", J::u(first)),
                ("bytes_hex", J::s(hex(bytes))),
            ]),
        ))
    }
}

pub fn run(tier: Tier) -> i32 {
    let mut rep = Report::new("C18", tier, "fault_enumeration");
    rep.rule = "read side: for each input (a 9-record call set as vcf / vcf.gz / bcf / raw bcf in two BGZF layouts, 1-2 worker threads, through the real detection + reader construction via hook 1; five npy files, two of them with 2 000 values, and a version-2.0 file whose header is 65 600 bytes long (cuts and faults at its ends and every 997th offset), through Array::read_npy) the chunk schedule is explored by deviation bound: 0 cuts, every single cut offset (= a first chunk of any length), every pair of cuts (thorough), periodic chunks of 1,2,3,7,64,4099,6001,8191 bytes; result must equal the one-chunk result. A read fault is injected at every byte offset (alone, after a cut at f-1, and under each periodic schedule): if the error was delivered the result must be Err. write side: 8 spectra x {text p=0,6,17; npy} through writers accepting 1,2,3,7 bytes per call (identical bytes) and failing / returning Ok(0) at every offset (must be Err). Real pipes with a delayed second write confirm end to end. Non-trivial = a schedule with >=1 deviation.".into();

    let inputs = read_inputs(tier);
    // baselines
    // (a valid input that cannot be read in one piece is reported and left out of the exploration)
    let mut inputs = inputs;
    let mut bases: Vec<CreateResult> = Vec::new();
    let mut keep = Vec::new();
    for inp in inputs.drain(..) {
        match observe(&inp, &Schedule::whole()).0 {
            Ok(b) => {
                bases.push(b);
                keep.push(inp);
            }
            Err(e) => rep.violation(format!("C18|lib|one-chunk-read-failed|{}", inp.container.map_or("npy", |c| c.name())), format!("{} delivered in one chunk is not read: {e}", inp.name), case_j(&inp, &Schedule::whole())),
        }
    }
    let inputs = keep;
    if inputs.is_empty() {
        return rep.finish();
    }
    // all call-set inputs must agree among themselves too (same call data)
    for (i, inp) in inputs.iter().enumerate() {
        if inp.container.is_some() && !same_result(&bases[i], &bases[0]) {
            rep.violation(
                "C18|lib|containers-disagree",
                format!("{} gives a different one-chunk result than {}", inp.name, inputs[0].name),
                case_j(inp, &Schedule::whole()),
            );
        }
    }
    let mut jobs: Vec<(usize, Schedule)> = Vec::new();
    let mut n_faults = 0u64;
    for (i, inp) in inputs.iter().enumerate() {
        let len = inp.bytes.len();
        jobs.push((i, Schedule::whole()));
        // the file with a 65 600-byte header: cuts and faults in its first 200 and last 80 bytes and at
        // every 997th offset in between (the header is one run of blanks)
        let coarse = inp.name.contains("with a header of");
        let offsets: Vec<usize> = (1..len).filter(|c| !coarse || *c < 200 || *c + 80 >= len || c % 997 == 0).collect();
        if coarse {
            for &c in &offsets {
                jobs.push((i, Schedule::cuts(&[c])));
                n_faults += 1;
                jobs.push((i, Schedule::whole().with_fault(c)));
                jobs.push((i, Schedule::cuts(&[c - 1]).with_fault(c)));
            }
            for a in 1..16usize {
                for b in [a + 1, 64, 4096, 8192, 65_536, len - 40] {
                    if b > a && b < len {
                        jobs.push((i, Schedule::cuts(&[a, b])));
                    }
                }
            }
            for k in [7usize, 64, 4099, 6001, 8191] {
                jobs.push((i, Schedule::periodic(k)));
            }
            continue;
        }
        for c in 1..len {
            jobs.push((i, Schedule::cuts(&[c])));
        }
        for k in [1usize, 2, 3, 7, 64, 4099, 6001, 8191] {
            jobs.push((i, Schedule::periodic(k)));
        }
        if tier.thorough() {
            // bound 2: every pair of cuts (for compressed inputs: first cut anywhere, second cut anywhere later)
            // every run on a BGZF input spawns the dependency's reader and inflater threads (about 1 ms of
            // system time each), and everything after format detection is the dependency's reader: all
            // pairs are run for plain inputs and for the single-block BGZF inputs with one inflater
            // thread; for the other BGZF inputs the first cut ranges over the detection-relevant prefix
            let full_pairs = inp.threads == 1 && (inp.first_block == 0 || inp.name.contains("single"));
            // (inputs of several KiB: the first cut ranges over the header and the first values only)
            let a_max = if full_pairs && len <= 2000 { len } else if full_pairs { 200.min(len) } else { (inp.first_block + 32).min(len) };
            for a in 1..a_max {
                for b in a + 1..len {
                    jobs.push((i, Schedule::cuts(&[a, b])));
                }
            }
        } else {
            // a slice of bound 2: first cut in the first 8 bytes x every second cut
            for a in 1..len.min(8) {
                for b in a + 1..len {
                    jobs.push((i, Schedule::cuts(&[a, b])));
                }
            }
        }
        for f in 0..=len {
            n_faults += 1;
            jobs.push((i, Schedule::whole().with_fault(f)));
            if f >= 1 {
                jobs.push((i, Schedule::cuts(&[f - 1]).with_fault(f)));
            }
            for k in [1usize, 7, 64] {
                jobs.push((i, Schedule::periodic(k).with_fault(f)));
            }
        }
    }
    let res = par_map(jobs.len(), |j| {
        let (i, s) = &jobs[j];
        eval_schedule(&inputs[*i], &bases[*i], s)
    });
    let mut nt = 0;
    for ((i, s), v) in jobs.iter().zip(res) {
        if !s.cuts.is_empty() || s.period > 0 || s.fault_at.is_some() {
            nt += 1;
        }
        let kind = inputs[*i].container.map_or("npy", |c| c.name());
        let cls = if s.fault_at.is_some() { "fault" } else { "chunking" };
        rep.outcome(format!("{kind} {cls}: {}", if v.is_none() { "as required" } else { "violated" }));
        if let Some((k, w, j)) = v {
            rep.violation(k, w, j);
        }
    }
    rep.part(Part {
        name: "lib: read-side chunk schedules and faults".into(),
        evaluations: jobs.len() as u64,
        nontrivial: nt,
        note: format!(
            "{} inputs; deviation bound completed: {}; {} fault offsets",
            inputs.len(),
            if tier.thorough() { "2 (every pair of cuts; all pairs for plain inputs and for the single-block BGZF inputs read with one inflater thread; for the other BGZF inputs the first cut ranges over the first block + 32 bytes)" } else { "1 (every single cut) + pairs with the first cut in the first 8 bytes" },
            n_faults
        ),
        exhaustive: true,
        extra: vec![("deviation_bound_completed".into(), J::Int(if tier.thorough() { 2 } else { 1 }))],
    });
    {
        let odd = odd_inputs();
        let obases: Vec<Result<CreateResult, String>> = odd.iter().map(|(i, _)| observe(i, &Schedule::whole()).0).collect();
        // the tiny-block inputs hold the same call data as every other container: the same result
        for (i, (inp, _)) in odd.iter().enumerate() {
            if inp.name.contains("in blocks of") && !matches!(&obases[i], Ok(r) if same_result(r, &bases[0])) {
                rep.violation(
                    format!("C18|lib|tiny-blocks-misread|{}", inp.container.map_or("npy", |c| c.name())),
                    format!("{} delivered in one chunk gives {:?}, the same call data in {} gives {:?}", inp.name, obases[i].as_ref().map(|c| &c.spectrum.data), inputs[0].name, bases[0].spectrum.data),
                    { let mut j = case_j(inp, &Schedule::whole()); if let J::Obj(o) = &mut j { o.push(("odd".into(), J::Bool(true))); o.push(("must_fail".into(), J::Bool(false))); o.push(("tiny_blocks".into(), J::Bool(true))); } j },
                );
            }
        }
        let mut ojobs: Vec<(usize, Schedule)> = Vec::new();
        for (i, (inp, _)) in odd.iter().enumerate() {
            let len = inp.bytes.len();
            ojobs.push((i, Schedule::whole()));
            // (the inputs of tens of KiB made of tiny blocks: cuts in the first 300 bytes and at every 97th offset)
            let coarse = inp.name.contains("in blocks of");
            for c in 1..len {
                if !coarse || c < 300 || c % 97 == 0 {
                    ojobs.push((i, Schedule::cuts(&[c])));
                }
            }
            for k in [1usize, 2, 3, 7, 64, 4099] {
                ojobs.push((i, Schedule::periodic(k)));
            }
        }
        let res = par_map(ojobs.len(), |j| {
            let (i, sc) = &ojobs[j];
            eval_odd(&odd[*i].0, odd[*i].1, &obases[*i], sc)
        });
        for v in res.into_iter().flatten() {
            rep.violation(v.0, v.1, v.2);
        }
        // the damaged blocks through the binary (path and stdin, default and strict mode)
        let oscratch = Scratch::new("c18odd");
        let mut n_cli = 0u64;
        for (inp, must_fail) in &odd {
            if !*must_fail {
                continue;
            }
            let path = oscratch.file(inp.container.unwrap().suffix(), &inp.bytes);
            let ts = inp.threads.to_string();
            for (how, args, stdin) in [
                ("path", vec!["create", "--threads", &ts, path.to_str().unwrap()], Stdin::Null),
                ("stdin", vec!["create", "--threads", &ts], Stdin::Bytes(&inp.bytes)),
                ("path, --strict", vec!["create", "--strict", "--threads", &ts, path.to_str().unwrap()], Stdin::Null),
                ("path, -q", vec!["create", "-q", "--threads", &ts, path.to_str().unwrap()], Stdin::Null),
            ] {
                n_cli += 1;
                let o = run_sfs(&args, stdin, &oscratch);
                if o.ok() || !o.stdout.is_empty() || !o.diagnosed_error() {
                    rep.violation(
                        format!("C18|cli|damaged-block-accepted|{}|{how}", inp.container.unwrap().name()),
                        format!("sfs {} on {}: {} stdout {:?} stderr {:?}", args[..args.len().min(4)].join(" "), inp.name, o.status_str(), o.stdout_str(), o.stderr_str()),
                        J::obj([("kind", J::s("c18-damaged")), ("container", J::s(inp.container.unwrap().name())), ("threads", J::u(inp.threads)), ("how", J::s(how)), ("bytes_hex", J::s(hex(&inp.bytes)))]),
                    );
                }
            }
        }
        let refused = obases.iter().filter(|b| b.is_err()).count();
        rep.part(Part {
            name: "lib: inputs at the edge of the format under every chunk schedule".into(),
            evaluations: ojobs.len() as u64 + n_cli,
            nontrivial: ojobs.len() as u64 - odd.len() as u64 + n_cli,
            note: format!("{} inputs (the call set as VCF with CRLF line ends, with a blank line behind the header / between records / at the end in LF and CRLF, without the final line end; bcf and vcf.gz in BGZF blocks of one and of two bytes; vcf.gz and bcf with one checksum bit of a middle block flipped, 1 and 2 inflater threads) x every single cut and periodic chunks of 1,2,3,7,64,4099 bytes: the outcome - the same result, or a refusal - must not depend on the schedule ({refused} inputs are refused in one chunk), and a block failing its checksum is refused under every schedule, and by `sfs create` (path, stdin, --strict, -q) with a diagnosed error and nothing printed", odd.len()),
            exhaustive: true,
            extra: vec![("refused_in_one_chunk".into(), J::u(refused))],
        });
    }
    rep.sample(J::obj([
        ("input", J::s(inputs[2].name.clone())),
        ("schedule", J::s(Schedule::cuts(&[1]).describe())),
        ("expected", J::s("same spectrum / skipped / sites as the one-chunk run")),
    ]));
    rep.sample(J::obj([
        ("input", J::s(inputs[inputs.len() - 3].name.clone())),
        ("schedule", J::s(Schedule::periodic(7).with_fault(140).describe())),
        ("expected", J::s("Err, because the injected error was delivered to read_npy")),
    ]));

    // write side
    let mut wjobs: Vec<(usize, Format, usize)> = Vec::new();
    for si in 0..write_spectra().len() {
        for p in [0usize, 6, 17] {
            wjobs.push((si, Format::Text, p));
        }
        wjobs.push((si, Format::Npy, 0));
    }
    let res = par_map(wjobs.len(), |i| eval_write(wjobs[i].0, wjobs[i].1, wjobs[i].2));
    let mut ev = 0;
    for (e, v) in res {
        ev += e;
        for (k, w, j) in v {
            rep.violation(k, w, j);
        }
    }
    rep.part(Part {
        name: "lib: write-side short writes and faults".into(),
        evaluations: ev,
        nontrivial: ev,
        note: "8 small spectra x {text p=0,6,17; npy}: 4 short-write schedules, Err and Ok(0) at every offset; 2 spectra of 1 000 and 4 900 values: writers accepting 1..4097 bytes per call, faults at the first 200 offsets, every 61st offset and around every multiple of 4096".into(),
        exhaustive: true,
        extra: vec![],
    });

    // real pipes
    let scratch = Scratch::new("c18");
    let cs = call_set();
    let mut pjobs: Vec<(Container, Arc<Vec<u8>>, usize)> = Vec::new();
    for c in Container::all() {
        let bytes = Arc::new(render(&cs, c, &Layout::PerUnit));
        let mut firsts: Vec<usize> = (1..=40).collect();
        firsts.extend([64, 512, bytes.len() - 1]);
        if !tier.thorough() {
            firsts = vec![1, 2, 3, 4, 9, 10, 17, 18, 27, 28, 40, 64, 512, bytes.len() - 1];
        }
        for f in firsts {
            pjobs.push((c, bytes.clone(), f));
        }
    }
    let res = par_map(pjobs.len(), |i| eval_pipe(pjobs[i].0, &pjobs[i].1, pjobs[i].2, &scratch));
    for v in res.into_iter().flatten() {
        rep.violation(v.0, v.1, v.2);
    }
    rep.part(Part {
        name: "cli: real pipes with a delayed second write".into(),
        evaluations: pjobs.len() as u64,
        nontrivial: pjobs.len() as u64,
        note: "4 containers x first-chunk lengths; the writer pauses 40 ms between the two writes (end-to-end confirmation, arrival timing is OS-dependent)".into(),
        exhaustive: false,
        extra: vec![],
    });
    // spectrum inputs through real pipes: view / fold / stat reading text and npy whose first write is short
    {
        let sp = crate::refmodel::RefArray::from_fn(&[3, 4], |f, _| f as f64 * 1.5 + 1.0);
        let text = crate::subject::text_of(&sp).into_bytes();
        let npy_out = run_sfs(&["view", "-O", "npy"], Stdin::Bytes(&text), &scratch);
        let inputs: Vec<(&str, Vec<u8>)> = vec![("text", text.clone()), ("npy", npy_out.stdout.clone())];
        let consumers: [&[&str]; 3] = [&["view", "--precision", "4"], &["fold", "--fill", "zero"], &["stat", "-s", "sum"]];
        let mut sj: Vec<(usize, usize, usize)> = Vec::new();
        for ii in 0..inputs.len() {
            for ci in 0..3 {
                for first in [1usize, 2, 3, 4, 5, 6, 7, 8, 10, 16, 64, 100, 130] {
                    if first < inputs[ii].1.len() {
                        sj.push((ii, ci, first));
                    }
                }
            }
        }
        let res = par_map(sj.len(), |i| {
            let (ii, ci, first) = sj[i];
            let bytes = &inputs[ii].1;
            let base = run_sfs(consumers[ci], Stdin::Bytes(bytes), &scratch);
            let o = run_sfs_piped(consumers[ci], &[&bytes[..first], &bytes[first..]], 40, &scratch);
            if base.ok() && o.code == base.code && o.stdout == base.stdout {
                None
            } else {
                Some((
                    format!("C18|cli|spectrum-pipe-chunking|{}|{}|{}", inputs[ii].0, consumers[ci][0], if first < 6 { "first-chunk-shorter-than-magic" } else { "later" }),
                    format!("sfs {} reading a {} spectrum from a pipe whose first write is {first} bytes: {} stdout {:?} stderr {:?}; from a file: {} stdout {:?}", consumers[ci].join(" "), inputs[ii].0, o.status_str(), o.stdout_str(), o.stderr_str().trim(), base.status_str(), base.stdout_str()),
                    J::obj([("kind", J::s("c18-spectrum-pipe")), ("argv", J::strs(consumers[ci])), ("first_chunk", J::u(first)), ("bytes_hex", J::s(hex(bytes)))]),
                ))
            }
        });
        for v in res.into_iter().flatten() {
            rep.violation(v.0, v.1, v.2);
        }
        rep.part(Part {
            name: "cli: spectra through real pipes with a delayed second write".into(),
            evaluations: sj.len() as u64,
            nontrivial: sj.len() as u64,
            note: "view / fold / stat reading a text and an npy spectrum from a pipe whose first write is 1..8, 10, 16, 64, 100, 130 bytes (40 ms pause before the rest): same stdout and status as from a file (end-to-end confirmation, arrival timing is OS-dependent)".into(),
            exhaustive: false,
            extra: vec![],
        });
    }
    // failing sinks at L2: a full device as stdout and as the -o target
    {
        let full_path = crate::cli::private_device(true);
        let full = std::path::Path::new(full_path);
        let vcf = render(&cs, Container::Vcf, &Layout::Single);
        let small = crate::subject::text_of(&crate::refmodel::RefArray::from_fn(&[3, 4], |f, _| f as f64 + 1.0));
        let big = crate::subject::text_of(&crate::refmodel::RefArray::from_fn(&[120, 120], |f, _| f as f64 + 0.5));
        let mut fjobs: Vec<(Vec<&str>, Vec<u8>, &str)> = vec![
            (vec!["create"], vcf.clone(), "create"),
            (vec!["create", "-p", "1", "--precision", "9"], vcf.clone(), "create -p"),
            (vec!["stat", "-s", "sum"], small.clone().into_bytes(), "stat"),
            (vec!["stat", "-s", "sum,pi", "--header"], crate::subject::text_of(&crate::refmodel::RefArray::from_fn(&[6], |f, _| f as f64 + 1.0)).into_bytes(), "stat --header"),
        ];
        for (name, inp) in [("small", &small), ("big", &big)] {
            let _ = name;
            fjobs.push((vec!["view"], inp.clone().into_bytes(), "view text"));
            fjobs.push((vec!["view", "-O", "npy"], inp.clone().into_bytes(), "view npy"));
            fjobs.push((vec!["fold"], inp.clone().into_bytes(), "fold"));
            fjobs.push((vec!["view", "-o", full_path], inp.clone().into_bytes(), "view -o"));
            fjobs.push((vec!["view", "-O", "npy", "-o", full_path], inp.clone().into_bytes(), "view npy -o"));
        }
        // each job with stdout on the full device (ENOSPC) and, when it writes to stdout, on a pipe
        // whose reader is gone (EPIPE)
        let mut sinks: Vec<(usize, &str)> = Vec::new();
        for i in 0..fjobs.len() {
            sinks.push((i, "full-device"));
            if !fjobs[i].0.contains(&"-o") {
                sinks.push((i, "closed-pipe"));
            }
        }
        let res = par_map(sinks.len(), |k| {
            let (i, sink) = sinks[k];
            let (args, inp, what) = &fjobs[i];
            let o = if args.contains(&"-o") {
                run_sfs(args, Stdin::Bytes(inp), &scratch)
            } else if sink == "closed-pipe" {
                crate::cli::run_sfs_stdout_closed_pipe(args, inp, &scratch)
            } else {
                run_sfs_stdout_to(args, inp, full, &scratch)
            };
            if o.diagnosed_error() {
                None
            } else {
                Some((
                    format!("C18|cli|write-failure-not-reported|{what}|{sink}"),
                    format!("sfs {args:?} writing the result for {} bytes of input to a {sink}: {} stderr {:?}", inp.len(), o.status_str(), o.stderr_str().trim()),
                    J::obj([("kind", J::s("c18-full")), ("argv", J::strs(args)), ("sink", J::s(sink)), ("stdin_hex", J::s(crate::json::hex(inp)))]),
                ))
            }
        });
        for v in res.into_iter().flatten() {
            rep.violation(v.0, v.1, v.2);
        }
        rep.part(Part {
            name: "cli: output onto a full device / a closed pipe".into(),
            evaluations: sinks.len() as u64,
            nontrivial: sinks.len() as u64,
            note: "create / view (text, npy) / fold / stat (also with --header) with stdout = /dev/full, with stdout = a pipe whose reader is gone, and with -o /dev/full, small and >64 KiB outputs: every write fails (ENOSPC / EPIPE), so the run must end in a diagnosed error".into(),
            exhaustive: true,
            extra: vec![],
        });
    }
    // the third stream the library reads: a samples list (shared with C09) - chunking must not matter
    // and a failing stream must fail
    {
        let (n, viols) = super::c09::check_map_from_reader();
        for (k, w, j) in viols {
            rep.violation(k.replacen("C09|", "C18|", 1), w, j);
        }
        rep.part(Part {
            name: "lib: sample lists from chunked and failing streams".into(),
            evaluations: n,
            nontrivial: n,
            note: "sample::Map::from_reader on a five-line stream in one piece and in chunks of 1, 2, 3, 5, 7, 64 bytes, failing at every byte offset under each chunking, and with each line in turn not UTF-8: the complete list or an error, never a shorter list".into(),
            exhaustive: true,
            extra: vec![],
        });
    }
    // working sinks and sources that are not regular files: what arrives must be what a regular file
    // or a captured stdout would hold
    {
        let spec = crate::refmodel::RefArray::from_fn(&[3, 4], |f, _| f as f64 + 1.5);
        let text = crate::subject::text_of(&spec).into_bytes();
        let mut jobs: Vec<(Vec<&str>, &str)> = Vec::new();
        for base in [vec!["view"], vec!["view", "-O", "npy"], vec!["view", "--precision", "2"], vec!["fold"], vec!["fold", "--fill", "zero"], vec!["view", "-O", "npy", "-m", "0"]] {
            for sink in ["fifo", "/dev/stdout", "/dev/null", "/dev/fd/1"] {
                jobs.push((base.clone(), sink));
            }
        }
        let res = par_map(jobs.len(), |k| {
            let (base, sink) = &jobs[k];
            let reference = run_sfs(base, Stdin::Bytes(&text), &scratch);
            let oflag = if base[0] == "fold" { "--output" } else { "-o" };
            let mut a: Vec<&str> = base.clone();
            let (o, arrived) = match *sink {
                "fifo" => {
                    a.extend([oflag, "{FIFO}"]);
                    crate::cli::run_sfs_output_fifo(&a, &text, ".out", &scratch)
                }
                path => {
                    let path = if path == "/dev/null" { crate::cli::private_device(false) } else { path };
                    a.extend([oflag, path]);
                    let o = run_sfs(&a, Stdin::Bytes(&text), &scratch);
                    let got = o.stdout.clone();
                    (o, got)
                }
            };
            let ok = reference.ok() && o.ok() && (*sink == "/dev/null" || arrived == reference.stdout);
            if ok {
                None
            } else {
                Some((
                    format!("C18|cli|non-regular-sink|{}|{}", base.join(" "), if *sink == "fifo" { "fifo" } else { sink }),
                    format!("sfs {a:?}: {} {}; {} bytes arrived at the sink, the same command without {oflag} prints {} bytes", o.status_str(), o.stderr_str().trim(), arrived.len(), reference.stdout.len()),
                    J::obj([("kind", J::s("c18-sink")), ("argv", J::strs(base)), ("sink", J::s(*sink))]),
                ))
            }
        });
        for v in res.into_iter().flatten() {
            rep.violation(v.0, v.1, v.2);
        }
        // sources: every container given by path through a named pipe and /dev/stdin, and through a pipe on stdin
        let mut sj: Vec<(Container, crate::cli::Transport, Vec<&str>)> = Vec::new();
        for c in Container::all() {
            for t in [crate::cli::Transport::PathFifo, crate::cli::Transport::PathDevStdin, crate::cli::Transport::StdinPipe] {
                for args in [vec!["create"], vec!["create", "-p", "1"], vec!["create", "--threads", "1"]] {
                    sj.push((c, t, args));
                }
            }
        }
        let res2 = par_map(sj.len(), |k| {
            let (c, t, args) = &sj[k];
            let bytes = render(&cs, *c, &Layout::Single);
            let reference = crate::cli::run_sfs_transport(args, &bytes, crate::cli::Transport::PathFile, c.suffix(), &scratch);
            let o = crate::cli::run_sfs_transport(args, &bytes, *t, c.suffix(), &scratch);
            if reference.ok() && o.ok() && o.stdout == reference.stdout {
                None
            } else {
                Some((
                    format!("C18|cli|non-regular-source|{}|{t:?}", c.name()),
                    format!("sfs {args:?} on a {} call set over {t:?}: {} {}; from a regular file: {} with {} bytes of output", c.name(), o.status_str(), o.stderr_str().trim(), reference.status_str(), reference.stdout.len()),
                    J::obj([("kind", J::s("c18-source")), ("container", J::s(c.name())), ("transport", J::s(format!("{t:?}"))), ("argv", J::strs(args))]),
                ))
            }
        });
        for v in res2.into_iter().flatten() {
            rep.violation(v.0, v.1, v.2);
        }
        rep.part(Part {
            name: "cli: sinks and sources that are not regular files".into(),
            evaluations: (jobs.len() + sj.len()) as u64,
            nontrivial: (jobs.len() + sj.len()) as u64,
            note: "view (text, npy, precision, marginalized npy) and fold (two fills) with -o / --output on a named pipe, /dev/stdout, /dev/fd/1 and /dev/null: success, and the bytes that arrive equal the stdout of the same command; create (default, -p 1, --threads 1) on each container through a named pipe by path, /dev/stdin and a pipe on stdin: same stdout as from a regular file".into(),
            exhaustive: true,
            extra: vec![],
        });
    }
    rep.exhaustive = true; // the deciding L1 enumeration is complete; the pipe part is confirmation only
    rep.assumptions = vec![
        "read-side observation uses a replica of the 10-line CLI runner loop over the real site::Reader".into(),
        "noodles-bgzf worker threads only inflate blocks that the calling thread read in order; their scheduling is not controlled (DESIGN section 4)".into(),
    ];
    rep.finish()
}

pub fn replay(case: &J) -> Option<Vec<String>> {
    match case.get("kind")?.as_str()? {
        "c18-read" => {
            let bytes = Arc::new(crate::json::unhex(case.get("bytes_hex")?.as_str()?)?);
            let cname = case.get("container")?.as_str()?;
            let container = Container::all().into_iter().find(|c| c.name() == cname);
            let first_block = if container.map_or(false, |c| c.compressed()) {
                u16::from_le_bytes([bytes[16], bytes[17]]) as usize + 1
            } else {
                0
            };
            let inp = ReadInput {
                name: case.get("input")?.as_str()?.to_string(),
                container,
                bytes,
                threads: case.get("threads")?.as_i64()? as usize,
                first_block,
            };
            let sched = Schedule {
                cuts: case.get("cuts")?.as_usizes()?,
                period: case.get("period")?.as_i64()? as usize,
                fault_at: case.get("fault_at").and_then(|x| x.as_i64()).map(|x| x as usize),
            };
            if case.get("tiny_blocks").is_some() {
                // the reference: the call set of the check as plain VCF
                let plain = ReadInput { name: "vcf".into(), container: Some(Container::Vcf), bytes: Arc::new(render(&call_set(), Container::Vcf, &Layout::Single)), threads: 1, first_block: 0 };
                let reference = observe(&plain, &Schedule::whole()).0.ok()?;
                let got = observe(&inp, &Schedule::whole()).0;
                return Some(if matches!(&got, Ok(r) if same_result(r, &reference)) { vec![] } else { vec![format!("C18|lib|tiny-blocks-misread :: {:?}", got.as_ref().map(|c| &c.spectrum.data))] });
            }
            if case.get("odd").is_some() {
                let must_fail = matches!(case.get("must_fail"), Some(J::Bool(true)));
                let base = observe(&inp, &Schedule::whole()).0;
                return Some(eval_odd(&inp, must_fail, &base, &sched).into_iter().map(|(k, w, _)| format!("{k} :: {w}")).collect());
            }
            let base = observe(&inp, &Schedule::whole()).0.ok()?;
            Some(eval_schedule(&inp, &base, &sched).into_iter().map(|(k, w, _)| format!("{k} :: {w}")).collect())
        }
        "c18-damaged" => {
            let bytes = crate::json::unhex(case.get("bytes_hex")?.as_str()?)?;
            let scratch = Scratch::new("c18r");
            let cname = case.get("container")?.as_str()?;
            let c = Container::all().into_iter().find(|c| c.name() == cname)?;
            let path = scratch.file(c.suffix(), &bytes);
            let ts = case.get("threads")?.as_i64()?.to_string();
            let how = case.get("how")?.as_str()?.to_string();
            let (args, stdin): (Vec<&str>, Stdin) = match how.as_str() {
                "stdin" => (vec!["create", "--threads", &ts], Stdin::Bytes(&bytes)),
                "path, --strict" => (vec!["create", "--strict", "--threads", &ts, path.to_str().unwrap()], Stdin::Null),
                "path, -q" => (vec!["create", "-q", "--threads", &ts, path.to_str().unwrap()], Stdin::Null),
                _ => (vec!["create", "--threads", &ts, path.to_str().unwrap()], Stdin::Null),
            };
            let o = run_sfs(&args, stdin, &scratch);
            Some(if o.ok() || !o.stdout.is_empty() || !o.diagnosed_error() { vec![format!("C18|cli|damaged-block-accepted :: {}", o.status_str())] } else { vec![] })
        }
        "c18-write" => {
            let si = case.get("spectrum")?.as_i64()? as usize;
            let format = if case.get("format")?.as_str()? == "npy" { Format::Npy } else { Format::Text };
            let p = case.get("precision")?.as_i64()? as usize;
            Some(eval_write(si, format, p).1.into_iter().map(|(k, w, _)| format!("{k} :: {w}")).collect())
        }
        "c18-full" => {
            let inp = crate::json::unhex(case.get("stdin_hex")?.as_str()?)?;
            let args: Vec<String> = case.get("argv")?.as_arr()?.iter().filter_map(|a| a.as_str().map(|s| s.to_string())).collect();
            let a: Vec<&str> = args.iter().map(|s| s.as_str()).collect();
            let scratch = Scratch::new("c18r");
            let closed = case.get("sink").and_then(|s| s.as_str()) == Some("closed-pipe");
            let o = if a.contains(&"-o") { run_sfs(&a, Stdin::Bytes(&inp), &scratch) } else if closed { crate::cli::run_sfs_stdout_closed_pipe(&a, &inp, &scratch) } else { run_sfs_stdout_to(&a, &inp, std::path::Path::new(crate::cli::private_device(true)), &scratch) };
            Some(if o.diagnosed_error() { vec![] } else { vec![format!("C18|cli|write-failure-not-reported :: {a:?}: {} {:?}", o.status_str(), o.stderr_str())] })
        }
        "c18-spectrum-pipe" => {
            let bytes = crate::json::unhex(case.get("bytes_hex")?.as_str()?)?;
            let args: Vec<String> = case.get("argv")?.as_arr()?.iter().filter_map(|a| a.as_str().map(|s| s.to_string())).collect();
            let a: Vec<&str> = args.iter().map(|s| s.as_str()).collect();
            let first = (case.get("first_chunk")?.as_i64()? as usize).min(bytes.len());
            let scratch = Scratch::new("c18r");
            let base = run_sfs(&a, Stdin::Bytes(&bytes), &scratch);
            let o = run_sfs_piped(&a, &[&bytes[..first], &bytes[first..]], 40, &scratch);
            Some(if o.code == base.code && o.stdout == base.stdout { vec![] } else { vec![format!("C18|cli|spectrum-pipe-chunking :: {a:?} first write {first}: {} {:?} {:?}", o.status_str(), o.stdout_str(), o.stderr_str())] })
        }
        "c18-pipe" => {
            let bytes = crate::json::unhex(case.get("bytes_hex")?.as_str()?)?;
            let cname = case.get("container")?.as_str()?;
            let c = Container::all().into_iter().find(|c| c.name() == cname)?;
            let scratch = Scratch::new("c18r");
            Some(eval_pipe(c, &bytes, case.get("first_chunk")?.as_i64()? as usize, &scratch).into_iter().map(|(k, w, _)| format!("{k} :: {w}")).collect())
        }
        _ => None,
    }
}
