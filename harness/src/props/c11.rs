//! C11 — a site's contribution is independent of earlier sites (additive, order-free).
//!
//! Explicit-state search over the hidden per-record state of the real `site::Reader` (hook
//! `verif_state`), plus all bounded histories, plus permutations / split points on the binary.

use std::collections::{BTreeMap, VecDeque};

use sfs_core::input::{site::Site, ReadStatus};

use crate::{
    cli::{run_sfs, Scratch, Stdin},
    createmodel::{build_site_reader, ref_create, row_str, run_reader, run_script, sample_arg, Cls, MemReader, ScriptReader, Seen, Step, Use},
    enumerate::{permutations, sequences},
    gen::{to_vcf, CallSet},
    json::J,
    par::par_map,
    refmodel::RefArray,
    subject::{parse_out, ref_from_spectrum},
    verdict::{catch, norm_msg, Part, Report, Tier},
};

type Viol = (String, String, J);

const MAP: [Option<usize>; 4] = [Some(0), Some(0), Some(1), Some(1)];

fn kinds() -> Vec<(&'static str, Vec<Cls>)> {
    use Cls::*;
    vec![
        ("complete(0,0)", vec![G0, G0, G0, G0]),
        ("complete(1,2)", vec![G1, G0, G2, G0]),
        ("complete(4,4)", vec![G2, G2, G2, G2]),
        ("complete(2,1)", vec![G1, G1, G0, G1]),
        ("complete(3,0)", vec![G2, G1, G0, G0]),
        ("missing-in-p0", vec![Missing, G1, G2, G1]),
        ("missing-in-p1", vec![G1, G2, Missing, G0]),
        ("missing-in-both", vec![Multi, G2, G1, Missing]),
        ("exactly-sufficient(2,2)", vec![G1, Missing, Missing, G2]),
        ("insufficient-p0", vec![Missing, Missing, G1, G2]),
        ("multiallelic-p0", vec![Multi, G1, G1, G0]),
        ("all-missing", vec![Missing, Missing, Missing, Missing]),
        ("counts(1,1)-totals(4,4)", vec![G1, G0, G1, G0]),
        ("counts(1,1)-totals(2,4)", vec![G1, Missing, G1, G0]),
        ("counts(1,1)-totals(4,2)", vec![G1, G0, G1, Missing]),
        ("insufficient-p0-with-multiallelic", vec![Multi, Missing, G1, G2]),
        ("insufficient-p1-with-multiallelic", vec![G1, G2, Multi, Multi]),
        ("multiallelic-het-p1", vec![G0, G1, G1, Multi]),
    ]
}

/// Reader set-ups: projection target in chromosomes (None = no projection).
fn setups() -> Vec<(&'static str, Option<Vec<usize>>)> {
    vec![
        ("no-projection", None),
        ("project(2,2)", Some(vec![2, 2])),
        ("project(4,1)", Some(vec![4, 1])),
        // targets of zero chromosomes are legal (shape entry 1) and leave scratch indices at 0
        ("project(0,2)", Some(vec![0, 2])),
        ("project(3,0)", Some(vec![3, 0])),
        ("project(0,0)", Some(vec![0, 0])),
    ]
}

#[derive(Clone, Debug, PartialEq)]
enum Obs {
    Standard(Vec<usize>),
    Projected(Vec<f64>),
    Insufficient,
    Error(String),
}

type StateKey = (Vec<usize>, Vec<usize>, usize, Option<Vec<usize>>);

/// Feeds `history` to a fresh real reader; returns the observation of every site and the hook
/// snapshot after the last one (each site is consumed before the next read).
fn execute(history: &[usize], project: &Option<Vec<usize>>) -> Result<(Vec<Obs>, StateKey), String> {
    let ks = kinds();
    let rows: Vec<Vec<Cls>> = history.iter().map(|&k| ks[k].1.clone()).collect();
    let shape: Option<Vec<usize>> = project.as_ref().map(|m| m.iter().map(|x| x + 1).collect());
    let r = catch(|| {
        let mut reader = build_site_reader(Box::new(MemReader::from_classes(4, &rows)), &MAP, shape.as_deref())?;
        let mut obs = Vec::new();
        // exactly one read per record: the snapshot is taken after the last record was consumed
        // and before any further read (which would reset the accumulators)
        for _ in 0..rows.len() {
            let zero = reader.create_zero_scs();
            match reader.read_site() {
                ReadStatus::Read(Site::Standard(c)) => obs.push(Obs::Standard(c.to_vec())),
                ReadStatus::Read(Site::Projected(p)) => {
                    let mut z = zero;
                    p.add_unchecked(&mut z);
                    obs.push(Obs::Projected(ref_from_spectrum(&z).data));
                }
                ReadStatus::Read(Site::InsufficientData) => obs.push(Obs::Insufficient),
                ReadStatus::Error(e) => obs.push(Obs::Error(e.to_string())),
                ReadStatus::Done => break,
            }
        }
        Ok::<_, String>((obs, reader.verif_state()))
    });
    match r {
        Ok(x) => x,
        Err(p) => Err(format!("panic: {p}")),
    }
}

fn obs_same(a: &Obs, b: &Obs) -> bool {
    match (a, b) {
        (Obs::Projected(x), Obs::Projected(y)) => x.len() == y.len() && x.iter().zip(y).all(|(p, q)| p.to_bits() == q.to_bits()),
        _ => a == b,
    }
}

/// What the statement requires for one site, from the reference model.
fn obs_matches_reference(o: &Obs, kind: usize, project: &Option<Vec<usize>>) -> bool {
    let row = kinds()[kind].1.clone();
    let r = ref_create(&[row], &MAP, project.as_deref());
    match o {
        Obs::Insufficient => r.skipped == 1,
        Obs::Standard(c) => {
            if r.skipped != 0 {
                return false;
            }
            let mut z = RefArray::zeros(&r.spectrum.shape);
            if c.iter().zip(&z.shape).any(|(i, n)| i >= n) {
                return false;
            }
            z.add(c, 1.0);
            z.data.iter().zip(&r.spectrum.data).all(|(a, b)| (a - b).abs() < 1e-9)
        }
        Obs::Projected(v) => r.skipped == 0 && v.len() == r.spectrum.data.len() && v.iter().zip(&r.spectrum.data).all(|(a, b)| (a - b).abs() <= 1e-9),
        Obs::Error(_) => false,
    }
}

fn hist_str(h: &[usize]) -> String {
    let ks = kinds();
    h.iter().map(|&k| ks[k].0).collect::<Vec<_>>().join(" ; ")
}

fn case_j(setup: &str, h: &[usize]) -> J {
    J::obj([
        ("kind", J::s("c11-history")),
        ("setup", J::s(setup)),
        ("history", J::usizes(h)),
        ("history_names", J::s(hist_str(h))),
    ])
}

struct Search {
    states: u64,
    transitions: u64,
    max_depth: usize,
    closed: bool,
    viols: Vec<Viol>,
}

/// Breadth-first search over canonical hidden states; every transition is a real `read_site`.
fn explore(setup: &str, project: &Option<Vec<usize>>, depth_cap: usize, state_cap: usize) -> Search {
    let nk = kinds().len();
    // what a fresh reader produces for each kind alone (differential oracle)
    let fresh: Vec<Option<Obs>> = (0..nk).map(|k| execute(&[k], project).ok().and_then(|(o, _)| o.first().cloned())).collect();
    let mut seen: BTreeMap<String, Vec<usize>> = BTreeMap::new();
    let mut queue: VecDeque<Vec<usize>> = VecDeque::new();
    let mut s = Search { states: 0, transitions: 0, max_depth: 0, closed: true, viols: Vec::new() };
    let init = match execute(&[], project) {
        Ok((_, k)) => k,
        Err(e) => {
            s.viols.push((format!("C11|lib|setup-failed|{}", norm_msg(&e)), format!("{setup}: {e}"), case_j(setup, &[])));
            return s;
        }
    };
    seen.insert(format!("{init:?}"), vec![]);
    queue.push_back(vec![]);
    while let Some(hist) = queue.pop_front() {
        s.states += 1;
        s.max_depth = s.max_depth.max(hist.len());
        for k in 0..nk {
            s.transitions += 1;
            let mut h2 = hist.clone();
            h2.push(k);
            match execute(&h2, project) {
                Ok((obs, key)) => {
                    // one observation per record: a reader that ends the stream early or passes over a record yields fewer
                    let last = if obs.len() == h2.len() { obs.last().cloned().unwrap() } else { Obs::Error(format!("{} observations for {} records", obs.len(), h2.len())) };
                    let fresh_ok = fresh[k].as_ref().map_or(false, |f| obs_same(f, &last));
                    let ref_ok = obs_matches_reference(&last, k, project);
                    if !fresh_ok || !ref_ok {
                        let prev = hist.last().map_or("initial".to_string(), |p| kinds()[*p].0.to_string());
                        let which = if !fresh_ok { "differs-from-fresh-reader" } else { "differs-from-reference" };
                        if s.viols.len() < 12 {
                            s.viols.push((
                                format!("C11|lib|site-depends-on-history|{which}|{setup}|after={prev}|site={}", kinds()[k].0),
                                format!(
                                    "{setup}: after history [{}] the site '{}' yields {last:?}; a fresh reader yields {:?}",
                                    hist_str(&hist),
                                    kinds()[k].0,
                                    fresh[k]
                                ),
                                case_j(setup, &h2),
                            ));
                        }
                    }
                    let ks = format!("{key:?}");
                    if !seen.contains_key(&ks) {
                        if h2.len() < depth_cap && seen.len() < state_cap {
                            seen.insert(ks, h2.clone());
                            queue.push_back(h2);
                        } else {
                            s.closed = false;
                        }
                    }
                }
                Err(e) => {
                    if s.viols.len() < 12 {
                        s.viols.push((format!("C11|lib|history-failed|{}", norm_msg(&e)), format!("{setup}: history [{}]: {e}", hist_str(&h2)), case_j(setup, &h2)));
                    }
                }
            }
        }
    }
    s
}

/// Bounded histories: accumulated spectrum = sum of single-site spectra = reference.
fn eval_history(setup: &str, project: &Option<Vec<usize>>, hist: &[usize]) -> Option<Viol> {
    let ks = kinds();
    let rows: Vec<Vec<Cls>> = hist.iter().map(|&k| ks[k].1.clone()).collect();
    let shape: Option<Vec<usize>> = project.as_ref().map(|m| m.iter().map(|x| x + 1).collect());
    let got = build_site_reader(Box::new(MemReader::from_classes(4, &rows)), &MAP, shape.as_deref()).and_then(|mut r| run_reader(&mut r));
    let expect = ref_create(&rows, &MAP, project.as_deref());
    match got {
        Ok(g) => {
            let tol = if project.is_some() { 1e-9 } else { 0.0 };
            let ok = g.skipped == expect.skipped
                && g.spectrum.shape == expect.spectrum.shape
                && g.spectrum.data.iter().zip(&expect.spectrum.data).all(|(a, b)| (a - b).abs() <= tol);
            if ok {
                None
            } else {
                Some((
                    format!("C11|lib|history-not-additive|{setup}|len{}", hist.len()),
                    format!("{setup}: history [{}] accumulates to {:?} (skipped {}), the sum of the single-site contributions is {:?} (skipped {})", hist_str(hist), g.spectrum.data, g.skipped, expect.spectrum.data, expect.skipped),
                    case_j(setup, hist),
                ))
            }
        }
        Err(e) => Some((format!("C11|lib|history-failed|{}", norm_msg(&e)), format!("{setup}: history [{}]: {e}", hist_str(hist)), case_j(setup, hist))),
    }
}

// ---- L2: permutations and split points -------------------------------------------------------

fn vcf_of(rows: &[&Vec<Cls>], same_pos: bool) -> Vec<u8> {
    let mut cs = CallSet::new(4);
    for (i, row) in rows.iter().enumerate() {
        // a record in which nobody is called is written as a record whose FORMAT has no GT key;
        // records with one ALT count pattern carry an extra INFO and FORMAT field
        if row.iter().all(|c| *c == Cls::Missing) {
            cs.push_gts(&[crate::gen::NO_GT_KEY; 4]);
        } else {
            let gts: Vec<&str> = row.iter().enumerate().map(|(j, c)| c.spell(j)).collect();
            cs.push_gts(&gts);
        }
        let last = cs.records.len() - 1;
        // one ALT allele unless a multiallelic genotype needs more: neighbouring records then differ
        // in their number of alleles
        cs.records[last].alts = if row.iter().any(|c| *c == Cls::Multi) { vec!["C", "G", "T"] } else { vec!["C"] };
        // `same_pos`: every record at position 100, alternating between the two contigs
        cs.records[last].pos = if same_pos { 100 } else { 100 + i };
        if same_pos {
            cs.records[last].chrom = i % 2;
        }
        cs.records[last].decorated = row[0] == Cls::G1 && row[1] == Cls::G0;
    }
    to_vcf(&cs).0
}

fn cli_create(rows: &[&Vec<Cls>], project: bool, scratch: &Scratch) -> Result<RefArray, String> {
    cli_create_at(rows, project, false, scratch)
}

fn cli_create_at(rows: &[&Vec<Cls>], project: bool, same_pos: bool, scratch: &Scratch) -> Result<RefArray, String> {
    cli_create_with(rows, project, same_pos, "", scratch)
}

fn cli_create_with(rows: &[&Vec<Cls>], project: bool, same_pos: bool, verbosity: &str, scratch: &Scratch) -> Result<RefArray, String> {
    let vcf = vcf_of(rows, same_pos);
    let sarg = sample_arg(&MAP);
    let mut args = vec!["create", "-s", &sarg];
    if !verbosity.is_empty() {
        args.push(verbosity);
    }
    if project {
        args.extend(["--project-shape", "3,3", "--precision", "12"]);
    }
    parse_out(&run_sfs(&args, Stdin::Bytes(&vcf), scratch))
}

/// create(a) + create(b) = create(a || b) for two long parts (`k` records each, cycling through the
/// record kinds) in one container with an optional --threads value.
fn eval_long_split(k: usize, container: usize, threads: usize, project: bool, scratch: &Scratch) -> Option<Viol> {
    use crate::gen::{render, Container, Layout};
    let ks = kinds();
    let cont = Container::all()[container];
    let mk = |from: usize, to: usize| -> Vec<u8> {
        let mut cs = CallSet::new(4);
        for i in from..to {
            let row = &ks[(i * 5 + i / 7) % ks.len()].1;
            if row.iter().all(|c| *c == Cls::Missing) {
                cs.push_gts(&[crate::gen::NO_GT_KEY; 4]);
            } else {
                let gts: Vec<&str> = row.iter().enumerate().map(|(j, c)| c.spell(j + i)).collect();
                cs.push_gts(&gts);
            }
            let last = cs.records.len() - 1;
            cs.records[last].alts = vec!["C", "G", "T"];
            cs.records[last].pos = 1000 + i;
        }
        render(&cs, cont, &Layout::Single)
    };
    let sarg = sample_arg(&MAP);
    let ts = threads.to_string();
    let mut args = vec!["create", "-s", &sarg];
    if project {
        args.extend(["--project-shape", "3,3", "--precision", "12"]);
    }
    if threads > 0 {
        args.extend(["--threads", &ts]);
    }
    let run = |bytes: &[u8]| parse_out(&run_sfs(&args, Stdin::Bytes(bytes), scratch));
    let (a, b, whole) = (run(&mk(0, k)), run(&mk(k, 2 * k)), run(&mk(0, 2 * k)));
    let ok = match (&a, &b, &whole) {
        (Ok(x), Ok(y), Ok(w)) => w.shape == x.shape && w.shape == y.shape && w.data.iter().zip(x.data.iter().zip(&y.data)).all(|(w, (x, y))| (w - (x + y)).abs() <= if project { 1e-7 } else { 0.0 }),
        _ => false,
    };
    if ok {
        return None;
    }
    let brief = |r: &Result<RefArray, String>| match r {
        Ok(x) => format!("sum {}", x.sum()),
        Err(e) => e.chars().take(200).collect(),
    };
    Some((
        format!("C11|cli|long-split-not-additive|{}|{}", cont.name(), if project { "project" } else { "no-projection" }),
        format!("two parts of {k} records as {}{}: parts ({}) + ({}) != whole ({})", cont.name(), if threads > 0 { format!(" with --threads {threads}") } else { String::new() }, brief(&a), brief(&b), brief(&whole)),
        J::obj([("kind", J::s("c11-long-split")), ("records_per_part", J::u(k)), ("container", J::u(container)), ("threads", J::u(threads)), ("project", J::Bool(project))]),
    ))
}

// ---- library scripts: what a caller of the public reader interface may do between two sites ----

/// Symbols of a script: a record of one of six kinds, a record with a non-diploid genotype in the
/// first / the third column (the others called), a transient I/O error of the source, the source
/// reporting its end although more follows, and the source changing its column layout.
#[derive(Clone, Copy, Debug, PartialEq)]
enum Sym {
    Kind(usize),
    PloidyFirst,
    PloidyThird,
    IoError,
    End,
    Permute,
}

const SCRIPT_KINDS: [usize; 6] = [1, 5, 8, 9, 10, 12];
const PERMUTED: [usize; 4] = [2, 0, 3, 1];

fn script_symbols() -> Vec<Sym> {
    let mut v: Vec<Sym> = SCRIPT_KINDS.iter().map(|k| Sym::Kind(*k)).collect();
    v.extend([Sym::PloidyFirst, Sym::PloidyThird, Sym::IoError, Sym::End, Sym::Permute]);
    v
}

const USES: [Use; 6] = [Use::Add, Use::Drop, Use::Weight(-1.0), Use::Weight(0.5), Use::WeightTwice(3.0, 2.0), Use::Partial];

/// Runs one script on the real reader and compares what every call returned and the accumulated
/// spectrum with the reference: each record contributes its own row times the weight it was used
/// with, whatever happened before it.
fn eval_script(setup: &str, project: &Option<Vec<usize>>, syms: &[Sym], uses: &[usize]) -> Option<Viol> {
    use sfs_core::input::genotype::{self, Error as GtError};
    let ks = kinds();
    let names: Vec<String> = (0..4).map(|i| format!("s{i}")).collect();
    let mut order: Vec<usize> = (0..4).collect();
    let mut steps: Vec<Step> = Vec::new();
    let shape: Option<Vec<usize>> = project.as_ref().map(|m| m.iter().map(|x| x + 1).collect());
    let zero_shape: Vec<usize> = match &shape {
        Some(s) => s.clone(),
        None => vec![5, 5],
    };
    let mut expect = RefArray::zeros(&zero_shape);
    let mut expect_seen: Vec<Seen> = Vec::new();
    let mut handed = 0usize;
    for sym in syms {
        let by_name: Option<Vec<genotype::Result>> = match sym {
            Sym::Kind(k) => Some(ks[*k].1.iter().map(|c| c.to_result()).collect()),
            Sym::PloidyFirst => Some(vec![genotype::Result::Error(GtError::PloidyError), Cls::G1.to_result(), Cls::G2.to_result(), Cls::G0.to_result()]),
            Sym::PloidyThird => Some(vec![Cls::G1.to_result(), Cls::G2.to_result(), genotype::Result::Error(GtError::PloidyError), Cls::G1.to_result()]),
            _ => None,
        };
        match sym {
            Sym::Kind(k) => {
                let r = ref_create(&[ks[*k].1.clone()], &MAP, project.as_deref());
                if r.skipped == 1 {
                    expect_seen.push(Seen::Insufficient);
                } else {
                    let w = USES[uses.get(handed).copied().unwrap_or(0)].effective();
                    for (e, v) in expect.data.iter_mut().zip(&r.spectrum.data) {
                        *e += w * v;
                    }
                    expect_seen.push(Seen::Counted);
                }
                handed += 1;
            }
            Sym::PloidyFirst | Sym::PloidyThird | Sym::IoError => expect_seen.push(Seen::Error),
            Sym::End => expect_seen.push(Seen::Done),
            Sym::Permute => {}
        }
        match sym {
            Sym::IoError => steps.push(Step::IoError),
            Sym::End => steps.push(Step::End),
            Sym::Permute => {
                order = if order == [0, 1, 2, 3] { PERMUTED.to_vec() } else { vec![0, 1, 2, 3] };
                steps.push(Step::Columns(order.iter().map(|i| names[*i].clone()).collect()));
            }
            _ => {
                let row = by_name.unwrap();
                steps.push(Step::Row(order.iter().map(|i| row[*i]).collect()));
            }
        }
    }
    let calls = expect_seen.len() + 2;
    expect_seen.extend([Seen::Done, Seen::Done]);
    let use_list: Vec<Use> = uses.iter().map(|u| USES[*u]).collect();
    let got = build_site_reader(Box::new(ScriptReader::new(&names, steps)), &MAP, shape.as_deref()).and_then(|mut r| run_script(&mut r, calls, &use_list));
    let ok = match &got {
        Ok((spectrum, seen)) => *seen == expect_seen && spectrum.shape == expect.shape && spectrum.data.iter().zip(&expect.data).all(|(a, b)| (a - b).abs() <= 1e-9),
        Err(_) => false,
    };
    if ok {
        return None;
    }
    let what = if syms.contains(&Sym::Permute) {
        "column-layout-change"
    } else if syms.iter().any(|s| matches!(s, Sym::PloidyFirst | Sym::PloidyThird | Sym::IoError)) {
        "after-error"
    } else if syms.contains(&Sym::End) {
        "after-end"
    } else if uses.iter().any(|u| *u == 5) {
        "partly-consumed-site"
    } else if uses.iter().any(|u| *u == 1) {
        "dropped-site"
    } else if uses.iter().any(|u| *u != 0) {
        "weighted-site"
    } else {
        "plain"
    };
    Some((
        format!("C11|lib|script|{what}|{}", if project.is_some() { "project" } else { "no-projection" }),
        format!("{setup}: script {syms:?} with the sites used as {use_list:?}: calls gave {:?}, expected {expect_seen:?} with spectrum {:?}", got.as_ref().map(|g| (&g.1, &g.0.data)), expect.data),
        J::obj([
            ("kind", J::s("c11-script")),
            ("setup", J::s(setup)),
            ("symbols", J::usizes(&syms.iter().map(|s| script_symbols().iter().position(|x| x == s).unwrap()).collect::<Vec<_>>())),
            ("uses", J::usizes(uses)),
        ]),
    ))
}

/// The scripts of the public reader interface restricted to what another property is about; the
/// violations come back under that property's id. `which`: "plain-create" (no projection, sites
/// added as they come; ends, source errors and layout changes in between), "projected-weights"
/// (projection set-ups; sites dropped and weighted), "ploidy" (records with a non-diploid genotype
/// among ordinary ones), "accounting" (every symbol, sites added as they come).
pub(super) fn scripts_for(prop: &str, which: &str, tier: Tier) -> (u64, Vec<Viol>) {
    let symbols = script_symbols();
    let max_len = tier.pick(3, 4);
    let sus = setups();
    let mut jobs: Vec<(usize, Vec<usize>, Vec<usize>)> = Vec::new();
    for (si, (_, project)) in sus.iter().enumerate() {
        if (which == "plain-create" && project.is_some()) || (which == "projected-weights" && project.is_none()) {
            continue;
        }
        for seq in sequences(symbols.len(), 1, max_len) {
            let syms: Vec<Sym> = seq.iter().map(|k| symbols[*k]).collect();
            let n_rows = syms.iter().filter(|s| matches!(s, Sym::Kind(_))).count();
            let keep = match which {
                "plain-create" => !syms.iter().any(|s| matches!(s, Sym::PloidyFirst | Sym::PloidyThird)),
                "projected-weights" => n_rows >= 1 && !syms.iter().any(|s| matches!(s, Sym::PloidyFirst | Sym::PloidyThird | Sym::IoError | Sym::End)),
                "ploidy" => syms.iter().any(|s| matches!(s, Sym::PloidyFirst | Sym::PloidyThird)) && !syms.iter().any(|s| matches!(s, Sym::IoError | Sym::End | Sym::Permute)),
                _ => true,
            };
            if !keep {
                continue;
            }
            let use_sets: Vec<Vec<usize>> = if which == "projected-weights" {
                if n_rows <= 2 { sequences(USES.len(), n_rows, n_rows) } else { (0..USES.len()).map(|u| vec![u; n_rows]).chain([vec![1, 0, 2], vec![2, 1, 3], vec![4, 0, 1], vec![5, 0, 5]]).collect() }
            } else if which == "accounting" {
                // sites added as they come, and every site retracted (weight -1)
                vec![vec![0; n_rows], vec![2; n_rows]]
            } else {
                vec![vec![0; n_rows]]
            };
            for us in use_sets {
                jobs.push((si, seq.clone(), us));
            }
        }
    }
    let res = par_map(jobs.len(), |i| {
        let (si, seq, us) = &jobs[i];
        let syms: Vec<Sym> = seq.iter().map(|k| symbols[*k]).collect();
        eval_script(sus[*si].0, &sus[*si].1, &syms, us)
    });
    let viols = res
        .into_iter()
        .flatten()
        .map(|(k, w, j)| {
            let mut j = j;
            if let J::Obj(o) = &mut j {
                o[0].1 = J::s(format!("{}-script", prop.to_lowercase()));
            }
            (k.replacen("C11|", &format!("{prop}|"), 1), w, j)
        })
        .collect();
    (jobs.len() as u64, viols)
}

/// Replays a script case recorded by `scripts_for` (or by this property's own part).
pub(super) fn replay_script(case: &J) -> Option<Vec<String>> {
    let setup = case.get("setup")?.as_str()?.to_string();
    let project = setups().into_iter().find(|(n, _)| *n == setup)?.1;
    let symbols = script_symbols();
    let syms: Vec<Sym> = case.get("symbols")?.as_usizes()?.iter().map(|i| symbols[*i]).collect();
    Some(eval_script(&setup, &project, &syms, &case.get("uses")?.as_usizes()?).into_iter().map(|(k, w, _)| format!("{k} :: {w}")).collect())
}

/// create(a) + create(b) = create(a || b) for a cohort under projection where part a fills one cell
/// with thousands of sites and part b adds tiny tail probabilities to the same cell (and the other way
/// round): what a site adds does not depend on what the cell already holds.
fn eval_cohort_split(n_samples: usize, individuals: usize, k: usize, order_ab: bool, scratch: &Scratch) -> Option<Viol> {
    let mk = |invariant: bool, from: usize, to: usize| -> Vec<(usize, Vec<String>)> {
        (from..to)
            .map(|i| {
                let gts: Vec<String> = (0..n_samples)
                    .map(|j| {
                        if invariant {
                            "0/0".to_string()
                        } else {
                            // about five eighths of the chromosomes derived
                            ["1/1", "0/1", "1|1", "0|1", "0/0", "1/1", "1|0", "0/0"][(j + i) % 8].to_string()
                        }
                    })
                    .collect();
                (1000 + i, gts)
            })
            .collect()
    };
    let render = |recs: &[(usize, Vec<String>)]| -> Vec<u8> {
        let mut cs = CallSet::new(n_samples);
        for (pos, gts) in recs {
            cs.push_gts(gts);
            let last = cs.records.len() - 1;
            cs.records[last].pos = *pos;
        }
        to_vcf(&cs).0
    };
    let a = mk(true, 0, k);
    let b = mk(false, k, 2 * k);
    let whole: Vec<(usize, Vec<String>)> = if order_ab { a.iter().chain(&b).cloned().collect() } else { b.iter().chain(&a).cloned().collect() };
    let ps = individuals.to_string();
    let run = |bytes: &[u8]| parse_out(&run_sfs(&["create", "-p", &ps, "--precision", "12"], Stdin::Bytes(bytes), scratch));
    let (ra, rb, rw) = (run(&render(&a)), run(&render(&b)), run(&render(&whole)));
    let ok = match (&ra, &rb, &rw) {
        (Ok(x), Ok(y), Ok(w)) => w.shape == x.shape && w.data.iter().zip(x.data.iter().zip(&y.data)).all(|(w, (x, y))| (w - (x + y)).abs() <= 1e-9 * (x + y).abs() + 1e-11),
        _ => false,
    };
    if ok {
        return None;
    }
    let brief = |r: &Result<RefArray, String>| match r {
        Ok(x) => format!("first cells {:?}", &x.data[..x.data.len().min(3)]),
        Err(e) => e.chars().take(200).collect(),
    };
    Some((
        "C11|cli|cohort-split-not-additive".to_string(),
        format!("{n_samples} samples, -p {individuals}: {k} invariant records {} {k} records with most alleles derived: whole ({}) != parts ({}) + ({})", if order_ab { "followed by" } else { "preceded by" }, brief(&rw), brief(&ra), brief(&rb)),
        J::obj([("kind", J::s("c11-cohort-split")), ("samples", J::u(n_samples)), ("individuals", J::u(individuals)), ("records_per_part", J::u(k)), ("order_ab", J::Bool(order_ab))]),
    ))
}

/// The real VCF reader behind the site reader, with one record damaged (a position that is not a
/// number): the damaged record is an error, and every other record is delivered exactly as in the
/// undamaged file - in particular the one right after it.
fn eval_after_corrupt_record(bad: usize, project: bool) -> Option<Viol> {
    use sfs_core::input::genotype;
    let ks = kinds();
    let picks = [1usize, 5, 8, 9, 12, 13];
    let rows: Vec<&Vec<Cls>> = picks.iter().map(|k| &ks[*k].1).collect();
    let text = String::from_utf8_lossy(&vcf_of(&rows, false)).to_string();
    let mut lines: Vec<String> = text.lines().map(String::from).collect();
    let first_record = lines.iter().position(|l| !l.starts_with('#'))?;
    let fields: Vec<&str> = lines[first_record + bad].split('\t').collect();
    let mut damaged: Vec<String> = fields.iter().map(|f| f.to_string()).collect();
    damaged[1] = "12x".to_string();
    lines[first_record + bad] = damaged.join("\t");
    let bytes = (lines.join("\n") + "\n").into_bytes();
    let shape: Option<Vec<usize>> = if project { Some(vec![3, 3]) } else { None };
    let expect_rows: Vec<Vec<Cls>> = picks.iter().enumerate().filter(|(i, _)| *i != bad).map(|(_, k)| ks[*k].1.clone()).collect();
    let expect = ref_create(&expect_rows, &MAP, shape.as_ref().map(|s| s.iter().map(|x| x - 1).collect::<Vec<_>>()).as_deref());
    let got = catch(|| {
        let g = genotype::reader::Builder::default().verif_build_from_reader(std::io::Cursor::new(bytes)).map_err(|e| e.to_string())?;
        let mut site = build_site_reader(g, &MAP, shape.as_deref())?;
        run_script(&mut site, picks.len() + 2, &[])
    });
    let ok = match &got {
        Ok(Ok((spectrum, seen))) => {
            seen.iter().filter(|s| **s == Seen::Error).count() == 1
                && seen.iter().filter(|s| matches!(s, Seen::Counted | Seen::Insufficient)).count() == picks.len() - 1
                && spectrum.data.iter().zip(&expect.spectrum.data).all(|(a, b)| (a - b).abs() <= 1e-9)
        }
        _ => false,
    };
    if ok {
        return None;
    }
    Some((
        format!("C11|lib|after-corrupt-record|{}", if project { "project" } else { "no-projection" }),
        format!("a 6-record VCF whose record {bad} has a malformed position, read on after the error: {:?}; expected one error, five delivered records and the spectrum {:?}", got.as_ref().map(|r| r.as_ref().map(|(s, seen)| (seen.clone(), s.data.clone()))), expect.spectrum.data),
        J::obj([("kind", J::s("c11-corrupt")), ("bad", J::u(bad)), ("project", J::Bool(project))]),
    ))
}

pub fn run(tier: Tier) -> i32 {
    let mut rep = Report::new("C11", tier, "model_checking");
    let ks = kinds();
    rep.rule = format!(
        "explicit-state search: 2 populations x 2 samples, set-ups {{no projection, project to (2,2), (4,1), (0,2), (3,0), (0,0) chromosomes}}, alphabet of {} site kinds (complete patterns, partially missing in each/both populations, exactly sufficient, insufficient, multiallelic, all missing, and three kinds with equal allele counts but different called totals). State = hook snapshot (counts, totals, #skipped samples, projection scratch buffer) after a record was read and consumed; BFS until no new state appears; on every transition the Site produced must equal (bitwise) the one a fresh reader produces for that kind and the reference. Bounded histories: every sequence up to length {} accumulates to the sum of single-site contributions (hence every permutation agrees). L2: all permutations and split points of a 7-record VCF (one record without a GT key, one with extra INFO/FORMAT fields), also with all records at one POS on alternating contigs. Non-trivial = a transition from a non-initial state.",
        ks.len(),
        tier.pick(3, 4)
    );

    // explicit-state search
    let sts = setups();
    let res = par_map(sts.len(), |i| explore(sts[i].0, &sts[i].1, 6, 5000));
    for ((name, _), s) in sts.iter().zip(res) {
        rep.states += s.states;
        rep.transitions += s.transitions;
        rep.traces += s.transitions;
        if !s.closed {
            rep.cap(format!("{name}: state space did not close within depth 6 / 5000 states"));
        }
        rep.outcome(format!("{name}: {} states, closed={}", s.states, s.closed));
        let n_nontrivial = s.transitions.saturating_sub(ks.len() as u64);
        rep.part(Part {
            name: format!("lib: hidden-state BFS, {name}"),
            evaluations: s.transitions,
            nontrivial: n_nontrivial,
            note: format!("{} states, {} transitions, max depth {}, frontier emptied: {}", s.states, s.transitions, s.max_depth, s.closed),
            exhaustive: s.closed,
            extra: vec![("states".into(), J::Int(s.states as i64)), ("closed".into(), J::Bool(s.closed))],
        });
        for (k, w, j) in s.viols {
            rep.violation(k, w, j);
        }
    }
    rep.sample(J::obj([
        ("setup", J::s("project(2,2)")),
        ("history", J::s("all-missing ; counts(1,1)-totals(4,4) ; counts(1,1)-totals(2,4)")),
        ("checked", J::s("the third site's projected vector equals, bit for bit, what a fresh reader yields for that site alone")),
    ]));

    // bounded histories
    let len = tier.pick(3, 4);
    let seqs = sequences(ks.len(), 0, len);
    let mut jobs: Vec<(usize, usize)> = Vec::new();
    for si in 0..sts.len() {
        for hi in 0..seqs.len() {
            jobs.push((si, hi));
        }
    }
    let res = par_map(jobs.len(), |j| eval_history(sts[jobs[j].0].0, &sts[jobs[j].0].1, &seqs[jobs[j].1]));
    for v in res.into_iter().flatten() {
        rep.violation(v.0, v.1, v.2);
    }
    rep.part(Part {
        name: "lib: all bounded histories".into(),
        evaluations: jobs.len() as u64,
        nontrivial: jobs.iter().filter(|j| seqs[j.1].len() >= 2).count() as u64,
        note: format!("every sequence of length 0..{len} over {} kinds x {} set-ups = sum of single-site contributions", ks.len(), sts.len()),
        exhaustive: true,
        extra: vec![],
    });
    rep.traces += jobs.len() as u64;

    // library scripts: every sequence of up to three symbols (four in the thorough tier) x every way of
    // using the sites handed out, under every set-up
    {
        let symbols = script_symbols();
        let max_len = tier.pick(3, 4);
        let mut jobs: Vec<(usize, Vec<usize>, Vec<usize>)> = Vec::new();
        let sus = setups();
        for (si, _) in sus.iter().enumerate() {
            for seq in sequences(symbols.len(), 1, max_len) {
                let n_rows = seq.iter().filter(|i| matches!(symbols[**i], Sym::Kind(_))).count();
                // uses: every assignment for up to two record symbols, the diagonal for more
                let use_sets: Vec<Vec<usize>> = if n_rows <= 2 { sequences(USES.len(), n_rows, n_rows) } else { (0..USES.len()).map(|u| vec![u; n_rows]).chain([vec![1, 0, 2], vec![0, 1, 0], vec![2, 1, 3], vec![4, 0, 1], vec![5, 0, 5]]).collect() };
                for us in use_sets {
                    jobs.push((si, seq.clone(), us));
                }
            }
        }
        let res = par_map(jobs.len(), |i| {
            let (si, seq, us) = &jobs[i];
            let syms: Vec<Sym> = seq.iter().map(|k| symbols[*k]).collect();
            eval_script(sus[*si].0, &sus[*si].1, &syms, us)
        });
        let mut transitions = 0u64;
        for ((_, seq, _), v) in jobs.iter().zip(res) {
            transitions += seq.len() as u64 + 2;
            if let Some((k, w, j)) = v {
                rep.violation(k, w, j);
            }
        }
        rep.transitions += transitions;
        rep.traces += jobs.len() as u64;
        rep.part(Part {
            name: "lib: scripts over the public reader interface".into(),
            evaluations: jobs.len() as u64,
            nontrivial: jobs.len() as u64,
            note: format!("every sequence of 1..{max_len} symbols over {{six record kinds, a record with a non-diploid genotype in the first / third column, a transient I/O error of the source, the source reporting its end early, a change of the column layout}} x the ways of using the sites handed out {{add, drop, weight -1, weight 0.5, weight 3 then 2, added into a one-cell spectrum that is thrown away}} x 6 set-ups, read_site called two more times than there are steps: every call returns what its own step implies and the spectrum is the weighted sum of the rows' own contributions ({} scripts)", jobs.len()),
            exhaustive: true,
            extra: vec![("depth_bound".into(), J::u(max_len))],
        });
    }
    // the real VCF reader: a malformed record at each position, the caller reads on
    {
        let mut n = 0u64;
        for bad in 0..6usize {
            for project in [false, true] {
                n += 1;
                if let Some((k, w, j)) = eval_after_corrupt_record(bad, project) {
                    rep.violation(k, w, j);
                }
            }
        }
        rep.transitions += 8 * n;
        rep.part(Part {
            name: "lib: reading on after a malformed VCF record".into(),
            evaluations: n,
            nontrivial: n,
            note: "a 6-record VCF through the real VCF reader and site reader, each record in turn given a malformed position, with and without projection, read_site called until the end: exactly one error, the other five records delivered, the spectrum of those five".into(),
            exhaustive: true,
            extra: vec![],
        });
    }
    // L2
    let scratch = Scratch::new("c11");
    let pick: Vec<&Vec<Cls>> = [1usize, 5, 8, 9, 11, 12, 15, 17].iter().map(|&i| &ks[i].1).collect();
    let np = pick.len();
    // every 167th of the 40 320 orders in the quick tier, every 11th in the thorough one (each order
    // costs six processes; all orders would be a quarter of a million processes)
    let perms: Vec<Vec<usize>> = permutations(np).into_iter().step_by(tier.pick(167, 11)).collect();
    let mut l2jobs: Vec<(Vec<usize>, bool)> = Vec::new();
    for p in &perms {
        for proj in [false, true] {
            l2jobs.push((p.clone(), proj));
        }
    }
    let base: Vec<Result<RefArray, String>> = [false, true].iter().map(|&p| cli_create(&pick, p, &scratch)).collect();
    let scratch_ref = &scratch;
    let res = par_map(l2jobs.len(), |i| {
        let (p, proj) = &l2jobs[i];
        let rows: Vec<&Vec<Cls>> = p.iter().map(|&j| pick[j]).collect();
        let got = cli_create(&rows, *proj, &scratch);
        let b = &base[*proj as usize];
        // the same records all at one POS (alternating contigs) must give the same spectrum
        let got_same = cli_create_at(&rows, *proj, true, &scratch);
        let same_ok = match (&got_same, b) {
            (Ok(x), Ok(y)) => x.shape == y.shape && x.data.iter().zip(&y.data).all(|(a, c)| (a - c).abs() <= 1e-9),
            _ => false,
        };
        if !same_ok {
            return Some((
                format!("C11|cli|result-depends-on-positions|{}", if *proj { "project" } else { "no-projection" }),
                format!("records in order {p:?}, all at POS 100 on alternating contigs, give {got_same:?}; at distinct positions {b:?}"),
                J::obj([("kind", J::s("c11-samepos")), ("order", J::usizes(p)), ("project", J::Bool(*proj))]),
            ));
        }
        let ok = match (&got, b) {
            (Ok(x), Ok(y)) => x.shape == y.shape && x.data.iter().zip(&y.data).all(|(a, c)| if *proj { (a - c).abs() <= 1e-9 } else { a == c }),
            _ => false,
        };
        // the same order at trace verbosity: per-record bookkeeping that exists only for logging
        // must not leak from one record into the next
        let got_vv = cli_create_with(&rows, *proj, false, "-vv", scratch_ref);
        let vv_ok = match (&got_vv, b) {
            (Ok(x), Ok(y)) => x.shape == y.shape && x.data.iter().zip(&y.data).all(|(a, c)| (a - c).abs() <= 1e-9),
            _ => false,
        };
        if !vv_ok {
            return Some((
                format!("C11|cli|permutation-changes-result|-vv|{}", if *proj { "project" } else { "no-projection" }),
                format!("records in order {p:?} with -vv give {got_vv:?}, in input order without the flag {b:?}"),
                J::obj([("kind", J::s("c11-perm-vv")), ("order", J::usizes(p)), ("project", J::Bool(*proj))]),
            ));
        }
        if ok {
            None
        } else {
            Some((
                format!("C11|cli|permutation-changes-result|{}", if *proj { "project" } else { "no-projection" }),
                format!("records in order {p:?} give {got:?}, in input order {b:?}"),
                J::obj([("kind", J::s("c11-perm")), ("order", J::usizes(p)), ("project", J::Bool(*proj))]),
            ))
        }
    });
    for v in res.into_iter().flatten() {
        rep.violation(v.0, v.1, v.2);
    }
    // split points
    let mut n_split = 0;
    for proj in [false, true] {
        for p in perms.iter().step_by(24) {
            for cut in 0..=np {
                n_split += 1;
                let rows: Vec<&Vec<Cls>> = p.iter().map(|&j| pick[j]).collect();
                let a = cli_create(&rows[..cut], proj, &scratch);
                let b = cli_create(&rows[cut..], proj, &scratch);
                let whole = cli_create(&rows, proj, &scratch);
                let ok = match (&a, &b, &whole) {
                    (Ok(x), Ok(y), Ok(w)) => w.data.iter().zip(x.data.iter().zip(&y.data)).all(|(w, (x, y))| (w - (x + y)).abs() <= if proj { 1e-9 } else { 0.0 }),
                    _ => false,
                };
                if !ok {
                    rep.violation(
                        format!("C11|cli|split-not-additive|{}", if proj { "project" } else { "no-projection" }),
                        format!("order {p:?} split at {cut}: parts {a:?} + {b:?} != whole {whole:?}"),
                        J::obj([("kind", J::s("c11-split")), ("order", J::usizes(p)), ("cut", J::u(cut)), ("project", J::Bool(proj))]),
                    );
                }
            }
        }
    }
    // long parts: each part fits one compressed block, their concatenation does not (and parts that
    // span several blocks themselves); every container, default and explicit thread counts
    {
        let mut lj: Vec<(usize, usize, usize, bool)> = Vec::new();
        let ks_parts: Vec<usize> = if tier.thorough() { vec![1500, 4000, 40_000] } else { vec![1500, 4000] };
        for &k in &ks_parts {
            for c in 0..crate::gen::Container::all().len() {
                for t in [0usize, 1, 3] {
                    for proj in [false, true] {
                        lj.push((k, c, t, proj));
                    }
                }
            }
        }
        let res = par_map(lj.len(), |i| eval_long_split(lj[i].0, lj[i].1, lj[i].2, lj[i].3, &scratch));
        for v in res.into_iter().flatten() {
            rep.violation(v.0, v.1, v.2);
        }
        rep.part(Part {
            name: "cli: long parts and their concatenation".into(),
            evaluations: 3 * lj.len() as u64,
            nontrivial: 3 * lj.len() as u64,
            note: format!("parts of {ks_parts:?} records each (the shortest fit one BGZF block each, their concatenation needs two) x 4 containers x {{default threads, --threads 1, --threads 3}} x {{no projection, --project-shape 3,3}}: create(a) + create(b) = create(a||b)"),
            exhaustive: true,
            extra: vec![],
        });
    }
    // a cohort under projection: thousands of invariant sites in one cell next to sites that add tiny tail
    // probabilities to it, in both orders
    {
        let k = tier.pick(6000usize, 20_000usize);
        let k_big = tier.pick(20_000usize, 60_000usize);
        let cj: Vec<(usize, usize, bool, usize)> = vec![(20, 5, true, k), (20, 5, false, k), (100, 50, true, k_big), (100, 50, false, k_big)];
        let res = par_map(cj.len(), |i| eval_cohort_split(cj[i].0, cj[i].1, cj[i].3, cj[i].2, &scratch));
        for v in res.into_iter().flatten() {
            rep.violation(v.0, v.1, v.2);
        }
        rep.part(Part {
            name: "cli: cohort parts of very different magnitude".into(),
            evaluations: 3 * cj.len() as u64,
            nontrivial: 3 * cj.len() as u64,
            note: format!("20 samples projected to 5 individuals ({k} + {k} records) and 100 to 50 ({k_big} + {k_big} records): invariant records and records with five eighths of the alleles derived, in both orders: create(a||b) = create(a) + create(b) to 1e-9 relative in every cell (a contribution of 1e-6 to a cell that holds thousands is not dropped)"),
            exhaustive: true,
            extra: vec![],
        });
    }
    // a cohort of 150 samples under projection: tables that depend on sizes must not depend on the
    // order in which records with different numbers of called samples arrive
    {
        let n = 150usize;
        let missing = [25usize, 0, 10, 0];
        let mk = |order: &[usize]| -> Vec<u8> {
            let mut cs = CallSet::new(n);
            for (i, &r) in order.iter().enumerate() {
                let gts: Vec<String> = (0..n)
                    .map(|j| if j < missing[r] { "./.".to_string() } else { ["0/0", "0/1", "1/1", "0/1"][(j * (r + 2) + r) % 4].to_string() })
                    .collect();
                cs.push_gts(&gts);
                let last = cs.records.len() - 1;
                cs.records[last].pos = 500 + i;
            }
            to_vcf(&cs).0
        };
        let run = |order: &[usize]| -> Result<RefArray, String> { parse_out(&run_sfs(&["create", "-p", "100", "--precision", "9"], Stdin::Bytes(&mk(order)), &scratch)) };
        let singles: Vec<Result<RefArray, String>> = (0..4).map(|r| run(&[r])).collect();
        let orders = permutations(4);
        let res = par_map(orders.len(), |i| {
            let got = run(&orders[i]);
            let ok = match (&got, singles.iter().map(|s| s.as_ref()).collect::<Result<Vec<_>, _>>()) {
                (Ok(g), Ok(ss)) => g.data.iter().enumerate().all(|(c, v)| {
                    let sum: f64 = ss.iter().map(|s| s.data[c]).sum();
                    (v - sum).abs() <= 1e-6 * sum.abs() + 1e-8
                }),
                _ => false,
            };
            if ok {
                None
            } else {
                Some((
                    "C11|cli|cohort-order-changes-result".to_string(),
                    format!("150 samples, -p 100, records in order {:?}: {:?} is not the sum of the four single-record runs", orders[i], got.map(|g| g.data.iter().take(6).cloned().collect::<Vec<_>>())),
                    J::obj([("kind", J::s("c11-cohort")), ("order", J::usizes(&orders[i]))]),
                ))
            }
        });
        for v in res.into_iter().flatten() {
            rep.violation(v.0, v.1, v.2);
        }
        // the same without projection, with a record in which nobody is called (150 skipped samples) among them
        let mk_np = |order: &[usize]| -> Vec<u8> {
            let mut cs = CallSet::new(n);
            for (i, &r) in order.iter().enumerate() {
                let gts: Vec<String> = (0..n).map(|j| if r == 0 { "./.".to_string() } else { ["0/0", "0/1", "1/1", "0/1"][(j * (r + 2) + r) % 4].to_string() }).collect();
                cs.push_gts(&gts);
                let last = cs.records.len() - 1;
                cs.records[last].pos = 500 + i;
            }
            to_vcf(&cs).0
        };
        let run_np = |order: &[usize]| -> Result<RefArray, String> { parse_out(&run_sfs(&["create"], Stdin::Bytes(&mk_np(order)), &scratch)) };
        let singles_np: Vec<Result<RefArray, String>> = (0..4).map(|r| run_np(&[r])).collect();
        let res_np = par_map(orders.len(), |i| {
            let got = run_np(&orders[i]);
            let ok = match (&got, singles_np.iter().map(|s| s.as_ref()).collect::<Result<Vec<_>, _>>()) {
                (Ok(g), Ok(ss)) => g.data.iter().enumerate().all(|(c, v)| *v == ss.iter().map(|s| s.data[c]).sum::<f64>()),
                _ => false,
            };
            if ok {
                None
            } else {
                Some((
                    "C11|cli|cohort-order-changes-result|no-projection".to_string(),
                    format!("150 samples, no projection, records in order {:?} (record 0 has no called sample): the spectrum is not the sum of the four single-record runs: {:?}", orders[i], got.map(|g| g.sum())),
                    J::obj([("kind", J::s("c11-cohort")), ("order", J::usizes(&orders[i])), ("project", J::Bool(false))]),
                ))
            }
        });
        for v in res_np.into_iter().flatten() {
            rep.violation(v.0, v.1, v.2);
        }
        // six populations of two samples under projection: records that differ in the first population only
        let n6 = 12usize;
        let mk6 = |order: &[usize]| -> Vec<u8> {
            let mut cs = CallSet::new(n6);
            for (i, &r) in order.iter().enumerate() {
                let gts: Vec<String> = (0..n6)
                    .map(|j| match j {
                        0 => ["0/0", "0/1", "1/1", "./."][r].to_string(),
                        1 => ["0/1", "0/1", "0/0", "1/1"][r].to_string(),
                        5 => "./.".to_string(),
                        _ => ["0/0", "0/1", "1/1"][j % 3].to_string(),
                    })
                    .collect();
                cs.push_gts(&gts);
                let last = cs.records.len() - 1;
                cs.records[last].pos = 900 + i;
            }
            to_vcf(&cs).0
        };
        let sarg6: String = (0..n6).map(|j| format!("s{j}=p{}", j / 2)).collect::<Vec<_>>().join(",");
        let run6 = |order: &[usize]| -> Result<RefArray, String> { parse_out(&run_sfs(&["create", "-s", &sarg6, "--project-shape", "3,3,2,3,3,3", "--precision", "10"], Stdin::Bytes(&mk6(order)), &scratch)) };
        let singles6: Vec<Result<RefArray, String>> = (0..4).map(|r| run6(&[r])).collect();
        let res6 = par_map(orders.len(), |i| {
            let got = run6(&orders[i]);
            let ok = match (&got, singles6.iter().map(|s| s.as_ref()).collect::<Result<Vec<_>, _>>()) {
                (Ok(g), Ok(ss)) => g.data.iter().enumerate().all(|(c, v)| (v - ss.iter().map(|s| s.data[c]).sum::<f64>()).abs() <= 1e-8),
                _ => false,
            };
            if ok {
                None
            } else {
                Some((
                    "C11|cli|six-populations-order-changes-result".to_string(),
                    format!("12 samples in 6 populations, --project-shape 3,3,2,3,3,3, records in order {:?}: not the sum of the four single-record runs: {:?}", orders[i], got.map(|g| g.sum())),
                    J::obj([("kind", J::s("c11-sixpop")), ("order", J::usizes(&orders[i]))]),
                ))
            }
        });
        for v in res6.into_iter().flatten() {
            rep.violation(v.0, v.1, v.2);
        }
        rep.part(Part {
            name: "cli: 150-sample cohort without projection; six populations under projection".into(),
            evaluations: 2 * (orders.len() as u64 + 4),
            nontrivial: 2 * orders.len() as u64,
            note: "150 samples without projection, one of four records with no called sample (150 skipped samples): all 24 orders give exactly the sum of the single-record runs; 12 samples in 6 populations projected to 3x3x2x3x3x3, four records that differ in the first population only: all 24 orders give the sum of the single-record runs".into(),
            exhaustive: true,
            extra: vec![],
        });
        rep.part(Part {
            name: "cli: 150-sample cohort, every order of four records".into(),
            evaluations: orders.len() as u64 + 4,
            nontrivial: orders.len() as u64,
            note: "four records with 250, 300, 280 and 300 called chromosomes, create -p 100: each of the 24 orders must give the sum of the four single-record spectra".into(),
            exhaustive: true,
            extra: vec![],
        });
    }
    rep.part(Part {
        name: "cli: permutations and split points of an 8-record VCF (one record without a GT key, one with extra INFO/FORMAT fields, records with one and with three ALT alleles), also with all records at one POS on alternating contigs and at trace verbosity".into(),
        evaluations: (l2jobs.len() + 3 * n_split) as u64,
        nontrivial: (l2jobs.len() + 3 * n_split) as u64,
        note: format!("{} of the 40 320 permutations (every 167th, thorough every 11th, in lexicographic order) x {{no projection, --project-shape 3,3}}; {} split points (create(a)+create(b) = create(a||b))", perms.len(), n_split),
        exhaustive: true,
        extra: vec![],
    });
    // every ordered pair of records of one 40-sample population under projection to 10 chromosomes,
    // for the records with 76, 78 and 80 called chromosomes and every ALT count (a cache keyed by a
    // summary of a record must not confuse two records): the pair gives the sum of the two alone
    {
        let n_samples = 40usize;
        let m = 10usize;
        let ts: &[usize] = if tier.thorough() { &[72, 74, 76, 78, 80] } else { &[76, 78, 80] };
        let states: Vec<(usize, usize)> = ts.iter().flat_map(|&t| (0..=t).map(move |a| (t, a))).collect();
        let row = |t: usize, a: usize| -> Vec<Cls> {
            let called = t / 2;
            let mut remaining = a;
            (0..n_samples)
                .map(|i| {
                    if i < called {
                        let g = remaining.min(2);
                        remaining -= g;
                        [Cls::G0, Cls::G1, Cls::G2][g]
                    } else {
                        Cls::Missing
                    }
                })
                .collect()
        };
        let map: Vec<Option<usize>> = vec![Some(0); n_samples];
        let single: Vec<Result<RefArray, String>> = par_map(states.len(), |i| {
            let (t, a) = states[i];
            build_site_reader(Box::new(MemReader::from_classes(n_samples, &[row(t, a)])), &map, Some(&[m + 1])).and_then(|mut r| run_reader(&mut r)).map(|c| c.spectrum)
        });
        let n_states = states.len();
        let res = par_map(n_states, |i| {
            let mut out: Vec<Viol> = Vec::new();
            let (t1, a1) = states[i];
            for (j, &(t2, a2)) in states.iter().enumerate() {
                let got = build_site_reader(Box::new(MemReader::from_classes(n_samples, &[row(t1, a1), row(t2, a2)])), &map, Some(&[m + 1])).and_then(|mut r| run_reader(&mut r)).map(|c| c.spectrum);
                let ok = match (&got, &single[i], &single[j]) {
                    (Ok(g), Ok(x), Ok(y)) => g.data.len() == x.data.len() && g.data.iter().zip(x.data.iter().zip(&y.data)).all(|(v, (p, q))| (v - (p + q)).abs() <= 1e-12),
                    _ => false,
                };
                if !ok && out.len() < 2 {
                    out.push((
                        "C11|lib|pair-not-additive|40-sample-cohort".to_string(),
                        format!("records with ({t1} called, {a1} ALT) then ({t2} called, {a2} ALT) chromosomes among 40 samples, projected to {m}: {:?}; the two records alone give {:?} and {:?}", got.as_ref().map(|g| &g.data), single[i].as_ref().map(|g| &g.data), single[j].as_ref().map(|g| &g.data)),
                        J::obj([("kind", J::s("c11-cohort-pair")), ("first", J::usizes(&[t1, a1])), ("second", J::usizes(&[t2, a2]))]),
                    ));
                }
            }
            out
        });
        for v in res.into_iter().flatten() {
            rep.violation(v.0, v.1, v.2);
        }
        rep.part(Part {
            name: "lib: ordered pairs of records of a 40-sample cohort under projection".into(),
            evaluations: (n_states * n_states) as u64,
            nontrivial: (n_states * n_states) as u64,
            note: format!("{n_states} records (called chromosomes {ts:?}, every ALT count) of one population of 40 samples, every ordered pair as a two-record stream projected to {m} chromosomes: the sum of the two one-record results within 1e-12"),
            exhaustive: true,
            extra: vec![],
        });
    }
    rep.assumptions = vec![
        "the BFS key is the hook snapshot; hidden state outside the snapshot is still exercised because every transition is executed from a representative history and all histories up to the length bound are run as well".into(),
        "row spellings: ".to_string() + &ks.iter().map(|(n, r)| format!("{n}={}", row_str(r))).collect::<Vec<_>>().join(" "),
    ];
    rep.finish()
}

pub fn replay(case: &J) -> Option<Vec<String>> {
    match case.get("kind")?.as_str()? {
        "c11-history" => {
            let setup = case.get("setup")?.as_str()?.to_string();
            let (name, project) = setups().into_iter().find(|s| s.0 == setup)?;
            let hist = case.get("history")?.as_usizes()?;
            let mut out = Vec::new();
            if let Some(v) = eval_history(name, &project, &hist) {
                out.push(format!("{} :: {}", v.0, v.1));
            }
            if let (Some(&k), Ok((obs, _))) = (hist.last(), execute(&hist, &project)) {
                let fresh = execute(&[k], &project).ok().and_then(|(o, _)| o.first().cloned());
                let last = obs.last().cloned();
                if let (Some(f), Some(l)) = (fresh, last) {
                    if !obs_same(&f, &l) || !obs_matches_reference(&l, k, &project) {
                        out.push(format!("C11|lib|site-depends-on-history :: last site yields {l:?}, fresh reader {f:?}"));
                    }
                }
            }
            Some(out)
        }
        "c11-script" => replay_script(case),
        "c11-corrupt" => Some(eval_after_corrupt_record(case.get("bad")?.as_i64()? as usize, matches!(case.get("project"), Some(J::Bool(true)))).into_iter().map(|(k, w, _)| format!("{k} :: {w}")).collect()),
        "c11-cohort-split" => {
            let scratch = Scratch::new("c11r");
            Some(eval_cohort_split(case.get("samples")?.as_i64()? as usize, case.get("individuals")?.as_i64()? as usize, case.get("records_per_part")?.as_i64()? as usize, matches!(case.get("order_ab"), Some(J::Bool(true))), &scratch).into_iter().map(|(k, w, _)| format!("{k} :: {w}")).collect())
        }
        "c11-long-split" => {
            let scratch = Scratch::new("c11r");
            Some(
                eval_long_split(case.get("records_per_part")?.as_i64()? as usize, case.get("container")?.as_i64()? as usize, case.get("threads")?.as_i64()? as usize, matches!(case.get("project")?, J::Bool(true)), &scratch)
                    .into_iter()
                    .map(|(k, w, _)| format!("{k} :: {w}"))
                    .collect(),
            )
        }
        "c11-perm" | "c11-split" | "c11-perm-vv" => {
            let ks = kinds();
            let pick: Vec<&Vec<Cls>> = [1usize, 5, 8, 9, 11, 12, 15, 17].iter().map(|&i| &ks[i].1).collect();
            let order = case.get("order")?.as_usizes()?;
            let proj = matches!(case.get("project"), Some(J::Bool(true)));
            let scratch = Scratch::new("c11r");
            let rows: Vec<&Vec<Cls>> = order.iter().map(|&j| pick[j]).collect();
            let whole = cli_create(&rows, proj, &scratch);
            let tol = if proj { 1e-9 } else { 0.0 };
            if case.get("kind")?.as_str()? == "c11-perm-vv" {
                let base = cli_create(&pick, proj, &scratch);
                let vv = cli_create_with(&rows, proj, false, "-vv", &scratch);
                let ok = match (&vv, &base) {
                    (Ok(x), Ok(y)) => x.shape == y.shape && x.data.iter().zip(&y.data).all(|(a, c)| (a - c).abs() <= 1e-9),
                    _ => false,
                };
                Some(if ok { vec![] } else { vec![format!("C11|cli|permutation-changes-result|-vv :: order {order:?}: {vv:?} vs input order {base:?}")] })
            } else if case.get("kind")?.as_str()? == "c11-perm" {
                let base = cli_create(&pick, proj, &scratch);
                let ok = match (&whole, &base) {
                    (Ok(x), Ok(y)) => x.shape == y.shape && x.data.iter().zip(&y.data).all(|(a, c)| (a - c).abs() <= tol),
                    _ => false,
                };
                Some(if ok { vec![] } else { vec![format!("C11|cli|permutation-changes-result :: order {order:?}: {whole:?} vs input order {base:?}")] })
            } else {
                let cut = case.get("cut")?.as_i64()? as usize;
                let a = cli_create(&rows[..cut], proj, &scratch);
                let b = cli_create(&rows[cut..], proj, &scratch);
                let ok = match (&a, &b, &whole) {
                    (Ok(x), Ok(y), Ok(w)) => w.data.iter().zip(x.data.iter().zip(&y.data)).all(|(w, (x, y))| (w - (x + y)).abs() <= tol),
                    _ => false,
                };
                Some(if ok { vec![] } else { vec![format!("C11|cli|split-not-additive :: order {order:?} cut {cut}: {a:?} + {b:?} != {whole:?}")] })
            }
        }
        _ => None,
    }
}
