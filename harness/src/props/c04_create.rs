//! C04 (second sentence): marginalizing population B out of a joint spectrum created from
//! complete data equals the spectrum created for the remaining populations alone.

use crate::{
    cli::{run_sfs, samples_spellings, Scratch, Stdin},
    createmodel::{all_rows, pop_sizes, sample_arg, Cls},
    enumerate::{sample_maps, subsets},
    gen::{to_vcf, CallSet},
    json::J,
    par::par_map,
    subject::{join_usizes, parse_out},
    verdict::{Part, Report, Tier},
};

pub fn run_create_relation(rep: &mut Report, tier: Tier, scratch: &Scratch) {
    let s = 4;
    // complete call set: every row over {0,1,2}^4, row i repeated (i % 3 + 1) times
    let mut cs = CallSet::new(s);
    for (i, row) in all_rows(s, &Cls::CALLED).iter().enumerate() {
        for rep_i in 0..(i % 3 + 1) {
            let gts: Vec<&str> = row.iter().enumerate().map(|(j, c)| c.spell(i + j + rep_i)).collect();
            cs.push_gts(&gts);
        }
    }
    let vcf = to_vcf(&cs).0;
    let path = scratch.file(".vcf", &vcf);
    let path_s = path.to_str().unwrap().to_string();

    let maps = sample_maps(s, 4);
    let mut cases: Vec<(Vec<Option<usize>>, Vec<usize>)> = Vec::new();
    for m in &maps {
        let d = pop_sizes(m).len();
        if d < 2 {
            continue;
        }
        for rem in subsets(d) {
            if rem.is_empty() || rem.len() == d {
                continue;
            }
            cases.push((m.clone(), rem));
        }
    }
    let _ = tier;
    let res = par_map(cases.len(), |i| {
        let (m, rem) = &cases[i];
        // the joint spectrum over every spelling of the sample list in turn (list, list in parts,
        // samples file with LF / CRLF line ends, with and without the last one)
        let spellings = samples_spellings(&sample_arg(m), scratch);
        let (spelling, spelled) = &spellings[i % spellings.len()];
        let mut jargs: Vec<&str> = vec!["create"];
        jargs.extend(spelled.iter().map(|s| s.as_str()));
        jargs.push(&path_s);
        let joint = run_sfs(&jargs, Stdin::Null, scratch);
        let marg = if joint.ok() {
            run_sfs(
                &["view", "-m", &join_usizes(rem, ",")],
                Stdin::Bytes(&joint.stdout),
                scratch,
            )
        } else {
            joint.clone()
        };
        let reduced: Vec<Option<usize>> = m
            .iter()
            .map(|p| p.and_then(|p| if rem.contains(&p) { None } else { Some(p) }))
            .collect();
        let direct = run_sfs(&["create", "-s", &sample_arg(&reduced), &path_s], Stdin::Null, scratch);
        let a = parse_out(&marg);
        let b = parse_out(&direct);
        let ok = matches!((&a, &b), (Ok(x), Ok(y)) if x == y);
        if ok {
            None
        } else {
            Some((
                "C04|cli|create-then-marginalize-differs".to_string(),
                format!(
                    "create -s {} (as {spelling}) | view -m {} = {a:?} but create -s {} = {b:?}",
                    sample_arg(m),
                    join_usizes(rem, ","),
                    sample_arg(&reduced)
                ),
                J::obj([
                    ("kind", J::s("c04-create")),
                    ("samples", J::s(sample_arg(m))),
                    ("spelling", J::s(*spelling)),
                    ("remove", J::usizes(rem)),
                    ("vcf", J::s(String::from_utf8_lossy(&vcf))),
                ]),
            ))
        }
    });
    let n = cases.len() as u64;
    for v in res.into_iter().flatten() {
        rep.violation(v.0, v.1, v.2);
    }
    rep.part(Part {
        name: "cli: create|view -m == create of remaining populations".into(),
        evaluations: n,
        nontrivial: n,
        note: format!(
            "all {} maps of 4 samples with >=2 populations x every proper subset of populations, {}-record complete call set; the joint run takes the sample list in 7 spellings in turn (list, list in parts, samples file with LF / CRLF / mixed line ends, with and without the final one)",
            maps.len(),
            cs.records.len()
        ),
        exhaustive: true,
        extra: vec![],
    });
}
