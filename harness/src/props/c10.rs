//! C10 — every record is counted once or reported skipped; strict mode; no partial output.
//!
//! Model checking over record streams: all streams up to a length bound over an alphabet of site
//! kinds, in three modes, each executed on the real binary and compared with the reference.

use crate::refmodel::RefArray;
use crate::{
    cli::{parse_f64_tokens, parse_text_spectrum, run_sfs, Out, Scratch, Stdin},
    createmodel::{ref_create, Cls},
    enumerate::sequences,
    json::J,
    par::par_map,
    verdict::{Part, Report, Tier},
};

type Viol = (String, String, J);

#[derive(Clone, Copy, Debug, PartialEq, Eq)]
enum Sym {
    Counted,
    MissingP0,
    Multiallelic,
    ExactlySufficient,
    InsufficientP0,
    InsufficientP1,
    Ploidy,
    /// a non-diploid genotype in a later column than a missing one, in the same record
    PloidyAfterMissing,
    Corrupt,
    /// a legal record without genotypes (FORMAT without a GT key, or no FORMAT field at all): nobody is called, so it is a skipped site
    NoGt,
}

const ALPHABET: [Sym; 10] = [
    Sym::Counted,
    Sym::MissingP0,
    Sym::Multiallelic,
    Sym::ExactlySufficient,
    Sym::InsufficientP0,
    Sym::InsufficientP1,
    Sym::Ploidy,
    Sym::PloidyAfterMissing,
    Sym::Corrupt,
    Sym::NoGt,
];

impl Sym {
    fn letter(self) -> char {
        match self {
            Sym::Counted => 'C',
            Sym::MissingP0 => 'M',
            Sym::Multiallelic => 'U',
            Sym::ExactlySufficient => 'X',
            Sym::InsufficientP0 => 'i',
            Sym::InsufficientP1 => 'j',
            Sym::Ploidy => 'P',
            Sym::PloidyAfterMissing => 'Q',
            Sym::Corrupt => 'K',
            Sym::NoGt => 'N',
        }
    }
    /// genotype classes of the 4 samples (s0,s1 in p0; s2,s3 in p1); None for failing symbols
    fn classes(self, variant: usize) -> Option<Vec<Cls>> {
        use Cls::*;
        Some(match self {
            Sym::Counted => [vec![G1, G0, G2, G1], vec![G0, G0, G0, G0], vec![G2, G1, G0, G2]][variant % 3].clone(),
            Sym::MissingP0 => vec![Missing, G1, G0, G2],
            Sym::Multiallelic => vec![G1, Multi, G0, G0],
            Sym::ExactlySufficient => vec![G0, Missing, G1, Missing],
            Sym::InsufficientP0 => vec![Missing, Multi, G1, G2],
            Sym::InsufficientP1 => vec![G1, G0, Missing, Missing],
            Sym::NoGt => vec![Missing, Missing, Missing, Missing],
            Sym::Ploidy | Sym::PloidyAfterMissing | Sym::Corrupt => return None,
        })
    }
}

#[derive(Clone, Copy, Debug, PartialEq, Eq)]
enum Mode {
    Default,
    Strict,
    Project,
}

const MAP: [Option<usize>; 4] = [Some(0), Some(0), Some(1), Some(1)];
const SAMPLES: &str = "s0=p0,s1=p0,s2=p1,s3=p1";
const TARGET: [usize; 2] = [2, 2];

/// Where the records sit: at pairwise different positions, or all at one contig:position (as when a
/// multiallelic site is split over several records) - the accounting must not depend on it.
#[derive(Clone, Copy, Debug, PartialEq, Eq)]
enum Pos {
    Unique,
    Same,
    /// positions as `Unique`, but the stream is supplied as uncompressed BCF whose header lists the
    /// contigs in the reverse of their IDX order (records refer to contigs by IDX)
    BcfPermutedContigs,
}

fn site_name(i: usize, pos: Pos) -> (String, usize) {
    match pos {
        Pos::Unique | Pos::BcfPermutedContigs => (format!("chr{}", i % 2 + 1), 10 + i),
        Pos::Same => ("chr1".to_string(), 10),
    }
}

fn vcf_for(stream: &[Sym], posn: Pos) -> String {
    let mut s = String::from("##fileformat=VCFv4.3\n##FILTER=<ID=PASS,Description=\"All filters passed\">\n##contig=<ID=chr1,length=1000>\n##contig=<ID=chr2,length=1000>\n##FORMAT=<ID=GT,Number=1,Type=String,Description=\"Genotype\">\n##FORMAT=<ID=DP,Number=1,Type=Integer,Description=\"Depth\">\n#CHROM\tPOS\tID\tREF\tALT\tQUAL\tFILTER\tINFO\tFORMAT\ts0\ts1\ts2\ts3\n");
    for (i, sym) in stream.iter().enumerate() {
        let (chrom, pos) = site_name(i, posn);
        match sym {
            Sym::Corrupt => s.push_str(&format!("{chrom}\tnot-a-position\t.\tA\tC,G\t.\t.\t.\tGT\t0/0\t0/0\t0/0\t0/0\n")),
            // at even stream positions FORMAT holds only DP, at odd ones the record has no FORMAT field at all
            Sym::NoGt if i % 2 == 0 => s.push_str(&format!("{chrom}\t{pos}\t.\tA\tC,G\t.\t.\t.\tDP\t5\t7\t.\t12\n")),
            Sym::NoGt => s.push_str(&format!("{chrom}\t{pos}\t.\tA\tC,G\t.\t.\t.\t.\t.\t.\t.\t.\n")),
            Sym::Ploidy => s.push_str(&format!("{chrom}\t{pos}\t.\tA\tC,G\t.\t.\t.\tGT\t0/1\t0\t0/0\t0/0\n")),
            Sym::PloidyAfterMissing => s.push_str(&format!("{chrom}\t{pos}\t.\tA\tC,G\t.\t.\t.\tGT\t./.\t0/1\t0/1/1\t1/2\n")),
            other => {
                let gts: Vec<&str> = other.classes(i).unwrap().iter().enumerate().map(|(j, c)| c.spell(i + j)).collect();
                s.push_str(&format!("{chrom}\t{pos}\t.\tA\tC,G\t.\t.\t.\tGT\t{}\n", gts.join("\t")));
            }
        }
    }
    s
}

fn stream_str(stream: &[Sym]) -> String {
    stream.iter().map(|s| s.letter()).collect()
}

#[derive(Debug)]
enum Expected {
    /// success: spectrum values, number skipped, number of records
    Success { data: Vec<f64>, shape: Vec<usize>, skipped: usize, records: usize },
    /// failure at record index; `named` = the message must name contig:pos of that record
    Failure { at: usize, named: bool },
}

fn expectation(stream: &[Sym], mode: Mode) -> Expected {
    let project = mode == Mode::Project;
    // first failing position in input order
    for (i, sym) in stream.iter().enumerate() {
        match sym {
            Sym::Ploidy | Sym::PloidyAfterMissing => return Expected::Failure { at: i, named: true },
            Sym::Corrupt => return Expected::Failure { at: i, named: false },
            other => {
                if mode == Mode::Strict {
                    let row = other.classes(i).unwrap();
                    let r = ref_create(&[row], &MAP, None);
                    if r.skipped == 1 {
                        return Expected::Failure { at: i, named: true };
                    }
                }
            }
        }
    }
    let rows: Vec<Vec<Cls>> = stream.iter().enumerate().map(|(i, s)| s.classes(i).unwrap()).collect();
    let r = ref_create(&rows, &MAP, if project { Some(&TARGET) } else { None });
    Expected::Success { data: r.spectrum.data, shape: r.spectrum.shape, skipped: r.skipped, records: rows.len() }
}

fn parse_skipped(stderr: &str) -> Option<(usize, usize)> {
    let rest = stderr.split("Skipped ").nth(1)?;
    let (x, rest) = rest.split_once('/')?;
    let y: String = rest.chars().take_while(|c| c.is_ascii_digit()).collect();
    Some((x.trim().parse().ok()?, y.parse().ok()?))
}

/// The stream as BCF (no corrupt symbol: a BCF record cannot carry an unparseable position).
fn bcf_for(stream: &[Sym]) -> Vec<u8> {
    let mut cs = crate::gen::CallSet::new(4);
    cs.contig_lines_reversed = true;
    for (i, sym) in stream.iter().enumerate() {
        let gts: Vec<String> = match sym {
            Sym::Corrupt => unreachable!("no corrupt records in BCF streams"),
            Sym::NoGt => vec![if i % 2 == 0 { crate::gen::NO_GT_KEY } else { crate::gen::NO_FORMAT }.to_string(); 4],
            Sym::Ploidy => vec!["0/1".into(), "0".into(), "0/0".into(), "0/0".into()],
            Sym::PloidyAfterMissing => vec!["./.".into(), "0/1".into(), "0/1/1".into(), "1/2".into()],
            other => other.classes(i).unwrap().iter().enumerate().map(|(j, c)| c.spell(i + j).to_string()).collect(),
        };
        cs.records.push(crate::gen::Record { chrom: i % 2, pos: 10 + i, alts: vec!["C", "G"], gts, decorated: false });
    }
    crate::gen::render(&cs, crate::gen::Container::RawBcf, &crate::gen::Layout::Single)
}

fn run_mode(stream: &[Sym], mode: Mode, posn: Pos, scratch: &Scratch) -> Out {
    let vcf = if posn == Pos::BcfPermutedContigs { bcf_for(stream) } else { vcf_for(stream, posn).into_bytes() };
    let mut args = vec!["create", "-s", SAMPLES];
    match mode {
        Mode::Default => {}
        Mode::Strict => args.push("--strict"),
        Mode::Project => args.extend(["--project-shape", "3,3", "--precision", "9"]),
    }
    run_sfs(&args, Stdin::Bytes(&vcf), scratch)
}

fn eval(stream: &[Sym], mode: Mode, posn: Pos, scratch: &Scratch) -> Vec<Viol> {
    let o = run_mode(stream, mode, posn, scratch);
    let exp = expectation(stream, mode);
    let mut problems: Vec<(String, String)> = Vec::new();
    let stderr = o.stderr_str();
    match &exp {
        Expected::Failure { at, named } => {
            let kind = format!("{:?}", stream[*at]);
            if o.ok() {
                problems.push((format!("failing-run-succeeded|{kind}"), format!("run must fail at record {at} ({kind}) but exited 0 with stdout {:?}", o.stdout_str())));
            } else {
                if !o.stdout.is_empty() {
                    problems.push((format!("failing-run-wrote-stdout|{kind}"), format!("failing run wrote {:?} to stdout", o.stdout_str())));
                }
                if o.panicked() || !o.diagnosed_error() {
                    problems.push((format!("failure-not-diagnosed|{kind}"), format!("{} {}", o.status_str(), stderr.trim())));
                }
                if *named {
                    let (c, p) = site_name(*at, posn);
                    if !stderr.contains(&format!("'{c}:{p}'")) {
                        problems.push((format!("failure-names-wrong-site|{kind}"), format!("the first failing record is '{c}:{p}' but stderr is {:?}", stderr.trim())));
                    }
                }
            }
        }
        Expected::Success { data, shape, skipped, records } => {
            if !o.ok() {
                problems.push(("valid-run-failed".into(), format!("{} {}", o.status_str(), stderr.trim())));
            } else {
                match parse_text_spectrum(&o.stdout_str()).and_then(|(s, t)| parse_f64_tokens(&t).map(|v| (s, v))) {
                    Ok((s, vals)) => {
                        let tol = if mode == Mode::Project { 1e-8 } else { 0.0 };
                        if &s != shape || vals.len() != data.len() || vals.iter().zip(data).any(|(a, b)| (a - b).abs() > tol) {
                            problems.push(("spectrum-wrong".into(), format!("stdout {:?}, expected shape {shape:?} values {data:?}", o.stdout_str())));
                        }
                        let mass: f64 = vals.iter().sum();
                        let reported = parse_skipped(&stderr);
                        let (x, y) = reported.unwrap_or((0, *records));
                        if (mass + x as f64 - *records as f64).abs() > 1e-6 {
                            problems.push(("mass-plus-skipped-not-records".into(), format!("mass {mass} + reported skipped {x} != {records} records")));
                        }
                        if x != *skipped {
                            problems.push(("skipped-count-wrong".into(), format!("reported {x} skipped sites, expected {skipped}; stderr {:?}", stderr.trim())));
                        }
                        if reported.is_some() && y != *records {
                            problems.push(("total-count-wrong".into(), format!("reported {x}/{y} but {records} records were read")));
                        }
                        if *skipped > 0 && reported.is_none() {
                            problems.push(("skipped-not-reported".into(), format!("{skipped} sites skipped but no 'Skipped X/Y' line on stderr: {:?}", stderr.trim())));
                        }
                    }
                    Err(e) => problems.push(("stdout-unparsable".into(), e)),
                }
            }
        }
    }
    // strict without a failing record: identical to the default run
    if mode == Mode::Strict && matches!(exp, Expected::Success { .. }) && o.ok() {
        let d = run_mode(stream, Mode::Default, posn, scratch);
        if d.stdout != o.stdout {
            problems.push(("strict-differs-from-default".into(), format!("strict stdout {:?}, default stdout {:?}", o.stdout_str(), d.stdout_str())));
        }
    }
    problems
        .into_iter()
        .map(|(k, w)| {
            (
                format!("C10|cli|{k}|{mode:?}{}", match posn { Pos::Same => "|same-position", Pos::BcfPermutedContigs => "|bcf-permuted-contigs", Pos::Unique => "" }),
                format!("stream {} in mode {mode:?} (positions {posn:?}): {w}", stream_str(stream)),
                J::obj([
                    ("kind", J::s("c10")),
                    ("stream", J::s(stream_str(stream))),
                    ("mode", J::s(format!("{mode:?}"))),
                    ("positions", J::s(format!("{posn:?}"))),
                    ("vcf", J::s(vcf_for(stream, posn))),
                ]),
            )
        })
        .collect()
}

/// What a run with verbosity flags must share with the run without them: success or failure, stdout,
/// and - unless the flags lower the verbosity - the `Skipped X/Y` report and the site a failure names.
fn verbosity_ok(base: &Out, o: &Out, flags: &str) -> bool {
    if !(o.ok() == base.ok() && o.stdout == base.stdout && (o.ok() || o.diagnosed_error())) {
        return false;
    }
    let quiet = flags.matches('q').count();
    let verbose = flags.matches("-v").count() + flags.matches("vv").count();
    if quiet > 0 && verbose == 0 {
        return true;
    }
    if flags.contains('q') {
        return true;
    }
    let (bs, os) = (base.stderr_str(), o.stderr_str());
    if parse_skipped(&bs) != parse_skipped(&os) {
        return false;
    }
    if !base.ok() {
        // the site named by the failure: the first quoted contig:position
        let named = |s: &str| -> Option<String> { s.split('\'').find(|t| t.contains(':') && t.rsplit(':').next().map_or(false, |p| !p.is_empty() && p.chars().all(|c| c.is_ascii_digit()))).map(|t| t.to_string()) };
        let last_error = |s: &str| -> String { s.lines().filter(|l| l.to_lowercase().contains("error")).last().unwrap_or("").to_string() };
        if named(&last_error(&bs)) != named(&last_error(&os)) {
            return false;
        }
    }
    true
}

fn eval_environment(st: &[Sym], m: Mode, e: usize, scratch: &Scratch) -> Option<Viol> {
    let vcf = vcf_for(st, Pos::Unique);
    let mut args = vec!["create", "-s", SAMPLES];
    match m {
        Mode::Default => {}
        Mode::Strict => args.push("--strict"),
        Mode::Project => args.extend(["--project-shape", "3,3", "--precision", "9"]),
    }
    let base = run_sfs(&args, Stdin::Bytes(vcf.as_bytes()), scratch);
    let (name, env) = crate::cli::ENVIRONMENTS[e];
    let o = crate::cli::run_sfs_env(&args, Stdin::Bytes(vcf.as_bytes()), scratch, env, &crate::cli::Limits::default());
    if verbosity_ok(&base, &o, "") {
        return None;
    }
    Some((
        format!("C10|cli|environment-changes-result|{m:?}|{name}"),
        format!("stream {} in mode {m:?}: with {env:?} in the environment the run gives {} stdout {:?} stderr {:?}; without it {} stdout {:?} stderr {:?}", stream_str(st), o.status_str(), o.stdout_str(), o.stderr_str().trim(), base.status_str(), base.stdout_str(), base.stderr_str().trim()),
        J::obj([("kind", J::s("c10-environment")), ("stream", J::s(stream_str(st))), ("mode", J::s(format!("{m:?}"))), ("environment", J::u(e))]),
    ))
}

fn eval_cohort(n: usize, p: usize, scratch: &Scratch) -> Option<Viol> {
    eval_cohort_records(n, p, 8, scratch)
}

fn eval_cohort_records(n: usize, p: usize, records: usize, scratch: &Scratch) -> Option<Viol> {
    eval_cohort_records_at(n, p, records, "9", scratch)
}

fn eval_cohort_records_at(n: usize, p: usize, records: usize, precision: &str, scratch: &Scratch) -> Option<Viol> {
    let mut cs = crate::gen::CallSet::new(n);
    let mut expect_skipped = 0usize;
    for r in 0..records {
        let n_missing = [0usize, 3, 0, 10, 1, 0, 6, 0][r % 8];
        let gts: Vec<String> = (0..n)
            .map(|j| if j < n_missing { "./.".to_string() } else { ["0/0", "0/1", "1/1", "1|0"][(j * (r + 1) + r) % 4].to_string() })
            .collect();
        if 2 * (n - n_missing) < 2 * p {
            expect_skipped += 1;
        }
        cs.push_gts(&gts);
    }
    let vcf = crate::gen::to_vcf(&cs).0;
    let ps = p.to_string();
    let o = run_sfs(&["create", "-p", &ps, "--precision", precision], Stdin::Bytes(&vcf), scratch);
    let stderr = o.stderr_str();
    let verdict: Result<(), String> = (|| {
        if !o.ok() {
            return Err(format!("{} {}", o.status_str(), stderr.trim()));
        }
        let (_, toks) = parse_text_spectrum(&o.stdout_str())?;
        let vals = parse_f64_tokens(&toks)?;
        if vals.iter().any(|v| !v.is_finite() || *v < 0.0) {
            return Err("non-finite or negative entry".into());
        }
        let mass: f64 = vals.iter().sum();
        let (x, y) = parse_skipped(&stderr).unwrap_or((0, records));
        if x != expect_skipped || y != records {
            return Err(format!("reported skipped {x}/{y}, expected {expect_skipped}/{records}"));
        }
        // each counted record weighs exactly one: rounding is ~1e-13 per record, a dropped tail is ~1e-7
        if (mass + x as f64 - records as f64).abs() > 1e-9 * records as f64 {
            return Err(format!("mass {mass:.12} + skipped {x} != {records} records"));
        }
        Ok(())
    })();
    verdict.err().map(|e| {
        (
            format!("C10|cli|cohort-mass-not-conserved|n{}{}", if n > 85 { ">85" } else { "<=85" }, if records > 8 { "|long" } else { "" }),
            format!("{n} samples, {records} records, create -p {p}: {e}"),
            J::obj([("kind", J::s("c10-cohort")), ("samples", J::u(n)), ("individuals", J::u(p)), ("records", J::u(records)), ("precision", J::s(precision))]),
        )
    })
}

/// Spectra of several thousand cells (three populations of eight samples): what reaches stdout is
/// what was counted - mass + skipped = records also when the output crosses the writer's block sizes.
fn eval_wide_shape(project: Option<&str>, scratch: &Scratch) -> Option<Viol> {
    let n = 24usize;
    let mut cs = crate::gen::CallSet::new(n);
    let records = 40usize;
    let mut expect_skipped = 0usize;
    for r in 0..records {
        let missing_in_p1 = [0usize, 0, 2, 0, 8, 0, 1, 0][r % 8];
        let gts: Vec<String> = (0..n).map(|j| if (8..8 + missing_in_p1).contains(&j) { "./.".to_string() } else { ["0/0", "0/1", "1/1", "1|0", "0|0"][(j * (r + 3) + r * r) % 5].to_string() }).collect();
        // without projection any missing sample skips the site; with it only population 1 falling below its target
        let skipped = match project {
            None => missing_in_p1 > 0,
            Some(p) => 2 * (8 - missing_in_p1) < p.split(',').nth(1).and_then(|t| t.parse::<usize>().ok()).unwrap_or(17) - 1,
        };
        if skipped {
            expect_skipped += 1;
        }
        cs.push_gts(&gts);
    }
    let vcf = crate::gen::to_vcf(&cs).0;
    let sarg: String = (0..n).map(|j| format!("s{j}=p{}", j / 8)).collect::<Vec<_>>().join(",");
    let mut args = vec!["create", "-s", &sarg];
    if let Some(p) = project {
        args.extend(["--project-shape", p, "--precision", "9"]);
    }
    let o = run_sfs(&args, Stdin::Bytes(&vcf), scratch);
    let stderr = o.stderr_str();
    let verdict: Result<(), String> = (|| {
        if !o.ok() {
            return Err(format!("{} {}", o.status_str(), stderr.trim()));
        }
        let (shape, toks) = parse_text_spectrum(&o.stdout_str())?;
        let cells: usize = shape.iter().product();
        if toks.len() != cells {
            return Err(format!("{} values for shape {shape:?} ({cells} cells)", toks.len()));
        }
        let vals = parse_f64_tokens(&toks)?;
        let mass: f64 = vals.iter().sum();
        let (x, y) = parse_skipped(&stderr).unwrap_or((0, records));
        if x != expect_skipped || y != records {
            return Err(format!("reported skipped {x}/{y}, expected {expect_skipped}/{records}"));
        }
        if (mass + x as f64 - records as f64).abs() > 1e-9 * records as f64 {
            return Err(format!("mass {mass:.9} + skipped {x} != {records} records"));
        }
        Ok(())
    })();
    verdict.err().map(|e| {
        (
            format!("C10|cli|wide-shape-mass-not-conserved|{}", if project.is_some() { "project" } else { "no-projection" }),
            format!("24 samples in 3 populations, {records} records, {args:?}: {e}"),
            J::obj([("kind", J::s("c10-wide")), ("project", project.map_or(J::Null, J::s))]),
        )
    })
}

fn parse_stream(s: &str) -> Option<Vec<Sym>> {
    s.chars().map(|c| ALPHABET.iter().copied().find(|a| a.letter() == c)).collect()
}

pub fn run(tier: Tier) -> i32 {
    let mut rep = Report::new("C10", tier, "model_checking");
    rep.rule = "record streams over the alphabet {counted, missing-in-p0 (projectable), multiallelic, exactly-sufficient, insufficient-in-p0, insufficient-in-p1, ploidy-error, ploidy-error-after-a-missing-sample, corrupt-line, record-without-GT} for 4 samples in 2 populations; all streams of length 0..3 (thorough 0..4) plus all length-4 (thorough length-5) streams over a reduced 5-symbol alphabet; x modes {default, --strict, --project-shape 3,3} x positions {pairwise different, all records at one contig:position} and, for streams without a corrupt line, the same stream as BCF whose header lists the contigs against their IDX order; each executed on the real binary. Oracle: reference create; mass + reported skipped = records; Y of 'Skipped X/Y' = records; failure at the first failing record in input order, naming its contig:position for skips and ploidy errors; failing runs write nothing to stdout; a strict run without failing record equals the default run. states = distinct (stream prefix) histories, transitions = records fed to the binary. Non-trivial = a stream containing both a counted record and a skipped/failing one.".into();

    let full_len = tier.pick(3, 4);
    let mut streams: Vec<Vec<Sym>> = sequences(ALPHABET.len(), 0, full_len)
        .into_iter()
        .map(|s| s.into_iter().map(|i| ALPHABET[i]).collect())
        .collect();
    let reduced = [Sym::Counted, Sym::MissingP0, Sym::InsufficientP1, Sym::Ploidy, Sym::Corrupt];
    let extra_len = full_len + 1;
    for s in sequences(reduced.len(), extra_len, extra_len) {
        streams.push(s.into_iter().map(|i| reduced[i]).collect());
    }
    let modes = [Mode::Default, Mode::Strict, Mode::Project];
    let scratch = Scratch::new("c10");
    let mut jobs: Vec<(usize, Mode, Pos)> = Vec::new();
    for i in 0..streams.len() {
        for m in modes {
            jobs.push((i, m, Pos::Unique));
            if streams[i].len() >= 2 && streams[i].len() <= full_len {
                jobs.push((i, m, Pos::Same));
            }
            if !streams[i].is_empty() && streams[i].len() <= full_len && !streams[i].contains(&Sym::Corrupt) {
                jobs.push((i, m, Pos::BcfPermutedContigs));
            }
        }
    }
    let res = par_map(jobs.len(), |j| eval(&streams[jobs[j].0], jobs[j].1, jobs[j].2, &scratch));
    let mut nt = 0u64;
    let mut transitions = 0u64;
    for ((i, m, _), v) in jobs.iter().zip(res) {
        let st = &streams[*i];
        transitions += st.len() as u64;
        let has_counted = st.contains(&Sym::Counted);
        let has_other = st.iter().any(|s| *s != Sym::Counted);
        if has_counted && has_other {
            nt += 1;
        }
        match expectation(st, *m) {
            Expected::Failure { at, .. } => rep.outcome(format!("{m:?}: fails at first {:?}", st[at])),
            Expected::Success { skipped, .. } => rep.outcome(format!("{m:?}: succeeds, {}", if skipped > 0 { "some skipped" } else { "none skipped" })),
        }
        for (k, w, j) in v {
            rep.violation(k, w, j);
        }
    }
    rep.states = streams.len() as u64;
    rep.transitions = transitions;
    rep.traces = jobs.len() as u64;
    rep.part(Part {
        name: "cli: record streams x modes".into(),
        evaluations: jobs.len() as u64,
        nontrivial: nt,
        note: format!("{} streams (all of length 0..{full_len} over 10 symbols + length {extra_len} over 5 symbols) x 3 modes; streams of length 2..{full_len} additionally with every record at the same contig:position, and as BCF with permuted contig header lines", streams.len()),
        exhaustive: true,
        extra: vec![("depth_bound".into(), J::u(extra_len))],
    });
    {
        let mut sp: Vec<(Vec<String>, Vec<u8>)> = Vec::new();
        for st in streams.iter().filter(|s| s.len() <= 2) {
            for m in modes {
                let mut a: Vec<String> = vec!["create".into(), "-s".into(), SAMPLES.into()];
                match m {
                    Mode::Default => {}
                    Mode::Strict => a.push("--strict".into()),
                    Mode::Project => a.extend(["--project-shape".to_string(), "3,3".to_string(), "--precision".to_string(), "9".to_string()]),
                }
                sp.push((a, vcf_for(st, Pos::Unique).into_bytes()));
            }
        }
        super::spelling_part(&mut rep, "C10", "every stream of length <= 2 in the three modes", &sp, &scratch);
    }
    // long streams: more than 65 536 records (counters must not wrap, nothing may depend on the length)
    {
        let n_long = tier.pick(70_000usize, 300_000usize);
        let cycle = [Sym::Counted, Sym::MissingP0, Sym::Counted, Sym::Multiallelic, Sym::ExactlySufficient, Sym::Counted, Sym::InsufficientP1, Sym::Counted, Sym::NoGt, Sym::Counted, Sym::InsufficientP0];
        let long: Vec<Sym> = (0..n_long).map(|i| cycle[i % cycle.len()]).collect();
        // for strict mode: only counted records until the very end
        let mut late: Vec<Sym> = vec![Sym::Counted; n_long];
        late[n_long - 3] = Sym::MissingP0;
        // a long run of consecutive records without genotypes between ordinary records
        let mut gap: Vec<Sym> = vec![Sym::Counted; 300];
        gap.extend(std::iter::repeat(Sym::NoGt).take(n_long - 600));
        gap.extend(std::iter::repeat(Sym::Counted).take(300));
        let jobs: Vec<(&Vec<Sym>, Mode)> = vec![(&long, Mode::Default), (&long, Mode::Project), (&late, Mode::Strict), (&late, Mode::Default), (&gap, Mode::Default), (&gap, Mode::Project)];
        let res = par_map(jobs.len(), |j| eval(jobs[j].0, jobs[j].1, Pos::Unique, &scratch));
        for v in res.into_iter().flatten() {
            // keep the replay record small: the stream is described, not embedded
            let (k, w, _) = v;
            let short: String = w.chars().take(600).collect();
            rep.violation(format!("{k}|long-stream"), short, J::obj([("kind", J::s("c10-long")), ("records", J::u(n_long))]));
        }
        rep.transitions += (6 * n_long) as u64;
        rep.part(Part {
            name: "cli: long streams".into(),
            evaluations: 6,
            nontrivial: 6,
            note: format!("{n_long} records cycling through counted / missing / multiallelic / exactly sufficient / insufficient / GT-less records in default and projecting mode (every printed value, skipped count and total compared), and {n_long} counted records with one skipped record three from the end in strict and default mode; and a run of {} consecutive GT-less records between counted ones", n_long - 600),
            exhaustive: true,
            extra: vec![("records".into(), J::u(n_long))],
        });
    }
    // verbosity: what is logged must change neither the exit status nor stdout (in particular the
    // strict-mode failure must not depend on whether the skipped site would be logged)
    {
        let short: Vec<usize> = (0..streams.len()).filter(|&i| streams[i].len() <= 2).collect();
        let flags = ["-q", "-qq", "-v", "-vv", "-vvv", "-vvvv", "-v -v -v", "--verbose --verbose --verbose --verbose", "-vv --verbose", "-vvvvvvvv"];
        let mut vj: Vec<(usize, Mode, usize)> = Vec::new();
        for &i in &short {
            for m in modes {
                for f in 0..flags.len() {
                    vj.push((i, m, f));
                }
            }
        }
        let res = par_map(vj.len(), |j| {
            let (i, m, f) = vj[j];
            let st = &streams[i];
            let vcf = vcf_for(st, Pos::Unique);
            let mut args = vec!["create", "-s", SAMPLES];
            match m {
                Mode::Default => {}
                Mode::Strict => args.push("--strict"),
                Mode::Project => args.extend(["--project-shape", "3,3", "--precision", "9"]),
            }
            let base = run_sfs(&args, Stdin::Bytes(vcf.as_bytes()), &scratch);
            args.extend(flags[f].split(' '));
            let o = run_sfs(&args, Stdin::Bytes(vcf.as_bytes()), &scratch);
            if verbosity_ok(&base, &o, flags[f]) {
                None
            } else {
                Some((
                    format!("C10|cli|verbosity-changes-result|{m:?}|{}", flags[f]),
                    format!("stream {} in mode {m:?}: with {} the run gives {} stdout {:?}; without it {} stdout {:?}", stream_str(st), flags[f], o.status_str(), o.stdout_str(), base.status_str(), base.stdout_str()),
                    J::obj([("kind", J::s("c10-verbosity")), ("stream", J::s(stream_str(st))), ("mode", J::s(format!("{m:?}"))), ("flag", J::s(flags[f]))]),
                ))
            }
        });
        for v in res.into_iter().flatten() {
            rep.violation(v.0, v.1, v.2);
        }
        // a run whose spectrum cannot be written is a failing run: stdout on a full device and on a
        // pipe whose reader is gone
        {
            let mut wj: Vec<(usize, Mode, bool)> = Vec::new();
            for &i in &short {
                for m in modes {
                    for closed in [false, true] {
                        wj.push((i, m, closed));
                    }
                }
            }
            let wres = par_map(wj.len(), |j| {
                let (i, m, closed) = wj[j];
                let st = &streams[i];
                let vcf = vcf_for(st, Pos::Unique);
                let mut args = vec!["create", "-s", SAMPLES];
                match m {
                    Mode::Default => {}
                    Mode::Strict => args.push("--strict"),
                    Mode::Project => args.extend(["--project-shape", "3,3", "--precision", "9"]),
                }
                let base = run_sfs(&args, Stdin::Bytes(vcf.as_bytes()), &scratch);
                if !base.ok() || base.stdout.is_empty() {
                    return None;
                }
                let o = if closed { crate::cli::run_sfs_stdout_closed_pipe(&args, vcf.as_bytes(), &scratch) } else { crate::cli::run_sfs_stdout_to(&args, vcf.as_bytes(), std::path::Path::new(crate::cli::private_device(true)), &scratch) };
                if !o.ok() && o.diagnosed_error() {
                    None
                } else {
                    Some((
                        format!("C10|cli|unwritable-output-reported-as-success|{m:?}|{}", if closed { "closed-pipe" } else { "full-device" }),
                        format!("stream {} in mode {m:?} with stdout on {}: {} stderr {:?}", stream_str(st), if closed { "a pipe whose reader is gone" } else { "a full device" }, o.status_str(), o.stderr_str().trim()),
                        J::obj([("kind", J::s("c10-sink")), ("stream", J::s(stream_str(st))), ("mode", J::s(format!("{m:?}"))), ("closed", J::Bool(closed))]),
                    ))
                }
            });
            for v in wres.into_iter().flatten() {
                rep.violation(v.0, v.1, v.2);
            }
            rep.part(Part {
                name: "cli: a spectrum that cannot be written".into(),
                evaluations: wj.len() as u64,
                nontrivial: wj.len() as u64,
                note: format!("{} streams of length <= 2 x 3 modes, every succeeding run again with stdout on a full device and on a pipe whose reader is gone: non-zero exit with a diagnostic", short.len()),
                exhaustive: true,
                extra: vec![],
            });
        }
        // the environment must not decide what is reported either
        let mut ej: Vec<(usize, Mode, usize)> = Vec::new();
        for &i in &short {
            for m in modes {
                for e in 0..crate::cli::ENVIRONMENTS.len() {
                    ej.push((i, m, e));
                }
            }
        }
        let eres = par_map(ej.len(), |j| {
            let (i, m, e) = ej[j];
            eval_environment(&streams[i], m, e, &scratch)
        });
        for v in eres.into_iter().flatten() {
            rep.violation(v.0, v.1, v.2);
        }
        rep.part(Part {
            name: "cli: the environment of the process".into(),
            evaluations: ej.len() as u64,
            nontrivial: ej.len() as u64,
            note: format!("{} streams of length <= 2 x 3 modes x {} environments (RUST_LOG at trace and off, RUST_BACKTRACE, locale, colour and terminal variables, TMPDIR / HOME pointing nowhere, thread-pool variables): same success / failure, byte-identical stdout, the same `Skipped X/Y` report and the same site named by a failure as in the empty environment", short.len(), crate::cli::ENVIRONMENTS.len()),
            exhaustive: true,
            extra: vec![],
        });
        rep.part(Part {
            name: "cli: verbosity flags".into(),
            evaluations: vj.len() as u64,
            nontrivial: vj.len() as u64,
            note: format!("{} streams of length <= 2 x 3 modes x {} spellings of the verbosity flags (up to eight -v, clustered, repeated, long): same success / failure and byte-identical stdout as at default verbosity; with raised verbosity also the same `Skipped X/Y` report and the same site named by a failure", short.len(), flags.len()),
            exhaustive: true,
            extra: vec![],
        });
    }
    // cohorts of a hundred and more samples: every counted record still weighs exactly one
    {
        let mut cj: Vec<(usize, usize)> = Vec::new();
        for n in [60usize, 90, 128, 200] {
            for p in [1usize, 20, n / 2, n - 5, n] {
                cj.push((n, p));
            }
        }
        let res = par_map(cj.len(), |i| eval_cohort(cj[i].0, cj[i].1, &scratch));
        for v in res.into_iter().flatten() {
            rep.violation(v.0, v.1, v.2);
        }
        rep.part(Part {
            name: "cli: cohorts of 60..200 samples".into(),
            evaluations: cj.len() as u64,
            nontrivial: cj.len() as u64,
            note: "one population of 60 / 90 / 128 / 200 samples, 8 records with 0..10 missing samples, -p in {1, 20, n/2, n-5, n}: finite non-negative entries, mass + skipped = records, skipped exactly the records with fewer called samples than the target".into(),
            exhaustive: true,
            extra: vec![],
        });
    }
    // scripts over the public reader interface that concern this property (shared with C11)
    {
        let (n, viols) = super::c11::scripts_for("C10", "accounting", tier);
        for (k, w, j) in viols {
            rep.violation(k, w, j);
        }
        rep.part(Part {
            name: "lib: scripts over the public reader interface".into(),
            evaluations: n,
            nontrivial: n,
            note: "every sequence of 1..3 (thorough 4) symbols over {six record kinds, records with a non-diploid genotype, a transient I/O error, an early end, a change of the column layout} under six set-ups: every call of read_site returns counted / insufficient / error / done exactly as its own step implies".into(),
            exhaustive: true,
            extra: vec![],
        });
    }
    // the library's writers and readers on plain streams (writers that take a few bytes per call and
    // implement only write / flush, a writer that is full, buffered readers of small capacities)
    {
        let spectra: Vec<RefArray> = vec![RefArray::from_fn(&[5, 5], |f, _| (f % 3) as f64), RefArray::from_fn(&[9], |f, _| (f % 4) as f64 + 0.5)];
        let mut n = 0u64;
        for x in &spectra {
            for precision in [0usize, 6] {
                n += 1;
                let scs = crate::subject::scs_from_ref(x);
                let r = crate::verdict::catch(|| crate::subject::io_through_plain_streams(&scs, precision));
                let problem = match r {
                    Ok(p) => p,
                    Err(p) => Some(format!("panic: {p}")),
                };
                if let Some(why) = problem {
                    rep.violation("C10|lib|plain-streams".to_string(), format!("spectrum of shape {:?} at precision {precision}: {why}", x.shape), J::obj([("kind", J::s("plain-streams")), ("shape", J::usizes(&x.shape))]));
                }
            }
        }
        rep.part(Part {
            name: "lib: no partial output through plain writers".into(),
            evaluations: n,
            nontrivial: n,
            note: "each spectrum in text and npy through writers accepting 1 / 7 / 64 bytes per call (only write and flush implemented): the bytes a Vec receives; into a writer that is full (Ok(0)) after 0, 1, half, all but one byte: not a success; the npy bytes read back through buffered readers of capacity 1, 3, 7, 8, 12, 20, 100, 127, 129".into(),
            exhaustive: true,
            extra: vec![],
        });
    }
    // the raw-value constructor of the genotype type decides what is counted and what is skipped: only
    // 0, 1 and 2 are genotypes (a source that passes allele-index sums of hundreds relies on it)
    {
        use sfs_core::input::genotype::Genotype;
        let mut raws: Vec<usize> = (0..=70_000).collect();
        raws.extend([1usize << 31, 1 << 32, (1 << 32) + 1, usize::MAX]);
        let bad: Vec<usize> = raws.iter().copied().filter(|&r| Genotype::try_from_raw(r).is_some() != (r <= 2)).collect();
        if let Some(first) = bad.first() {
            rep.violation("C10|lib|try_from_raw".to_string(), format!("Genotype::try_from_raw accepts or rejects wrongly for {} raw values, first {first}: {:?}", bad.len(), Genotype::try_from_raw(*first)), J::obj([("kind", J::s("c10-raw")), ("raw", J::u(*first))]));
        }
        rep.part(Part {
            name: "lib: Genotype::try_from_raw".into(),
            evaluations: raws.len() as u64,
            nontrivial: raws.len() as u64,
            note: "every raw value 0..=70 000 and 2^31, 2^32, 2^32+1, the maximum: a genotype exactly for 0, 1, 2".into(),
            exhaustive: true,
            extra: vec![],
        });
    }
    // outputs of several thousand cells
    {
        let wj: Vec<Option<&str>> = vec![None, Some("17,16,17"), Some("17,15,16")];
        let res = par_map(wj.len(), |i| eval_wide_shape(wj[i], &scratch));
        for v in res.into_iter().flatten() {
            rep.violation(v.0, v.1, v.2);
        }
        rep.part(Part {
            name: "cli: spectra of thousands of cells".into(),
            evaluations: wj.len() as u64,
            nontrivial: wj.len() as u64,
            note: "24 samples in three populations (17^3 = 4 913 cells), 40 records with 0..8 missing samples in the second population, without projection and projected to 17x16x17 and 17x15x16: as many values as cells, mass + skipped = records, skipped count as expected".into(),
            exhaustive: true,
            extra: vec![],
        });
    }
    // long projecting cohorts: every record is really projected (a hypergeometric row that sums to one
    // only up to rounding), so whatever accumulates over a stream accumulates here
    {
        let n_long = tier.pick(70_000usize, 300_000usize);
        let cj: Vec<(usize, usize)> = vec![(20, 10), (20, 7), (34, 16), (60, 20)];
        let res = par_map(cj.len(), |i| eval_cohort_records(cj[i].0, cj[i].1, n_long, &scratch));
        for v in res.into_iter().flatten() {
            rep.violation(v.0, v.1, v.2);
        }
        // few cells holding tens of thousands each, printed with 15 and 17 decimals
        for prec in ["15", "17"] {
            if let Some(v) = eval_cohort_records_at(20, 1, n_long, prec, &scratch) {
                rep.violation(format!("{}|precision-{prec}", v.0), v.1, v.2);
            }
        }
        rep.transitions += (cj.len() * n_long) as u64;
        rep.part(Part {
            name: "cli: long projecting cohorts".into(),
            evaluations: cj.len() as u64,
            nontrivial: cj.len() as u64,
            note: format!("{n_long} records of one population of 20 / 34 / 60 samples with 0..10 missing samples per record, -p in {{10, 7, 16, 20}} at precision 9, and -p 1 (three cells of tens of thousands each) at precision 15 and 17: success, finite non-negative entries, mass + skipped = records (relative 1e-9), skipped exactly the records with fewer called samples than the target"),
            exhaustive: true,
            extra: vec![("records".into(), J::u(n_long))],
        });
    }
    rep.sample(J::obj([
        ("stream", J::s("CMjP")),
        ("mode", J::s("Project")),
        ("vcf", J::s(vcf_for(&parse_stream("CMjP").unwrap(), Pos::Unique))),
        ("expected", J::s("exit != 0, empty stdout, stderr names 'chr2:13' (the ploidy error at the 4th record)")),
    ]));
    rep.sample(J::obj([
        ("stream", J::s("CMC")),
        ("mode", J::s("Strict")),
        ("expected", J::s("fails naming 'chr2:11' (first record that would be skipped)")),
    ]));
    rep.assumptions = vec![
        "the position named for a corrupt (unparseable) record is not checked (not promised by the statement)".into(),
        "streams longer than the bound are outside; the runner is a memoryless loop over records (C11 checks that separately)".into(),
    ];
    rep.finish()
}

pub fn replay(case: &J) -> Option<Vec<String>> {
    if case.get("kind").and_then(|k| k.as_str()) == Some("c10-script") {
        return super::c11::replay_script(case);
    }
    if case.get("kind").and_then(|k| k.as_str()) == Some("c10-sink") {
        let st = parse_stream(case.get("stream")?.as_str()?)?;
        let scratch = Scratch::new("c10r");
        let vcf = vcf_for(&st, Pos::Unique);
        let mut args = vec!["create", "-s", SAMPLES];
        match case.get("mode")?.as_str()? {
            "Strict" => args.push("--strict"),
            "Project" => args.extend(["--project-shape", "3,3", "--precision", "9"]),
            _ => {}
        }
        let closed = matches!(case.get("closed"), Some(J::Bool(true)));
        let o = if closed { crate::cli::run_sfs_stdout_closed_pipe(&args, vcf.as_bytes(), &scratch) } else { crate::cli::run_sfs_stdout_to(&args, vcf.as_bytes(), std::path::Path::new(crate::cli::private_device(true)), &scratch) };
        return Some(if !o.ok() && o.diagnosed_error() { vec![] } else { vec![format!("C10|cli|unwritable-output-reported-as-success :: {}", o.status_str())] });
    }
    if case.get("kind").and_then(|k| k.as_str()) == Some("c10-environment") {
        let st = parse_stream(case.get("stream")?.as_str()?)?;
        let scratch = Scratch::new("c10r");
        let m = match case.get("mode")?.as_str()? {
            "Strict" => Mode::Strict,
            "Project" => Mode::Project,
            _ => Mode::Default,
        };
        return Some(eval_environment(&st, m, case.get("environment")?.as_i64()? as usize, &scratch).into_iter().map(|(k, w, _)| format!("{k} :: {w}")).collect());
    }
    if case.get("kind").and_then(|k| k.as_str()) == Some("c10-verbosity") {
        let st = parse_stream(case.get("stream")?.as_str()?)?;
        let flag = case.get("flag")?.as_str()?.to_string();
        let scratch = Scratch::new("c10r");
        let vcf = vcf_for(&st, Pos::Unique);
        let mut args = vec!["create", "-s", SAMPLES];
        match case.get("mode")?.as_str()? {
            "Strict" => args.push("--strict"),
            "Project" => args.extend(["--project-shape", "3,3", "--precision", "9"]),
            _ => {}
        }
        let base = run_sfs(&args, Stdin::Bytes(vcf.as_bytes()), &scratch);
        args.extend(flag.split(' '));
        let o = run_sfs(&args, Stdin::Bytes(vcf.as_bytes()), &scratch);
        return Some(if verbosity_ok(&base, &o, &flag) { vec![] } else { vec![format!("C10|cli|verbosity-changes-result :: with {flag}: {} {:?}; without: {} {:?}", o.status_str(), o.stdout_str(), base.status_str(), base.stdout_str())] });
    }
    if case.get("kind").and_then(|k| k.as_str()) == Some("c10-wide") {
        let scratch = Scratch::new("c10r");
        let p = case.get("project").and_then(|p| p.as_str()).map(|p| p.to_string());
        return Some(eval_wide_shape(p.as_deref(), &scratch).into_iter().map(|(k, w, _)| format!("{k} :: {w}")).collect());
    }
    if case.get("kind").and_then(|k| k.as_str()) == Some("c10-cohort") {
        let scratch = Scratch::new("c10r");
        let records = case.get("records").and_then(|r| r.as_i64()).unwrap_or(8) as usize;
        let precision = case.get("precision").and_then(|p| p.as_str()).unwrap_or("9").to_string();
        return Some(eval_cohort_records_at(case.get("samples")?.as_i64()? as usize, case.get("individuals")?.as_i64()? as usize, records, &precision, &scratch).into_iter().map(|(k, w, _)| format!("{k} :: {w}")).collect());
    }
    let stream = parse_stream(case.get("stream")?.as_str()?)?;
    let mode = match case.get("mode")?.as_str()? {
        "Default" => Mode::Default,
        "Strict" => Mode::Strict,
        _ => Mode::Project,
    };
    let posn = match case.get("positions").and_then(|p| p.as_str()) {
        Some("Same") => Pos::Same,
        Some("BcfPermutedContigs") => Pos::BcfPermutedContigs,
        _ => Pos::Unique,
    };
    let scratch = Scratch::new("c10r");
    Some(eval(&stream, mode, posn, &scratch).into_iter().map(|(k, w, _)| format!("{k} :: {w}")).collect())
}
