//! C01 — create counts every complete site once at its per-population ALT index.

use sfs_core::input::genotype;

use crate::{
    cli::{parse_text_spectrum, run_sfs, Out, Scratch, Stdin},
    createmodel::{all_rows, build_site_reader, pop_sizes, ref_create, row_str, run_reader, sample_arg, Cls, MemReader},
    enumerate::sample_maps,
    gen::{render, CallSet, Container, Layout, Record},
    json::J,
    par::par_map,
    refmodel::RefArray,
    verdict::{norm_msg, Part, Report, Tier},
};

type Viol = (String, String, J);

fn map_str(map: &[Option<usize>]) -> String {
    map.iter().map(|p| p.map_or("-".to_string(), |p| p.to_string())).collect::<Vec<_>>().join("")
}

fn lib_case(map: &[Option<usize>], rows: &[Vec<Cls>], what: &str) -> J {
    J::obj([
        ("kind", J::s("c01-lib")),
        ("map", J::s(map_str(map))),
        ("rows", J::strs(&rows.iter().map(|r| row_str(r)).collect::<Vec<_>>())),
        ("what", J::s(what)),
    ])
}

fn row_class(map: &[Option<usize>], row: &[Cls]) -> &'static str {
    let sel_uncalled = row.iter().zip(map).any(|(c, p)| p.is_some() && c.alt().is_none());
    let unsel_uncalled = row.iter().zip(map).any(|(c, p)| p.is_none() && c.alt().is_none());
    match (sel_uncalled, unsel_uncalled) {
        (true, _) => "selected-sample-uncalled",
        (false, true) => "only-unselected-uncalled",
        (false, false) => "complete",
    }
}

/// Runs the real site reader over class rows and compares with the reference.
fn eval_rows(map: &[Option<usize>], rows: &[Vec<Cls>]) -> Option<Viol> {
    let s = map.len();
    let expect = ref_create(rows, map, None);
    let got = build_site_reader(Box::new(MemReader::from_classes(s, rows)), map, None).and_then(|mut r| run_reader(&mut r));
    match got {
        Ok(g) if g == expect => None,
        Ok(g) => {
            let cls = if rows.len() == 1 { row_class(map, &rows[0]) } else { "multi-record" };
            Some((
                format!("C01|lib|count-wrong|{cls}|{}pops", pop_sizes(map).len()),
                format!(
                    "map {} rows {:?}: got shape {:?} {:?} skipped {} sites {}, expected {:?} {:?} skipped {}",
                    map_str(map),
                    rows.iter().map(|r| row_str(r)).collect::<Vec<_>>(),
                    g.spectrum.shape,
                    g.spectrum.data,
                    g.skipped,
                    g.sites,
                    expect.spectrum.shape,
                    expect.spectrum.data,
                    expect.skipped
                ),
                lib_case(map, rows, "classes"),
            ))
        }
        Err(e) => Some((
            format!("C01|lib|failed|{}", norm_msg(&e)),
            format!("map {} rows {:?}: {e}", map_str(map), rows.iter().map(|r| row_str(r)).collect::<Vec<_>>()),
            lib_case(map, rows, "classes"),
        )),
    }
}

/// Unselected samples with a ploidy error must not influence the result.
fn eval_unselected_ploidy(map: &[Option<usize>], row: &[Cls]) -> Option<Viol> {
    let s = map.len();
    let expect = ref_create(&[row.to_vec()], map, None);
    let raw: Vec<genotype::Result> = row
        .iter()
        .zip(map)
        .map(|(c, p)| if p.is_none() { genotype::Result::Error(genotype::Error::PloidyError) } else { c.to_result() })
        .collect();
    let got = build_site_reader(Box::new(MemReader::new(s, vec![raw])), map, None).and_then(|mut r| run_reader(&mut r));
    match got {
        Ok(g) if g == expect => None,
        other => Some((
            "C01|lib|unselected-sample-influences|ploidy".into(),
            format!("map {} row {}: unselected samples given a non-diploid genotype change the result: {other:?}", map_str(map), row_str(row)),
            lib_case(map, &[row.to_vec()], "unselected-ploidy"),
        )),
    }
}

// ---------------------------------------------------------------------------------------------
// L2

fn callset_from_rows(s: usize, rows: &[Vec<Cls>], variant: usize) -> CallSet {
    let mut cs = CallSet::new(s);
    for (i, row) in rows.iter().enumerate() {
        let gts: Vec<&str> = row.iter().enumerate().map(|(j, c)| c.spell(i + j + variant)).collect();
        cs.push_gts(&gts);
        // records carrying allele index >= 2 need the ALT alleles declared
        let last = cs.records.len() - 1;
        cs.records[last].alts = vec!["C", "G", "T"];
    }
    cs
}

/// Strict check of stdout against the reference spectrum (exact integers).
fn judge_stdout(o: &Out, expect: &RefArray) -> Result<(), String> {
    if !o.ok() {
        return Err(format!("{}: {}", o.status_str(), o.stderr_str().trim()));
    }
    let (shape, toks) = parse_text_spectrum(&o.stdout_str())?;
    if shape != expect.shape {
        return Err(format!("shape {shape:?}, expected {:?}", expect.shape));
    }
    if toks.len() != expect.data.len() {
        return Err(format!("{} values, expected {}", toks.len(), expect.data.len()));
    }
    for (t, e) in toks.iter().zip(&expect.data) {
        if t.is_empty() || !t.bytes().all(|b| b.is_ascii_digit()) {
            return Err(format!("value '{t}' is not printed as an exact integer"));
        }
        if t.parse::<u64>().ok() != Some(*e as u64) {
            return Err(format!("values {toks:?}, expected {:?}", expect.data));
        }
    }
    Ok(())
}

fn cli_case(map: &[Option<usize>], cs: &CallSet, container: Container, what: &str) -> J {
    J::obj([
        ("kind", J::s("c01-cli")),
        ("samples", J::s(sample_arg(map))),
        ("container", J::s(container.name())),
        ("what", J::s(what)),
        ("vcf", J::s(String::from_utf8_lossy(&crate::gen::to_vcf(cs).0))),
    ])
}

fn eval_cli(map: &[Option<usize>], cs: &CallSet, rows: &[Vec<Cls>], container: Container, what: &str, scratch: &Scratch) -> Option<Viol> {
    let mut bytes = render(cs, container, &Layout::Single);
    // text-level spellings of the same VCF: the last record without a line end; further meta lines
    // (INFO / ALT / FILTER definitions, a free-form line, contig lines with extra keys) in front of and
    // between the ones the file needs
    if what == "no-final-newline" && container == Container::Vcf && bytes.last() == Some(&b'\n') {
        bytes.pop();
    }
    if what == "extra-meta-lines" && container == Container::Vcf {
        let text = String::from_utf8_lossy(&bytes).to_string();
        let mut out = String::new();
        for (i, line) in text.split_inclusive('\n').enumerate() {
            out.push_str(line);
            if i == 0 {
                out.push_str("##source=\"a tool, with = and , in its name\"\n##INFO=<ID=AF,Number=A,Type=Float,Description=\"Allele frequency, estimated\">\n##ALT=<ID=DEL,Description=\"Deletion\">\n##FILTER=<ID=q10,Description=\"Quality below 10\">\n##reference=file:///ref.fa\n");
            }
            if line.starts_with("##contig") && i % 2 == 0 {
                out.push_str("##PEDIGREE=<ID=s0,Original=s1>\n");
            }
        }
        bytes = out.into_bytes();
    }
    // "samples-file:blank-in-names": every second sample column is called "<its left neighbour> rep"
    // (sample names may contain blanks; the samples file separates sample and label by a tab)
    let renamed = |i: usize| -> String { if i % 2 == 1 { format!("s{} rep", i - 1) } else { format!("s{i}") } };
    if what == "samples-file:blank-in-names" && container == Container::Vcf {
        let text = String::from_utf8_lossy(&bytes).to_string();
        let mut out = String::new();
        for line in text.split_inclusive('\n') {
            if line.starts_with("#CHROM") {
                let cols: Vec<String> = line.trim_end_matches('\n').split('\t').map(|c| match c.strip_prefix('s').and_then(|n| n.parse::<usize>().ok()) { Some(i) => renamed(i), None => c.to_string() }).collect();
                out.push_str(&cols.join("\t"));
                out.push('\n');
            } else {
                out.push_str(line);
            }
        }
        bytes = out.into_bytes();
    }
    let expect = ref_create(rows, map, None);
    let mut sa = sample_arg(map);
    if what == "grouped-by-population" {
        // the list names the same assignment in another order than the input's sample columns:
        // grouped by population (keeping the labels' first-appearance order), samples reversed within each
        let mut entries: Vec<(usize, String)> = sa.split(',').map(|e| (e.rsplit("=p").next().unwrap().parse::<usize>().unwrap(), e.to_string())).collect();
        entries.reverse();
        entries.sort_by_key(|e| e.0);
        sa = entries.into_iter().map(|e| e.1).collect::<Vec<_>>().join(",");
    }
    if what == "repeated-entry" {
        // naming a sample twice (same population) does not add a sample: same spectrum (or a diagnosed error)
        let first = sa.split(',').next().unwrap_or("").to_string();
        sa = format!("{sa},{first}");
    }
    // "contradictory-entry": the first selected sample is named again at the end with the last
    // population. The statement does not say which label wins; accepted are an error, the
    // first-label and the last-label assignment (only maps where the first population keeps a
    // sample are used, so both assignments have the same axes)
    let mut alt_expect = None;
    if what == "contradictory-entry" {
        let first = map.iter().position(|p| p.is_some()).unwrap();
        let last_pop = map.iter().flatten().max().copied().unwrap();
        sa = format!("{sa},s{first}=p{last_pop}");
        let mut m2 = map.to_vec();
        m2[first] = Some(last_pop);
        alt_expect = Some(ref_create(rows, &m2, None));
    }
    // "samples-file:<endings>": the same assignment as a two-column file with the given line endings
    let samples_text: Option<String> = what.strip_prefix("samples-file:").map(|endings| {
        let lines: Vec<String> = sa.split(',').map(|e| e.replacen('=', "\t", 1)).collect();
        match endings {
            "blank-in-names" => sa.split(',').map(|e| { let (n, l) = e.split_once('=').unwrap_or((e, "")); let i: usize = n.trim_start_matches('s').parse().unwrap_or(0); if l.is_empty() { format!("{}\n", renamed(i)) } else { format!("{}\t{l}\n", renamed(i)) } }).collect(),
            "lf" => lines.join("\n") + "\n",
            "lf-no-final" => lines.join("\n"),
            "crlf" => lines.join("\r\n") + "\r\n",
            _ => lines.join("\r\n"),
        }
    });
    let samples_path = samples_text.as_ref().map(|text| scratch.file(".samples", text.as_bytes()));
    let mut args: Vec<&str> = match &samples_path {
        Some(p) => vec!["create", "-S", p.to_str().unwrap()],
        None => vec!["create", "-s", &sa],
    };
    // "precision-<p>": an explicit --precision without projection must still print exact integers
    if let Some(p) = what.strip_prefix("precision-") {
        args.extend(["--precision", p]);
    }
    // "verbosity<flag>": what is logged must not change what is counted
    if let Some(v) = what.strip_prefix("verbosity") {
        args.push(v);
    }
    // "complete:<flags>": every selected sample is called in every record (unselected samples are
    // not), so flags that only concern skipped sites or resources change nothing
    if let Some(flags) = what.strip_prefix("complete:") {
        args.extend(flags.split(' ').filter(|f| !f.is_empty()));
    }
    // "long-stream-threads-<t>": an explicit thread count must not change what is counted
    if let Some(t) = what.strip_prefix("long-stream-threads-") {
        args.extend(["--threads", t]);
    }
    let o = if what == "by-path" {
        // the input named on the command line, under the name a user would give that container
        // (an uncompressed BCF is conventionally called *.bcf as well)
        let dir = scratch.path(".d");
        std::fs::create_dir_all(&dir).expect("scratch dir");
        let name = match container { Container::Vcf => "calls.vcf", Container::VcfGz => "calls.vcf.gz", _ => "calls.bcf" };
        let path = dir.join(name);
        std::fs::write(&path, &bytes).expect("scratch write");
        let mut with_path = args.clone();
        with_path.push(path.to_str().unwrap());
        let o = run_sfs(&with_path, Stdin::Null, scratch);
        let _ = std::fs::remove_dir_all(&dir);
        o
    } else {
        run_sfs(&args, Stdin::Bytes(&bytes), scratch)
    };
    if let Some(p) = &samples_path {
        let _ = std::fs::remove_file(p);
    }
    if (what == "repeated-entry" || what == "contradictory-entry") && o.diagnosed_error() && o.stdout.is_empty() {
        return None;
    }
    if let Some(alt) = &alt_expect {
        if judge_stdout(&o, &alt.spectrum).is_ok() {
            return None;
        }
    }
    match judge_stdout(&o, &expect.spectrum) {
        Ok(()) => None,
        Err(e) => {
            let cls = if rows.len() == 1 { row_class(map, &rows[0]) } else { "multi-record" };
            let mut case = cli_case(map, cs, container, what);
            if let J::Obj(o) = &mut case {
                // everything a stand-alone re-run needs: argv (without a by-path input), input bytes, accepted outputs
                let argv: Vec<&str> = args.clone();
                o.push(("argv".into(), J::strs(&argv)));
                o.push(("input_hex".into(), J::s(crate::json::hex(&bytes))));
                o.push(("by_path_name".into(), if what == "by-path" { J::s(match container { Container::Vcf => "calls.vcf", Container::VcfGz => "calls.vcf.gz", _ => "calls.bcf" }) } else { J::Null }));
                o.push(("samples_file_text".into(), match &samples_text { Some(t) => J::s(t.clone()), None => J::Null }));
                o.push(("expect_shape".into(), J::usizes(&expect.spectrum.shape)));
                o.push(("expect_data".into(), J::f64s(&expect.spectrum.data)));
                o.push(("alt_expect_data".into(), alt_expect.as_ref().map_or(J::Null, |a| J::f64s(&a.spectrum.data))));
                o.push(("error_accepted".into(), J::Bool(what == "repeated-entry" || what == "contradictory-entry")));
            }
            Some((
                format!("C01|cli|create-wrong|{}|{cls}|{what}", container.name()),
                format!("sfs create -s {sa} on {} ({what}, rows {:?}): {e}", container.name(), rows.iter().map(|r| row_str(r)).take(8).collect::<Vec<_>>()),
                case,
            ))
        }
    }
}

/// Decorations: transformations of a call set that must not change which class each genotype has.
fn decorate(cs: &CallSet, rows: &[Vec<Cls>], which: &str) -> (CallSet, Vec<Vec<Cls>>) {
    let mut cs = cs.clone();
    let mut rows = rows.to_vec();
    let s = cs.samples.len();
    match which {
        "info-format-fields" => cs.records.iter_mut().for_each(|r| r.decorated = true),
        "two-contigs" => {
            let n = cs.records.len();
            for (i, r) in cs.records.iter_mut().enumerate() {
                if i >= n / 2 {
                    r.chrom = 1;
                    r.pos = i - n / 2 + 1;
                }
            }
        }
        "monomorphic-records" => {
            for k in 0..3 {
                cs.records.push(Record { chrom: 1, pos: 5000 + k, alts: vec![], gts: vec!["0/0".to_string(); s], decorated: false });
                rows.push(vec![Cls::G0; s]);
            }
        }
        "multi-alt-records" => {
            // records declaring three ALT alleles whose genotypes only use 0 and 1 are counted normally
            for k in 0..3 {
                let gts: Vec<String> = (0..s).map(|j| ["0/1", "1|1", "0|0"][(j + k) % 3].to_string()).collect();
                let classes: Vec<Cls> = (0..s).map(|j| [Cls::G1, Cls::G2, Cls::G0][(j + k) % 3]).collect();
                cs.records.push(Record { chrom: 1, pos: 6000 + k, alts: vec!["C", "G", "T"], gts, decorated: false });
                rows.push(classes);
            }
        }
        "all-missing-records" => {
            for k in 0..2 {
                cs.records.push(Record { chrom: 1, pos: 7000 + k, alts: vec!["C"], gts: vec!["./.".to_string(); s], decorated: false });
                rows.push(vec![Cls::Missing; s]);
            }
        }
        "monomorphic-with-missing" => {
            // ALT = '.' records can only carry REF alleles or missing calls: every such row
            for (k, r) in all_rows(s, &[Cls::G0, Cls::Missing]).iter().enumerate() {
                let gts: Vec<String> = r
                    .iter()
                    .enumerate()
                    .map(|(j, c)| if *c == Cls::G0 { ["0/0", "0|0"][(j + k) % 2] } else { ["./.", ".|.", "./0", "0|."][(j + k) % 4] }.to_string())
                    .collect();
                cs.records.push(Record { chrom: 1, pos: 8000 + k, alts: vec![], gts, decorated: false });
                rows.push(r.clone());
            }
        }
        "symbolic-and-indel-alleles" => {
            // REF/ALT spellings other than single bases do not change which allele index is ALT 1
            for (k, r) in all_rows(s, &Cls::ALL).iter().enumerate() {
                let gts: Vec<String> = r.iter().enumerate().map(|(j, c)| c.spell(j + k).to_string()).collect();
                cs.records.push(Record { chrom: 1, pos: 9000 + k, alts: [vec!["<DEL>", "G", "T"], vec!["ACGT", "AC", "<*>"], vec!["*", "C", "G"]][k % 3].clone(), gts, decorated: k % 2 == 1 });
                rows.push(r.clone());
            }
        }
        "hundreds-of-alleles" => {
            // records declaring 300 ALT alleles: a genotype that names allele 10, 12, 100, 255, 256 or 257
            // is multiallelic whatever its index is modulo a power of two or its first digit
            static ALTS: std::sync::OnceLock<Vec<&'static str>> = std::sync::OnceLock::new();
            let alts = ALTS.get_or_init(|| (0..300).map(|i| &*Box::leak(format!("{}{}", ["C", "G", "T"][i % 3], "A".repeat(1 + i / 3)).into_boxed_str())).collect());
            let spellings = ["0/10", "1|12", "0/100", "0/256", "257|0", "256/257", "1/255", "0|11", "10/0", "0/20"];
            for (k, r) in all_rows(s, &Cls::ALL).iter().enumerate() {
                let gts: Vec<String> = r.iter().enumerate().map(|(j, c)| if *c == Cls::Multi { spellings[(j + k) % spellings.len()].to_string() } else { c.spell(j + k).to_string() }).collect();
                cs.records.push(Record { chrom: 1, pos: 10_000 + k, alts: alts.clone(), gts, decorated: false });
                rows.push(r.clone());
            }
        }
        "all-phased" => {
            for r in cs.records.iter_mut() {
                for g in r.gts.iter_mut() {
                    *g = g.replace('/', "|");
                }
            }
        }
        _ => panic!("unknown decoration"),
    }
    (cs, rows)
}

const DECORATIONS: [&str; 9] = ["info-format-fields", "two-contigs", "monomorphic-records", "multi-alt-records", "all-missing-records", "all-phased", "monomorphic-with-missing", "symbolic-and-indel-alleles", "hundreds-of-alleles"];

pub fn run(tier: Tier) -> i32 {
    let mut rep = Report::new("C01", tier, "exploration");
    rep.rule = "genotype class per sample in {0,1,2 ALT, missing, multiallelic}; sample maps = every assignment of each sample to 'unselected' or population 0..3 (labels in first-use order). L1 (real site::Reader fed by an in-memory genotype source): every (map, row) single-record case, every 2-record sequence (S=3), all rows in one stream, unselected samples with ploidy errors; L2 (real binary): one-record VCFs, one VCF with every row, containers, explicit --precision, nine decorations (records with 300 ALT alleles and genotypes naming alleles 10 .. 257, extra INFO/FORMAT fields, two contigs, monomorphic records without and with missing calls, multi-ALT, all-missing, all-phased, symbolic / indel / '*' alleles). Oracle: reference create from the classes; stdout must be '#SHAPE=<..>' + exact integers. Non-trivial = a case with a counted and a skipped record, or >=2 populations of unequal size.".into();

    let s_max = tier.pick(4, 5);
    let mut jobs: Vec<(Vec<Option<usize>>, Vec<Vec<Cls>>)> = Vec::new();
    let mut n_single = 0u64;
    for s in 1..=s_max {
        let rows = all_rows(s, &Cls::ALL);
        for map in sample_maps(s, 4) {
            for r in &rows {
                jobs.push((map.clone(), vec![r.clone()]));
                n_single += 1;
            }
            // all rows in one stream (and reversed)
            jobs.push((map.clone(), rows.clone()));
            let mut rev = rows.clone();
            rev.reverse();
            jobs.push((map.clone(), rev));
        }
    }
    // all 2-record sequences for S = 3
    let rows3 = all_rows(3, &Cls::ALL);
    for map in sample_maps(3, 4) {
        for a in &rows3 {
            for b in &rows3 {
                jobs.push((map.clone(), vec![a.clone(), b.clone()]));
            }
        }
    }
    let res = par_map(jobs.len(), |i| eval_rows(&jobs[i].0, &jobs[i].1));
    let mut nt = 0u64;
    for ((map, rows), v) in jobs.iter().zip(res) {
        let sizes = pop_sizes(map);
        let unequal = sizes.iter().any(|n| *n != sizes[0]);
        let mixed = rows.len() > 1 && {
            let e = ref_create(rows, map, None);
            e.skipped > 0 && e.skipped < rows.len()
        };
        if unequal || mixed {
            nt += 1;
        }
        if let Some((k, w, j)) = v {
            rep.violation(k, w, j);
        }
    }
    rep.part(Part {
        name: "lib: class rows through the real site reader".into(),
        evaluations: jobs.len() as u64,
        nontrivial: nt,
        note: format!("S<={s_max}: {n_single} single-record (map,row) cases, all-rows streams, all 2-record sequences for S=3"),
        exhaustive: true,
        extra: vec![],
    });
    rep.sample(J::obj([
        ("map", J::s("0-10 (s0->p0, s1 unselected, s2->p1, s3->p0)")),
        ("row", J::s("1.20")),
        ("expected", J::s("counted at index (1,2) of a 5x3 spectrum; s1 missing does not matter")),
    ]));

    // unselected ploidy errors
    let mut pj: Vec<(Vec<Option<usize>>, Vec<Cls>)> = Vec::new();
    for s in 2..=4 {
        for map in sample_maps(s, 4) {
            if map.iter().all(|p| p.is_some()) {
                continue;
            }
            for r in all_rows(s, &Cls::ALL) {
                pj.push((map.clone(), r));
            }
        }
    }
    let res = par_map(pj.len(), |i| eval_unselected_ploidy(&pj[i].0, &pj[i].1));
    for v in res.into_iter().flatten() {
        rep.violation(v.0, v.1, v.2);
    }
    rep.part(Part {
        name: "lib: unselected samples with non-diploid genotypes".into(),
        evaluations: pj.len() as u64,
        nontrivial: pj.len() as u64,
        note: "every map with an unselected sample x every row, unselected genotypes replaced by ploidy errors".into(),
        exhaustive: true,
        extra: vec![],
    });

    // scripts over the public reader interface that concern this property (shared with C11)
    {
        let (n, viols) = super::c11::scripts_for("C01", "plain-create", tier);
        for (k, w, j) in viols {
            rep.violation(k, w, j);
        }
        rep.part(Part {
            name: "lib: scripts without projection (ends, source errors, layout changes between records)".into(),
            evaluations: n,
            nontrivial: n,
            note: "every sequence of 1..3 (thorough 4) symbols over {six record kinds, a transient I/O error of the source, the source reporting its end early, a change of the column layout} without projection, read_site called two more times than there are steps: every complete record is counted once at its own index whatever came before it".into(),
            exhaustive: true,
            extra: vec![],
        });
    }
    // L2
    let scratch = Scratch::new("c01");
    let s = tier.pick(3, 4);
    let rows = all_rows(s, &Cls::ALL);
    let maps = sample_maps(s, 4);
    let mut cjobs: Vec<(Vec<Option<usize>>, CallSet, Vec<Vec<Cls>>, Container, String)> = Vec::new();
    for map in &maps {
        for (i, r) in rows.iter().enumerate() {
            cjobs.push((map.clone(), callset_from_rows(s, &[r.clone()], i), vec![r.clone()], Container::Vcf, "one-record".into()));
        }
        let all = callset_from_rows(s, &rows, 0);
        for c in Container::all() {
            cjobs.push((map.clone(), all.clone(), rows.clone(), c, "every-row".into()));
            cjobs.push((map.clone(), all.clone(), rows.clone(), c, "by-path".into()));
        }
        if map.iter().any(|p| p.is_some()) {
            cjobs.push((map.clone(), all.clone(), rows.clone(), Container::Vcf, "repeated-entry".into()));
            let pops = pop_sizes(map);
            if pops.len() >= 2 && pops[0] >= 2 {
                cjobs.push((map.clone(), all.clone(), rows.clone(), Container::Vcf, "contradictory-entry".into()));
            }
            // (the every-row call set is invariant under permutations of the samples, so a sample
            // credited to another sample's population would be invisible on it: use a subset of rows
            // that no permutation of the samples maps onto itself)
            let asym: Vec<Vec<Cls>> = rows.iter().enumerate().filter(|(i, _)| [0usize, 2, 3].contains(&(i % 7))).map(|(_, r)| r.clone()).collect();
            let asym_cs = callset_from_rows(s, &asym, 1);
            cjobs.push((map.clone(), asym_cs.clone(), asym.clone(), Container::Vcf, "grouped-by-population".into()));
            cjobs.push((map.clone(), asym_cs, asym, Container::Bcf, "grouped-by-population".into()));
        }
        // the rows in which every selected sample is called while the unselected ones take every
        // class: no site is skipped, whatever the other samples look like
        if map.iter().any(|p| p.is_some()) && map.iter().any(|p| p.is_none()) {
            let complete: Vec<Vec<Cls>> = rows.iter().filter(|r| r.iter().zip(map).all(|(c, p)| p.is_none() || c.alt().is_some())).cloned().collect();
            let ccs = callset_from_rows(s, &complete, 2);
            for flags in ["--strict", "--strict -vv", "--strict --threads 1", "--threads 7 -q", "--strict --precision 3"] {
                for c in [Container::Vcf, Container::Bcf] {
                    cjobs.push((map.clone(), ccs.clone(), complete.clone(), c, format!("complete:{flags}")));
                }
            }
        }
        if map.iter().any(|p| p.is_some()) {
            for endings in ["lf", "lf-no-final", "crlf", "crlf-no-final", "blank-in-names"] {
                cjobs.push((map.clone(), all.clone(), rows.clone(), Container::Vcf, format!("samples-file:{endings}")));
            }
        }
        for w in ["no-final-newline", "extra-meta-lines"] {
            cjobs.push((map.clone(), all.clone(), rows.clone(), Container::Vcf, w.to_string()));
        }
        for p in ["0", "1", "6", "17"] {
            cjobs.push((map.clone(), all.clone(), rows.clone(), Container::Vcf, format!("precision-{p}")));
        }
        for v in ["-q", "-v", "-vv", "-vvv"] {
            cjobs.push((map.clone(), all.clone(), rows.clone(), Container::Vcf, format!("verbosity{v}")));
        }
        for d in DECORATIONS {
            let (cs, r2) = decorate(&all, &rows, d);
            cjobs.push((map.clone(), cs.clone(), r2.clone(), Container::Vcf, d.to_string()));
            // (allele indices beyond 62 need 16-bit genotype vectors in BCF, which the BCF dependency
            // cannot read at all - a recorded finding of C17; that decoration runs on the text containers)
            cjobs.push((map.clone(), cs, r2, if d == "hundreds-of-alleles" { Container::VcfGz } else { Container::Bcf }, d.to_string()));
        }
    }
    // 40 sample columns: neighbouring records agree in the last 32 columns and differ in the first
    // eight, where selected samples sit (a record must never be taken for a repeat of its neighbour
    // on the strength of a part of its columns)
    {
        let called = [Cls::G0, Cls::G1, Cls::G2];
        let rows40: Vec<Vec<Cls>> = (0..24usize).map(|r| (0..40usize).map(|j| if j < 8 { called[(r + j) % 3] } else { called[(r / 2 + j) % 3] }).collect()).collect();
        for sel in [vec![(0usize, 0usize), (1, 0), (5, 1), (39, 1)], vec![(2, 0), (7, 1), (8, 1)], vec![(3, 0)]] {
            let mut map40: Vec<Option<usize>> = vec![None; 40];
            for (smp, pop) in sel {
                map40[smp] = Some(pop);
            }
            for c in [Container::Vcf, Container::Bcf] {
                cjobs.push((map40.clone(), callset_from_rows(40, &rows40, 0), rows40.clone(), c, "forty-columns-paired-records".into()));
            }
        }
    }
    let res = par_map(cjobs.len(), |i| {
        let (map, cs, rows, c, what) = &cjobs[i];
        eval_cli(map, cs, rows, *c, what, &scratch)
    });
    let mut nt = 0;
    for ((map, _, rows, _, _), v) in cjobs.iter().zip(res) {
        let sizes = pop_sizes(map);
        if sizes.iter().any(|n| *n != sizes[0]) || rows.len() > 1 {
            nt += 1;
        }
        if let Some((k, w, j)) = v {
            rep.violation(k, w, j);
        }
    }
    rep.part(Part {
        name: "cli: sfs create -s".into(),
        evaluations: cjobs.len() as u64,
        nontrivial: nt,
        note: format!("S={s}: {} maps x ({} one-record VCFs + every-row call set in 4 containers on stdin and by path under its conventional file name + the rows complete among the selected samples under --strict / --threads / verbosity / precision flag combinations in vcf and bcf + the assignment as a samples file with LF / CRLF endings with and without a final line end + the VCF without a final line end and with further meta lines + explicit --precision 0/1/6/17 + verbosity flags -q/-v/-vv/-vvv + a list naming one sample twice (same label; and with another label: error, first- or last-label assignment) + the list grouped by population (order unlike the column order) + 9 decorations in vcf and bcf); 40 sample columns with neighbouring records that agree in their last 32 columns", maps.len(), rows.len()),
        exhaustive: true,
        extra: vec![],
    });
    {
        let mut sp: Vec<(Vec<String>, Vec<u8>)> = Vec::new();
        let all = callset_from_rows(s, &rows, 0);
        let bytes = crate::gen::to_vcf(&all).0;
        for map in maps.iter().filter(|m| m.iter().any(|p| p.is_some())) {
            let sa = sample_arg(map);
            for extra in [vec![], vec!["--precision", "3", "-vv"], vec!["-t", "2", "-q"]] {
                let mut a: Vec<String> = vec!["create".into(), "-s".into(), sa.clone()];
                a.extend(extra.iter().map(|e| e.to_string()));
                sp.push((a, bytes.clone()));
            }
        }
        super::spelling_part(&mut rep, "C01", "create -s <map> for every map on the every-row call set, alone and with precision / verbosity / thread options", &sp, &scratch);
    }
    // large shapes: two populations of 32 samples (65 x 65 = 4225 entries) and one of 2100 entries
    {
        let mut big: Vec<(Vec<Option<usize>>, CallSet, Vec<Vec<Cls>>, Container, String)> = Vec::new();
        for (n, pops) in [(64usize, 2usize), (70, 1), (40, 3), (12, 6), (16, 8)] {
            let map: Vec<Option<usize>> = (0..n).map(|i| Some(i * pops / n)).collect();
            let classes = [Cls::G0, Cls::G1, Cls::G2, Cls::G0, Cls::G1, Cls::Missing, Cls::G2, Cls::G0, Cls::Multi];
            let rows_big: Vec<Vec<Cls>> = (0..40usize)
                .map(|r| (0..n).map(|j| { let c = classes[(j * (r + 2) + r * r) % classes.len()]; if (c == Cls::Missing || c == Cls::Multi) && r % 5 != 0 { Cls::G1 } else { c } }).collect())
                .collect();
            let cs = callset_from_rows(n, &rows_big, 0);
            big.push((map.clone(), cs.clone(), rows_big.clone(), Container::Vcf, "large-shape".into()));
            big.push((map, cs, rows_big, Container::Bcf, "large-shape".into()));
        }
        let res = par_map(big.len(), |i| {
            let (map, cs, rows, c, what) = &big[i];
            eval_cli(map, cs, rows, *c, what, &scratch)
        });
        for v in res.into_iter().flatten() {
            rep.violation(v.0, v.1, v.2);
        }
        rep.part(Part {
            name: "cli: large shapes".into(),
            evaluations: big.len() as u64,
            nontrivial: big.len() as u64,
            note: "64 samples in 2 populations (65x65 = 4225 entries), 70 in one (141), 40 in three (27x27x29 = 21 141 entries), 12 in six and 16 in eight populations (5^6 and 5^8 entries); 40 records with missing / multiallelic genotypes in every fifth; vcf and bcf; every printed value compared".into(),
            exhaustive: true,
            extra: vec![],
        });
    }
    // long streams: "any number of records" - 130 000 records (many compressed blocks), among them a
    // run of 120 000 consecutive records in which no sample is called
    {
        let n_long = tier.pick(130_000usize, 400_000usize);
        let map: Vec<Option<usize>> = vec![Some(0), Some(1), Some(0)];
        let gap = 5_000..n_long - 5_000;
        let rows_long: Vec<Vec<Cls>> = (0..n_long).map(|i| if gap.contains(&i) { vec![Cls::Missing; 3] } else { rows3[(i * 7) % rows3.len()].clone() }).collect();
        let mut cs = callset_from_rows(3, &rows_long, 0);
        for i in gap.clone() {
            // 2 000 records with every sample `./.`, 2 000 with `.|.`, the rest without a GT key in FORMAT
            let g = match i - gap.start {
                0..=1_999 => "./.",
                2_000..=3_999 => ".|.",
                _ => crate::gen::NO_GT_KEY,
            };
            cs.records[i].gts = vec![g.to_string(); 3];
            cs.records[i].alts = vec!["C"];
        }
        let mut long: Vec<(Container, String)> = Vec::new();
        for c in Container::all() {
            long.push((c, "long-stream".into()));
            long.push((c, "long-stream-threads-1".into()));
            long.push((c, "long-stream-threads-3".into()));
        }
        let res = par_map(long.len(), |i| eval_cli(&map, &cs, &rows_long, long[i].0, &long[i].1, &scratch));
        for v in res.into_iter().flatten() {
            rep.violation(v.0, v.1, v.2);
        }
        rep.part(Part {
            name: "cli: long streams".into(),
            evaluations: long.len() as u64,
            nontrivial: long.len() as u64,
            note: format!("{n_long} records over every class row of 3 samples in 2 populations with a run of {} consecutive records without any called sample (./., .|., FORMAT without GT), in 4 containers (the compressed ones span many BGZF blocks) at the default thread count and with --threads 1 and 3; every printed value compared", n_long - 10_000),
            exhaustive: true,
            extra: vec![("records".into(), J::u(n_long))],
        });
    }
    // more records in one cell than a single-precision counter can hold (thorough only: a 540 MB stream)
    if tier.thorough() {
        use std::io::Write;
        let n = (1usize << 24) + 4;
        let path = scratch.path(".allsites.vcf");
        let ok = (|| -> std::io::Result<()> {
            let mut f = std::io::BufWriter::new(std::fs::File::create(&path)?);
            f.write_all(b"##fileformat=VCFv4.3\n##contig=<ID=chr1>\n##FORMAT=<ID=GT,Number=1,Type=String,Description=\"Genotype\">\n#CHROM\tPOS\tID\tREF\tALT\tQUAL\tFILTER\tINFO\tFORMAT\ts0\n")?;
            for i in 0..n {
                writeln!(f, "chr1\t{}\t.\tA\tC\t.\t.\t.\tGT\t0/0", i + 1)?;
            }
            for (i, g) in ["0/1", "1|0", "0/1", "1/1", "1|1"].iter().enumerate() {
                writeln!(f, "chr1\t{}\t.\tA\tC\t.\t.\t.\tGT\t{g}", n + i + 1)?;
            }
            f.flush()
        })();
        if ok.is_ok() {
            let o = crate::cli::run_sfs_env(&["create", path.to_str().unwrap()], Stdin::Null, &scratch, &[], &crate::cli::Limits { wall_s: 600, mem_bytes: 16 << 30 });
            let expect = format!("#SHAPE=<3>\n{n} 3 2\n");
            if !o.ok() || o.stdout_str() != expect {
                rep.violation(
                    "C01|cli|create-wrong|vcf|many-records-in-one-cell".to_string(),
                    format!("sfs create on {n} hom-ref records of one sample followed by 3 het and 2 hom-alt records: {} {:?}, expected {expect:?}", o.status_str(), o.stdout_str()),
                    J::obj([("kind", J::s("c01-many-records")), ("records", J::u(n + 5))]),
                );
            }
        }
        let _ = std::fs::remove_file(&path);
        rep.part(Part {
            name: "cli: 2^24 + 4 records in one cell".into(),
            evaluations: 1,
            nontrivial: 1,
            note: "16 777 220 hom-ref records of one sample, then 3 het and 2 hom-alt: the spectrum is 16777220 3 2 (a counter of 24 significant bits stops at 16 777 216)".into(),
            exhaustive: true,
            extra: vec![],
        });
    }
    {
        let cs = callset_from_rows(3, &rows3[30..34], 1);
        rep.sample(J::obj([
            ("argv", J::strs(&["create", "-s", "s0=p0,s2=p1"])),
            ("stdin_vcf", J::s(String::from_utf8_lossy(&crate::gen::to_vcf(&cs).0))),
        ]));
    }
    {
        use crate::refmodel::RefArray;
        let sp: Vec<(RefArray, usize)> = vec![
            (RefArray::from_fn(&[5], |f, _| (f * 3 + 1) as f64), 0),
            (RefArray::from_fn(&[3, 5], |f, _| ((f * 7) % 11) as f64), 0),
            (RefArray::from_fn(&[3, 3, 3], |f, _| (f % 4) as f64 * 1000.0), 6),
            (RefArray::from_fn(&[65, 65], |f, _| (f % 17) as f64), 0),
        ];
        super::plain_streams_part(&mut rep, "C01", "count spectra of 5 .. 4 225 entries as create writes them (precision 0 and 6)", &sp);
    }
    rep.assumptions = vec![
        "reference create computed from genotype classes (harness/src/createmodel.rs::ref_create)".into(),
        "call sets beyond 5 samples / 4 populations are outside the bound; the per-record code is uniform in the number of samples".into(),
    ];
    rep.finish()
}

pub fn replay(case: &J) -> Option<Vec<String>> {
    match case.get("kind")?.as_str()? {
        "c01-lib" => {
            let map: Vec<Option<usize>> = case.get("map")?.as_str()?.chars().map(|c| c.to_digit(10).map(|d| d as usize)).collect();
            let rows: Vec<Vec<Cls>> = case
                .get("rows")?
                .as_arr()?
                .iter()
                .filter_map(|r| r.as_str())
                .map(|r| r.chars().map(|c| *Cls::ALL.iter().find(|k| k.letter() == c).unwrap()).collect())
                .collect();
            let mut v: Vec<Viol> = eval_rows(&map, &rows).into_iter().collect();
            if case.get("what")?.as_str()? == "unselected-ploidy" {
                v.extend(eval_unselected_ploidy(&map, &rows[0]));
            }
            Some(v.into_iter().map(|(k, w, _)| format!("{k} :: {w}")).collect())
        }
        "c01-script" => super::c11::replay_script(case),
        "c01-cli" => {
            let scratch = Scratch::new("c01r");
            let argv: Vec<String> = case.get("argv")?.as_arr()?.iter().filter_map(|a| a.as_str().map(|s| s.to_string())).collect();
            let mut argv = argv;
            if let Some(text) = case.get("samples_file_text").and_then(|t| t.as_str()) {
                let p = scratch.file(".samples", text.as_bytes());
                if let Some(i) = argv.iter().position(|a| a == "-S") {
                    argv[i + 1] = p.to_str()?.to_string();
                }
            }
            let mut args: Vec<&str> = argv.iter().map(|s| s.as_str()).collect();
            let bytes = crate::json::unhex(case.get("input_hex")?.as_str()?)?;
            let shape = case.get("expect_shape")?.as_usizes()?;
            let data: Vec<f64> = case.get("expect_data")?.as_arr()?.iter().filter_map(|v| v.as_f64()).collect();
            let expect = RefArray { shape: shape.clone(), data };
            let alt: Option<RefArray> = case.get("alt_expect_data").and_then(|a| a.as_arr()).map(|a| RefArray { shape: shape.clone(), data: a.iter().filter_map(|v| v.as_f64()).collect() });
            let path_holder;
            let o = match case.get("by_path_name").and_then(|n| n.as_str()) {
                Some(name) => {
                    let dir = scratch.path(".d");
                    std::fs::create_dir_all(&dir).ok()?;
                    path_holder = dir.join(name);
                    std::fs::write(&path_holder, &bytes).ok()?;
                    args.push(path_holder.to_str()?);
                    run_sfs(&args, Stdin::Null, &scratch)
                }
                None => run_sfs(&args, Stdin::Bytes(&bytes), &scratch),
            };
            if matches!(case.get("error_accepted"), Some(J::Bool(true))) && o.diagnosed_error() && o.stdout.is_empty() {
                return Some(vec![]);
            }
            if let Some(a) = &alt {
                if judge_stdout(&o, a).is_ok() {
                    return Some(vec![]);
                }
            }
            Some(match judge_stdout(&o, &expect) {
                Ok(()) => vec![],
                Err(e) => vec![format!("C01|cli|create-wrong :: {args:?}: {e}")],
            })
        }
        _ => None,
    }
}
