//! C05 — folding is mass-preserving, idempotent and symmetric under allele polarity.

use crate::{
    cli::{run_sfs, Scratch, Stdin},
    enumerate::shapes,
    json::J,
    par::{par_each, par_map},
    refmodel::{printed_ok, same_f64, RefArray},
    subject::{bit_labels, parse_out, ref_from_spectrum, scs_from_ref, text_of},
    verdict::{catch, norm_msg, Part, Report, Tier},
};

type Viol = (String, String, J);

const FILLS: [(&str, f64); 4] = [
    ("nan", f64::NAN),
    ("zero", 0.0),
    ("minus-one", -1.0),
    ("inf", f64::INFINITY),
];

fn labeled(shape: &[usize], labeling: &str) -> RefArray {
    match labeling {
        "bits" => bit_labels(shape),
        "lin" => RefArray::from_fn(shape, |f, _| (f + 1) as f64),
        "hash" => RefArray::from_fn(shape, |f, _| {
            ((f as u64 + 1).wrapping_mul(2_654_435_761) % 4_294_967_291) as f64
        }),
        // special values cycled through the cells
        "special" => {
            let alpha = [
                1.0,
                -0.0,
                f64::INFINITY,
                2.5,
                f64::NAN,
                f64::NEG_INFINITY,
                5e-324,
                1.797e308,
                -3.0,
                0.0,
            ];
            RefArray::from_fn(shape, |f, _| alpha[f % alpha.len()])
        }
        "special2" => {
            let alpha = [f64::NAN, 1e22, -1.0, f64::INFINITY, 0.5, -0.0, 1e-310];
            RefArray::from_fn(shape, |f, _| alpha[(f * 3 + 1) % alpha.len()])
        }
        other => {
            // "basis:K": 1 in cell K, 0 elsewhere; "holes:K": i+1 everywhere except exact zeros in
            // cell K and in its mirror cell (a zero mirror pair inside an otherwise full spectrum)
            let (kind, k) = other.split_once(':').expect("unknown labeling");
            let k: usize = k.parse().expect("labeling index");
            let n: usize = shape.iter().product();
            match kind {
                "basis" => RefArray::from_fn(shape, |f, _| if f == k { 1.0 } else { 0.0 }),
                "holes" => RefArray::from_fn(shape, |f, _| if f == k || f == n - 1 - k { 0.0 } else { (f + 1) as f64 }),
                _ => panic!("unknown labeling"),
            }
        }
    }
}

fn same_arr(a: &RefArray, b: &RefArray) -> bool {
    a.shape == b.shape
        && a.data.len() == b.data.len()
        && a.data.iter().zip(&b.data).all(|(x, y)| same_f64(*x, *y))
}

fn shape_class(shape: &[usize]) -> String {
    let total: usize = shape.iter().map(|n| n - 1).sum();
    format!(
        "{}d,{}{}",
        shape.len(),
        if total % 2 == 0 { "diag" } else { "nodiag" },
        if shape.iter().any(|&n| n == 1) { ",len1" } else { "" }
    )
}

fn case_j(shape: &[usize], labeling: &str, fill: &str) -> J {
    J::obj([
        ("kind", J::s("c05-lib")),
        ("shape", J::usizes(shape)),
        ("labeling", J::s(labeling)),
        ("fill", J::s(fill)),
    ])
}

fn real_fold(x: &RefArray, fill: f64) -> Result<RefArray, String> {
    catch(|| ref_from_spectrum(&scs_from_ref(x).fold().into_spectrum(fill)))
}

fn check_shape(shape: &[usize], labeling: &str) -> (u64, Vec<Viol>) {
    let x = labeled(shape, labeling);
    let finite = x.data.iter().all(|v| v.is_finite());
    let mut viols = Vec::new();
    let mut evals = 0;
    for (fname, fill) in FILLS {
        evals += 1;
        let expect = x.fold(fill);
        match real_fold(&x, fill) {
            Ok(got) => {
                if !same_arr(&got, &expect) {
                    viols.push((
                        format!("C05|lib|cells-wrong|{}", shape_class(shape)),
                        format!(
                            "fold(fill={fname}) of shape {shape:?} ({labeling}) = {:?}, expected {:?}",
                            got.data, expect.data
                        ),
                        case_j(shape, labeling, fname),
                    ));
                    continue;
                }
                // symmetric under allele polarity
                evals += 1;
                match real_fold(&x.mirror(), fill) {
                    Ok(m) if same_arr(&m, &got) => {}
                    other => viols.push((
                        format!("C05|lib|mirror-asymmetric|{}", shape_class(shape)),
                        format!("fold(mirror x) != fold(x) for shape {shape:?} fill {fname}: {other:?} vs {:?}", got.data),
                        case_j(shape, labeling, fname),
                    )),
                }
                if fname == "zero" && finite {
                    // mass and idempotence
                    evals += 2;
                    if got.sum() != x.sum() {
                        viols.push((
                            format!("C05|lib|mass-changed|{}", shape_class(shape)),
                            format!("fold(fill=0) of shape {shape:?} has mass {} instead of {}", got.sum(), x.sum()),
                            case_j(shape, labeling, fname),
                        ));
                    }
                    match real_fold(&got, 0.0) {
                        Ok(twice) if same_arr(&twice, &got) => {}
                        other => viols.push((
                            format!("C05|lib|not-idempotent|{}", shape_class(shape)),
                            format!("fold(fold(x)) != fold(x) for shape {shape:?}: {other:?} vs {:?}", got.data),
                            case_j(shape, labeling, fname),
                        )),
                    }
                }
            }
            Err(p) => viols.push((
                format!("C05|lib|panic|{}", norm_msg(&p)),
                format!("fold of shape {shape:?} panicked: {p}"),
                case_j(shape, labeling, fname),
            )),
        }
    }
    (evals, viols)
}

fn nontrivial(shape: &[usize]) -> bool {
    let total: usize = shape.iter().map(|n| n - 1).sum();
    total % 2 == 1 || shape.iter().any(|&n| n == 1) || shape.len() >= 3
}

/// `sfs fold` with every option it has, the input in either format over a given transport, the output
/// on stdout or in a file: the folded values must not depend on the route.
fn eval_route(shape: &[usize], fill_i: usize, precision: usize, npy_in: bool, transport: usize, sink_file: bool, scratch: &Scratch) -> Option<Viol> {
    use crate::cli::{run_sfs_transport, Transport};
    let fills: [(&str, f64); 4] = [("nan", f64::NAN), ("zero", 0.0), ("minus-one", -1.0), ("inf", f64::INFINITY)];
    let (fname, fill) = fills[fill_i];
    let x = labeled(shape, "lin");
    let (bytes, suffix) = if npy_in {
        let data: Vec<u8> = x.data.iter().flat_map(|v| v.to_le_bytes()).collect();
        (crate::npyref::synth(1, &crate::npyref::dict_text("<f8", false, &x.shape, &crate::npyref::Spelling::numpy()), &data), ".npy")
    } else {
        (text_of(&x).into_bytes(), ".sfs")
    };
    let ps = precision.to_string();
    let out_path = scratch.path(".route.sfs");
    let mut a: Vec<&str> = vec!["fold", "--fill", fname, "--precision", &ps];
    if sink_file {
        a.extend(["--output", out_path.to_str().unwrap()]);
    }
    let tr = Transport::ALL[transport];
    let mut o = run_sfs_transport(&a, &bytes, tr, suffix, scratch);
    let mut problem = None;
    if sink_file {
        if o.ok() && !o.stdout.is_empty() {
            problem = Some(format!("wrote {} bytes to stdout although --output was given", o.stdout.len()));
        }
        o.stdout = std::fs::read(&out_path).unwrap_or_default();
        let _ = std::fs::remove_file(&out_path);
    }
    let expect = x.fold(fill);
    if problem.is_none() {
        problem = match parse_out(&o) {
            Ok(got) if got.shape == expect.shape && got.data.len() == expect.data.len() && got.data.iter().zip(&expect.data).all(|(g, e)| printed_ok(*g, *e, precision)) => None,
            other => Some(format!("gave {other:?}, expected {:?}", expect.data)),
        };
    }
    problem.map(|w| {
        (
            format!("C05|cli|fold-route|{}|{}", if npy_in { "npy-in" } else { "text-in" }, if sink_file { "--output" } else { "stdout" }),
            format!("sfs fold --fill {fname} --precision {precision} on shape {shape:?} given as {} over {tr:?}, output to {}: {w}", if npy_in { "npy" } else { "text" }, if sink_file { "a file" } else { "stdout" }),
            J::obj([("kind", J::s("c05-route")), ("shape", J::usizes(shape)), ("fill", J::u(fill_i)), ("precision", J::u(precision)), ("npy_in", J::Bool(npy_in)), ("transport", J::u(transport)), ("sink_file", J::Bool(sink_file))]),
        )
    })
}

fn eval_cli(shape: &[usize], labeling: &str, fname: &str, fill: f64, scratch: &Scratch) -> Vec<Viol> {
    let x = labeled(shape, labeling);
    let input = text_of(&x);
    let o = run_sfs(&["fold", "--fill", fname], Stdin::Bytes(input.as_bytes()), scratch);
    let expect = x.fold(fill);
    match parse_out(&o) {
        Ok(got)
            if got.shape == expect.shape
                && got.data.len() == expect.data.len()
                && got.data.iter().zip(&expect.data).all(|(g, e)| printed_ok(*g, *e, 6)) =>
        {
            vec![]
        }
        other => vec![(
            format!("C05|cli|fold-wrong|{}", shape_class(shape)),
            format!("sfs fold --fill {fname} on shape {shape:?} gave {other:?}, expected {:?}", expect.data),
            J::obj([
                ("kind", J::s("c05-cli")),
                ("shape", J::usizes(shape)),
                ("labeling", J::s(labeling)),
                ("fill", J::s(fname)),
                ("stdin", J::s(input)),
            ]),
        )],
    }
}

pub fn run(tier: Tier) -> i32 {
    let mut rep = Report::new("C05", tier, "exploration");
    rep.rule = "L1: every shape in the bound x fill in {nan,0,-1,inf}: cell-by-cell equality with the multi-index definition, mass and idempotence with fill 0, fold(mirror x)=fold(x); label spectra (bit labels / integer labelings, exact on the diagonal) plus two special-value fillings. L2: `sfs fold --fill`. Non-trivial = odd total, a length-1 axis, or >=3 axes.".into();

    let shp = shapes(4, 1, 7, 52);
    let res = par_each(&shp, |s| check_shape(s, "bits"));
    let mut ev = 0;
    for (e, v) in res {
        ev += e;
        for (k, w, j) in v {
            rep.violation(k, w, j);
        }
    }
    rep.part(Part {
        name: "lib: bit-label spectra".into(),
        evaluations: ev,
        nontrivial: 4 * shp.iter().filter(|s| nontrivial(s)).count() as u64,
        note: format!("{} shapes (1..4 axes, lengths 1..7, <=52 cells) x 4 fills", shp.len()),
        exhaustive: true,
        extra: vec![],
    });
    rep.sample(J::obj([
        ("shape", J::usizes(&[3, 4])),
        ("input", J::f64s(&bit_labels(&[3, 4]).data)),
        ("fill", J::s("minus-one")),
        ("expected", J::f64s(&bit_labels(&[3, 4]).fold(-1.0).data)),
    ]));

    // scale: many axes (every shape over lengths {1,2} with 6..9 axes) and long axes (255..65537)
    {
        let mut sc = crate::enumerate::scale_shapes(tier.pick(9, 11));
        // total allele counts beyond 2^24 (the f32 integer limit), odd and even
        sc.push(vec![16_777_218]);
        sc.push(vec![16_777_219]);
        if tier.thorough() {
            // the same totals spread over two axes, and beyond 2^25
            sc.push(vec![2, 16_777_217]);
            sc.push(vec![16_777_217, 2]);
            sc.push(vec![3, 16_777_217]);
            sc.push(vec![33_554_434]);
            sc.push(vec![33_554_435]);
        }
        let res = par_each(&sc, |s| {
            // definition check with integer labels (exact) for two fills; mirror symmetry
            let x = RefArray::from_fn(s, |f, _| ((f * 7) % 1013 + 1) as f64);
            let mut viols: Vec<Viol> = Vec::new();
            for (fname, fill) in [("zero", 0.0), ("nan", f64::NAN)] {
                let expect = x.fold(fill);
                match real_fold(&x, fill) {
                    Ok(got) if same_arr(&got, &expect) => {}
                    Ok(got) => {
                        let at = got.data.iter().zip(&expect.data).position(|(a, b)| !same_f64(*a, *b));
                        viols.push((format!("C05|lib|cells-wrong|scale,{}axes", s.len().min(6)), format!("fold(fill={fname}) of shape {s:?}: first wrong cell at flat position {at:?}"), case_j(s, "lin", fname)));
                    }
                    Err(p) => viols.push((format!("C05|lib|panic|{}", norm_msg(&p)), format!("fold of shape {s:?} panicked: {p}"), case_j(s, "lin", fname))),
                }
            }
            viols
        });
        for v in res.into_iter().flatten() {
            rep.violation(v.0, v.1, v.2);
        }
        rep.part(Part {
            name: "lib: scale (many axes, long axes)".into(),
            evaluations: 2 * sc.len() as u64,
            nontrivial: 2 * sc.len() as u64,
            note: format!("{} shapes: every shape over lengths {{1,2}} with 6..{} axes, 3^7, (2,3)^4, and axes of 255..65 537 entries alone and next to short axes, 2^24+2 and 2^24+3 entries (thorough: also those totals over two axes and 2^25+2, 2^25+3 entries); fills 0 and NaN against the multi-index definition", sc.len(), tier.pick(9, 11)),
            exhaustive: true,
            extra: vec![],
        });
    }
    // every total: the line between kept, averaged and filled entries is drawn by comparing an index sum
    // with half the total - one-axis and two-axis shapes for every total T in 1..=1200 (thorough 4000)
    {
        let t_max = tier.pick(1200usize, 4000usize);
        let tshapes: Vec<Vec<usize>> = (1..=t_max).flat_map(|t| if t >= 2 { vec![vec![t + 1], vec![t / 3 + 1, t - t / 3 + 1]] } else { vec![vec![t + 1]] }).collect();
        let res = par_each(&tshapes, |s| {
            let x = RefArray::from_fn(s, |f, _| ((f * 7) % 1013 + 1) as f64);
            let expect = x.fold(0.0);
            match real_fold(&x, 0.0) {
                Ok(got) if same_arr(&got, &expect) => None,
                Ok(got) => {
                    let at = got.data.iter().zip(&expect.data).position(|(a, b)| !same_f64(*a, *b));
                    Some((format!("C05|lib|cells-wrong|every-total,{}axes", s.len()), format!("fold(fill=zero) of shape {s:?} (total {}): first wrong cell at flat position {at:?}", s.iter().map(|n| n - 1).sum::<usize>()), case_j(s, "lin", "zero")))
                }
                Err(p) => Some((format!("C05|lib|panic|{}", norm_msg(&p)), format!("fold of shape {s:?} panicked: {p}"), case_j(s, "lin", "zero"))),
            }
        });
        for v in res.into_iter().flatten() {
            rep.violation(v.0, v.1, v.2);
        }
        rep.part(Part {
            name: "lib: every total".into(),
            evaluations: tshapes.len() as u64,
            nontrivial: tshapes.len() as u64,
            note: format!("shapes [T+1] and [T/3+1, T-T/3+1] for every total T in 1..={t_max}: fill 0 against the multi-index definition"),
            exhaustive: true,
            extra: vec![],
        });
    }
    // values that are not whole numbers, and infinite ones: the relations of the statement hold to the
    // bit (both members of a diagonal pair get the same average, folding twice is folding once, the
    // mirrored input folds to the same spectrum), the values within two units in the last place
    {
        let fshapes: Vec<Vec<usize>> = shapes(3, 1, 6, 40);
        let res = par_each(&fshapes, |sh| {
            let mut viols: Vec<Viol> = Vec::new();
            for (vname, values) in [("tenths", [0.1f64, 0.7, 0.3, 1.1, 2.3, 0.9, 1e-3, 5.7]), ("with-inf", [0.1f64, f64::INFINITY, 0.3, 1.1, 2.3, 0.9, 1e-3, 5.7])] {
                let x = RefArray::from_fn(sh, |f, _| values[(f * 3 + f / 5) % values.len()] * (1.0 + f as f64));
                let mirrored = RefArray { shape: x.shape.clone(), data: x.data.iter().rev().cloned().collect() };
                let expect = x.fold(0.0);
                let r = catch(|| {
                    let once = real_fold(&x, 0.0)?;
                    let twice = real_fold(&once, 0.0)?;
                    let of_mirror = real_fold(&mirrored, 0.0)?;
                    Ok::<_, String>((once, twice, of_mirror))
                });
                let problem = match r {
                    Ok(Ok((once, twice, of_mirror))) => {
                        let n = once.data.len();
                        let ulps = |a: f64, b: f64| (a.is_nan() && b.is_nan()) || a == b || (a - b).abs() <= 4.0 * f64::EPSILON * b.abs();
                        if once.shape != expect.shape || !once.data.iter().zip(&expect.data).all(|(a, b)| ulps(*a, *b)) {
                            Some(format!("fold gives {:?}, the definition {:?}", once.data, expect.data))
                        } else if !same_arr(&twice, &once) {
                            Some(format!("folding twice gives {:?}, folding once {:?}", twice.data, once.data))
                        } else if !same_arr(&of_mirror, &once) {
                            Some(format!("the mirrored input folds to {:?}, the input to {:?}", of_mirror.data, once.data))
                        } else {
                            // diagonal pairs: position i and its mirror n-1-i hold the same value when both are kept
                            (0..n).find(|&i| {
                                let s: usize = { let mut f = i; let mut acc = 0usize; for a in (0..sh.len()).rev() { acc += f % sh[a]; f /= sh[a]; } acc };
                                let t: usize = sh.iter().map(|k| k - 1).sum();
                                2 * s == t && !same_f64(once.data[i], once.data[n - 1 - i])
                            })
                            .map(|i| format!("the diagonal pair at flat positions {i} and {} holds {} and {}", n - 1 - i, once.data[i], once.data[n - 1 - i]))
                        }
                    }
                    Ok(Err(e)) => Some(format!("panic: {e}")),
                    Err(p) => Some(format!("panic: {p}")),
                };
                if let Some(why) = problem {
                    if viols.len() < 2 {
                        viols.push((format!("C05|lib|relations|{vname}|{}", shape_class(sh)), format!("shape {sh:?}, {vname} values: {why}"), J::obj([("kind", J::s("c05-relations")), ("shape", J::usizes(sh)), ("values", J::s(vname))])));
                    }
                }
            }
            viols
        });
        for v in res.into_iter().flatten() {
            rep.violation(v.0, v.1, v.2);
        }
        rep.part(Part {
            name: "lib: fractional and infinite values".into(),
            evaluations: 2 * fshapes.len() as u64,
            nontrivial: 2 * fshapes.len() as u64,
            note: format!("{} shapes x {{multiples of tenths, the same with infinite entries}}: the fold within 4 ulp of the definition, idempotent, polarity-symmetric and equal on the two members of every diagonal pair, each to the bit", fshapes.len()),
            exhaustive: true,
            extra: vec![],
        });
    }
    // sparse spectra: every basis vector and every zero mirror pair (a fold that treats zeros
    // specially is not linear, so label spectra without zeros cannot see it)
    let sparse_shapes: Vec<Vec<usize>> = shapes(4, 1, 7, tier.pick(30, 52));
    let mut sparse_jobs: Vec<(usize, String)> = Vec::new();
    for (si, sh) in sparse_shapes.iter().enumerate() {
        let n: usize = sh.iter().product();
        for k in 0..n {
            sparse_jobs.push((si, format!("basis:{k}")));
            if k <= n - 1 - k {
                sparse_jobs.push((si, format!("holes:{k}")));
            }
        }
    }
    let res = par_map(sparse_jobs.len(), |i| check_shape(&sparse_shapes[sparse_jobs[i].0], &sparse_jobs[i].1));
    let mut ev = 0;
    for (e, v) in res {
        ev += e;
        for (k, w, j) in v {
            rep.violation(k, w, j);
        }
    }
    rep.part(Part {
        name: "lib: basis vectors and zero mirror pairs".into(),
        evaluations: ev,
        nontrivial: ev,
        note: format!("{} shapes (<= {} cells): every basis spectrum and every spectrum with an exactly-zero mirror pair x 4 fills ({} spectra)", sparse_shapes.len(), tier.pick(30, 52), sparse_jobs.len()),
        exhaustive: true,
        extra: vec![],
    });

    // folding values reached through other library calls: a frequency spectrum (into_normalized), and
    // a spectrum filled by clone_from into a value that had another shape
    {
        let fshapes: Vec<Vec<usize>> = shapes(3, 1, 5, 30);
        let fills: [(&str, f64); 4] = [("nan", f64::NAN), ("zero", 0.0), ("minus-one", -1.0), ("inf", f64::INFINITY)];
        let fres = par_map(fshapes.len(), |si| {
            let sh = &fshapes[si];
            let x = labeled(sh, "lin");
            let total = x.sum();
            let normalized = RefArray { shape: x.shape.clone(), data: x.data.iter().map(|v| v / total).collect() };
            let mut viols: Vec<Viol> = Vec::new();
            let mut n = 0u64;
            for (fi, (fname, fill)) in fills.iter().enumerate() {
                n += 2;
                let expect = normalized.fold(*fill);
                let got = catch(|| {
                    let sfs = scs_from_ref(&x).into_normalized();
                    let f = sfs.fold().into_spectrum(*fill);
                    RefArray { shape: f.shape().to_vec(), data: f.inner().as_slice().to_vec() }
                });
                let close = |g: &RefArray| g.shape == expect.shape && g.data.iter().zip(&expect.data).all(|(a, b)| (a.is_nan() && b.is_nan()) || a == b || (a - b).abs() <= 1e-12 * b.abs());
                if !matches!(&got, Ok(g) if close(g)) && viols.len() < 3 {
                    viols.push((
                        format!("C05|lib|fold-of-frequency-spectrum|{}", shape_class(sh)),
                        format!("into_normalized().fold().into_spectrum({fname}) on shape {sh:?} gives {:?}, expected {:?}", got.map(|g| g.data), expect.data),
                        J::obj([("kind", J::s("c05-sfs")), ("shape", J::usizes(sh)), ("fill", J::u(fi))]),
                    ));
                }
                // clone_from into a value of the reversed shape, then fold
                let mut rev = sh.clone();
                rev.reverse();
                let expect2 = x.fold(*fill);
                let got2 = catch(|| {
                    let mut work = scs_from_ref(&RefArray::from_fn(&rev, |f, _| 500.0 + f as f64));
                    work.clone_from(&scs_from_ref(&x));
                    ref_from_spectrum(&work.fold().into_spectrum(*fill))
                });
                if !matches!(&got2, Ok(g) if same_arr(g, &expect2)) && viols.len() < 3 {
                    viols.push((
                        format!("C05|lib|fold-after-clone_from|{}", shape_class(sh)),
                        format!("a spectrum of shape {rev:?} overwritten by clone_from with one of shape {sh:?} and folded (fill {fname}) gives {:?}, expected {:?}", got2.map(|g| (g.shape, g.data)), expect2.data),
                        J::obj([("kind", J::s("c05-clonefrom")), ("shape", J::usizes(sh)), ("fill", J::u(fi))]),
                    ));
                }
            }
            (n, viols)
        });
        let mut ev = 0;
        for (n, v) in fres {
            ev += n;
            for (k, w, j) in v {
                rep.violation(k, w, j);
            }
        }
        rep.part(Part {
            name: "lib: fold of frequency spectra and of clone_from targets".into(),
            evaluations: ev,
            nontrivial: ev,
            note: format!("{} shapes x 4 fills: into_normalized().fold().into_spectrum(fill) is the fold of the normalized values (the fill is not normalized away); a value of the reversed shape overwritten by clone_from folds like its source", fshapes.len()),
            exhaustive: true,
            extra: vec![],
        });
    }
    // unfold histories: one folded value (and a clone of it) turned into a spectrum twice, for every
    // ordered pair of fill values - the second result must not remember the first fill
    {
        let ushapes: Vec<Vec<usize>> = shapes(4, 1, 7, tier.pick(30, 52));
        let fills: [(&str, f64); 4] = [("nan", f64::NAN), ("zero", 0.0), ("minus-one", -1.0), ("inf", f64::INFINITY)];
        let ures = par_map(ushapes.len(), |si| {
            let sh = &ushapes[si];
            let x = labeled(sh, "lin");
            let mut viols: Vec<Viol> = Vec::new();
            let mut n = 0u64;
            for (i1, (n1, f1)) in fills.iter().enumerate() {
                for (i2, (n2, f2)) in fills.iter().enumerate() {
                    for via_clone in [false, true] {
                        n += 1;
                        let expect = x.fold(*f2);
                        let got = catch(|| {
                            let folded = scs_from_ref(&x).fold();
                            let _first = folded.into_spectrum(*f1);
                            if via_clone {
                                ref_from_spectrum(&folded.clone().into_spectrum(*f2))
                            } else {
                                ref_from_spectrum(&folded.into_spectrum(*f2))
                            }
                        });
                        match got {
                            Ok(g) if same_arr(&g, &expect) => {}
                            other => {
                                if viols.len() < 3 {
                                    viols.push((
                                        format!("C05|lib|unfold-depends-on-earlier-unfold|{}", shape_class(sh)),
                                        format!("fold of shape {sh:?}: into_spectrum({n1}) and then {}into_spectrum({n2}) on the same folded value gives {:?}, expected {:?}", if via_clone { "clone()." } else { "" }, other.map(|g| g.data), expect.data),
                                        J::obj([("kind", J::s("c05-unfold")), ("shape", J::usizes(sh)), ("first", J::u(i1)), ("second", J::u(i2)), ("via_clone", J::Bool(via_clone))]),
                                    ));
                                }
                            }
                        }
                    }
                }
            }
            (n, viols)
        });
        let mut ev = 0;
        for (n, v) in ures {
            ev += n;
            for (k, w, j) in v {
                rep.violation(k, w, j);
            }
        }
        rep.transitions += 2 * ev;
        rep.part(Part {
            name: "lib: unfold after unfold (histories on one folded value)".into(),
            evaluations: ev,
            nontrivial: ev,
            note: format!("{} shapes x every ordered pair of the 4 fills x {{same value, clone}}: the second into_spectrum(fill) gives the reference fold for its own fill", ushapes.len()),
            exhaustive: true,
            extra: vec![],
        });
    }
    // call histories: fold(A) then fold(B) on one thread, for every ordered pair of shapes - a fold
    // must not depend on what was folded before it (scratch tables, caches keyed too coarsely)
    let hshapes: Vec<Vec<usize>> = shapes(4, 1, 7, tier.pick(30, 52));
    let hres = par_map(hshapes.len(), |ai| {
        let a = labeled(&hshapes[ai], "lin");
        let mut viols: Vec<Viol> = Vec::new();
        let mut n = 0u64;
        for b_shape in &hshapes {
            n += 1;
            let b = labeled(b_shape, "lin");
            let expect = b.fold(-1.0);
            let got = catch(|| {
                let _ = scs_from_ref(&a).fold().into_spectrum(0.0);
                ref_from_spectrum(&scs_from_ref(&b).fold().into_spectrum(-1.0))
            });
            match got {
                Ok(g) if same_arr(&g, &expect) => {}
                other => {
                    if viols.len() < 3 {
                        viols.push((
                            format!("C05|lib|fold-depends-on-previous-fold|{}", shape_class(b_shape)),
                            format!("fold of shape {b_shape:?} directly after a fold of shape {:?} on the same thread gives {:?}, expected {:?}", hshapes[ai], other.map(|g| g.data), expect.data),
                            J::obj([("kind", J::s("c05-hist")), ("first", J::usizes(&hshapes[ai])), ("shape", J::usizes(b_shape))]),
                        ));
                    }
                }
            }
        }
        (n, viols)
    });
    let mut ev = 0;
    for (n, v) in hres {
        ev += n;
        for (k, w, j) in v {
            rep.violation(k, w, j);
        }
    }
    rep.states += hshapes.len() as u64;
    rep.transitions += ev;
    rep.part(Part {
        name: "lib: fold after fold (call histories of length 2)".into(),
        evaluations: ev,
        nontrivial: ev,
        note: format!("every ordered pair of the {} shapes with <= {} cells folded back to back on one thread; the second result must be the one a fresh process gives", hshapes.len(), tier.pick(30, 52)),
        exhaustive: true,
        extra: vec![],
    });

    let all = shapes(4, 1, 7, usize::MAX);
    let labs: &[&str] = if tier.thorough() {
        &["lin", "hash", "special", "special2"]
    } else {
        &["lin", "special"]
    };
    for lab in labs {
        let res = par_each(&all, |s| check_shape(s, lab));
        let mut ev = 0;
        for (e, v) in res {
            ev += e;
            for (k, w, j) in v {
                rep.violation(k, w, j);
            }
        }
        rep.part(Part {
            name: format!("lib: labeling '{lab}'"),
            evaluations: ev,
            nontrivial: 4 * all.iter().filter(|s| nontrivial(s)).count() as u64,
            note: format!("{} shapes (1..4 axes, lengths 1..7) x 4 fills", all.len()),
            exhaustive: true,
            extra: vec![],
        });
    }

    // L2
    let scratch = Scratch::new("c05");
    let mut cli_shapes: Vec<Vec<usize>> = vec![
        vec![1], vec![2], vec![4], vec![5], vec![3, 3], vec![2, 4], vec![3, 4], vec![1, 3],
        vec![2, 3, 2], vec![3, 3, 3], vec![2, 1, 2, 3], vec![3, 2, 2, 2],
    ];
    if tier.thorough() {
        cli_shapes = shapes(4, 1, 4, usize::MAX);
    }
    let mut cases: Vec<(Vec<usize>, &str, &str, f64)> = Vec::new();
    for s in &cli_shapes {
        for (fname, fill) in FILLS {
            cases.push((s.clone(), "lin", fname, fill));
        }
        cases.push((s.clone(), "special", "zero", 0.0));
        cases.push((s.clone(), "special2", "nan", f64::NAN));
        cases.push((s.clone(), "basis:0", "minus-one", -1.0));
        cases.push((s.clone(), "holes:0", "inf", f64::INFINITY));
    }
    let res = par_map(cases.len(), |i| {
        let (s, lab, fname, fill) = &cases[i];
        eval_cli(s, lab, fname, *fill, &scratch)
    });
    for v in res.into_iter().flatten() {
        rep.violation(v.0, v.1, v.2);
    }
    // verbosity flags must not change what fold prints
    {
        let fl = ["-q", "-qq", "-v", "-vv"];
        let shapes_f: Vec<Vec<usize>> = vec![vec![5], vec![3, 4], vec![2, 3, 2]];
        let mut n = 0u64;
        for sh in &shapes_f {
            let input = text_of(&labeled(sh, "lin"));
            for (fname, _) in FILLS {
                let base = run_sfs(&["fold", "--fill", fname], Stdin::Bytes(input.as_bytes()), &scratch);
                for f in fl {
                    n += 1;
                    let o = run_sfs(&["fold", "--fill", fname, f], Stdin::Bytes(input.as_bytes()), &scratch);
                    if o.code != base.code || o.stdout != base.stdout {
                        rep.violation(
                            format!("C05|cli|verbosity-changes-output|{f}"),
                            format!("sfs fold --fill {fname} {f} on shape {sh:?}: {} {:?}; without the flag {} {:?}", o.status_str(), o.stdout_str(), base.status_str(), base.stdout_str()),
                            J::obj([("kind", J::s("c05-flag")), ("shape", J::usizes(sh)), ("fill", J::s(fname)), ("flag", J::s(f))]),
                        );
                    }
                }
            }
        }
        rep.part(Part {
            name: "cli: verbosity flags".into(),
            evaluations: n,
            nontrivial: n,
            note: "3 shapes x 4 fills x {-q,-qq,-v,-vv}: same status and byte-identical stdout as without the flag".into(),
            exhaustive: true,
            extra: vec![],
        });
    }
    // every fold option x input format x transport x sink
    {
        let mut rj: Vec<(Vec<usize>, usize, usize, bool, usize, bool)> = Vec::new();
        for sh in [vec![5usize], vec![3, 4], vec![2, 3, 2]] {
            for fill_i in 0..4usize {
                for precision in [0usize, 6, 12] {
                    for npy_in in [false, true] {
                        for t in 0..crate::cli::Transport::ALL.len() {
                            for sink_file in [false, true] {
                                rj.push((sh.clone(), fill_i, precision, npy_in, t, sink_file));
                            }
                        }
                    }
                }
            }
        }
        let res = par_map(rj.len(), |i| eval_route(&rj[i].0, rj[i].1, rj[i].2, rj[i].3, rj[i].4, rj[i].5, &scratch));
        for v in res.into_iter().flatten() {
            rep.violation(v.0, v.1, v.2);
        }
        rep.part(Part {
            name: "cli: fold options x input format x transport x sink".into(),
            evaluations: rj.len() as u64,
            nontrivial: rj.len() as u64,
            note: "3 shapes x 4 fills x precision {0,6,12} x input text / npy x {stdin file, stdin pipe, path, FIFO, /dev/stdin} x {stdout, --output file}: every printed value against the reference fold".into(),
            exhaustive: true,
            extra: vec![],
        });
    }
    // the library's writers and readers on plain streams (writers that take a few bytes per call and
    // implement only write / flush, a writer that is full, buffered readers of small capacities)
    {
        let spectra: Vec<RefArray> = vec![labeled(&[5], "lin").fold(0.0), labeled(&[3, 4], "lin").fold(-1.0), labeled(&[2, 3, 2], "lin").fold(f64::NAN)];
        let mut n = 0u64;
        for x in &spectra {
            for precision in [0usize, 6] {
                n += 1;
                let scs = crate::subject::scs_from_ref(x);
                let r = crate::verdict::catch(|| crate::subject::io_through_plain_streams(&scs, precision));
                let problem = match r {
                    Ok(p) => p,
                    Err(p) => Some(format!("panic: {p}")),
                };
                if let Some(why) = problem {
                    rep.violation("C05|lib|plain-streams".to_string(), format!("spectrum of shape {:?} at precision {precision}: {why}", x.shape), J::obj([("kind", J::s("plain-streams")), ("shape", J::usizes(&x.shape))]));
                }
            }
        }
        rep.part(Part {
            name: "lib: folded spectra written through plain writers".into(),
            evaluations: n,
            nontrivial: n,
            note: "each spectrum in text and npy through writers accepting 1 / 7 / 64 bytes per call (only write and flush implemented): the bytes a Vec receives; into a writer that is full (Ok(0)) after 0, 1, half, all but one byte: not a success; the npy bytes read back through buffered readers of capacity 1, 3, 7, 8, 12, 20, 100, 127, 129".into(),
            exhaustive: true,
            extra: vec![],
        });
    }
    {
        let mut sp: Vec<(Vec<String>, Vec<u8>)> = Vec::new();
        for sh in [vec![5usize], vec![3, 4], vec![2, 3, 2]] {
            let input = text_of(&labeled(&sh, "lin")).into_bytes();
            for fill in ["nan", "zero", "minus-one", "inf"] {
                for extra in [vec![], vec!["--precision", "2"], vec!["-p", "0", "-v"]] {
                    let mut a: Vec<String> = vec!["fold".into(), "--fill".into(), fill.into()];
                    a.extend(extra.iter().map(|e| e.to_string()));
                    sp.push((a, input.clone()));
                }
            }
            sp.push((vec!["fold".into()], input.clone()));
        }
        super::spelling_part(&mut rep, "C05", "fold with every fill, with and without a precision", &sp, &scratch);
    }
    // the input stored as an npy file of every element type: folded like the same values given as text
    {
        let mut nj: Vec<(Vec<usize>, &'static str, u8)> = Vec::new();
        for shape in [vec![9usize], vec![3, 5], vec![3, 3, 3]] {
            for (k, descr) in super::NPY_DESCRS.into_iter().enumerate() {
                nj.push((shape.clone(), descr, [1u8, 2, 3][(k + shape.len()) % 3]));
            }
        }
        let res = par_map(nj.len(), |i| {
            let (shape, descr, version) = &nj[i];
            let (npy, text) = super::typed_npy_and_text(shape, descr, *version);
            let a = run_sfs(&["fold", "--precision", "17"], Stdin::Bytes(text.as_bytes()), &scratch);
            let b = run_sfs(&["fold", "--precision", "17"], Stdin::Bytes(&npy), &scratch);
            if a.ok() && b.ok() && a.stdout == b.stdout {
                None
            } else {
                Some((
                    format!("C05|cli|npy-input-folds-differently|{}", descr.trim_start_matches(['<', '>', '|'])),
                    format!("shape {shape:?} stored as {descr} (format {version}.0): `sfs fold` gives {} {:?} on the npy file and {} {:?} on the same values as text", b.status_str(), b.stdout_str(), a.status_str(), a.stdout_str()),
                    J::obj([("kind", J::s("c05-npy-input")), ("shape", J::usizes(shape)), ("descr", J::s(*descr)), ("version", J::Int(*version as i64))]),
                ))
            }
        });
        for v in res.into_iter().flatten() {
            rep.violation(v.0, v.1, v.2);
        }
        rep.part(Part {
            name: "cli: fold of npy files of every element type".into(),
            evaluations: nj.len() as u64,
            nontrivial: nj.len() as u64,
            note: "spectra with 1..3 axes stored as f8, f4 and the signed and unsigned integers of 1, 2, 4 and 8 bytes, little- and big-endian, format 1.0 / 2.0 / 3.0 in turn (entries beyond the range of the signed and of the next smaller type): the fold printed with 17 decimals must be that of the same values given as text".into(),
            exhaustive: true,
            extra: vec![],
        });
    }
    // `fold --output FILE` onto a fresh path and onto a longer existing file: the file must hold exactly what stdout would
    {
        let mut oj: Vec<(Vec<usize>, bool)> = Vec::new();
        for s in [vec![5usize], vec![3, 4], vec![2, 3, 2]] {
            for stale in [false, true] {
                oj.push((s.clone(), stale));
            }
        }
        // in place: the input file named as the output
        for s in [vec![5usize], vec![3, 4], vec![2, 3, 2]] {
            for npy_in in [false, true] {
                let x = labeled(&s, "lin");
                let bytes = if npy_in {
                    let data: Vec<u8> = x.data.iter().flat_map(|v| v.to_le_bytes()).collect();
                    crate::npyref::synth(1, &crate::npyref::dict_text("<f8", false, &x.shape, &crate::npyref::Spelling::numpy()), &data)
                } else {
                    text_of(&x).into_bytes()
                };
                let to_stdout = run_sfs(&["fold", "--fill", "zero"], Stdin::Bytes(&bytes), &scratch);
                let path = scratch.file(if npy_in { ".inplace.npy" } else { ".inplace.sfs" }, &bytes);
                let o = run_sfs(&["fold", "--fill", "zero", "--output", path.to_str().unwrap(), path.to_str().unwrap()], Stdin::Null, &scratch);
                let written = std::fs::read(&path).unwrap_or_default();
                let _ = std::fs::remove_file(&path);
                if !(o.ok() && to_stdout.ok() && written == to_stdout.stdout) {
                    rep.violation(
                        format!("C05|cli|fold-output-file-differs|in-place|{}", if npy_in { "npy" } else { "text" }),
                        format!("sfs fold --fill zero --output F F on shape {s:?} ({} input): {} {}; the file holds {:?}, stdout of the same fold is {:?}", if npy_in { "npy" } else { "text" }, o.status_str(), o.stderr_str().trim(), String::from_utf8_lossy(&written), to_stdout.stdout_str()),
                        J::obj([("kind", J::s("c05-inplace")), ("shape", J::usizes(&s)), ("npy_in", J::Bool(npy_in))]),
                    );
                }
            }
        }
        let res = par_map(oj.len(), |i| {
            let (shape, stale) = &oj[i];
            let x = labeled(shape, "lin");
            let input = text_of(&x);
            let to_stdout = run_sfs(&["fold", "--fill", "zero"], Stdin::Bytes(input.as_bytes()), &scratch);
            let path = scratch.path(".folded.sfs");
            if *stale {
                std::fs::write(&path, text_of(&labeled(&[7, 7], "lin")).repeat(3)).ok();
            }
            let o = run_sfs(&["fold", "--fill", "zero", "--output", path.to_str().unwrap()], Stdin::Bytes(input.as_bytes()), &scratch);
            let written = std::fs::read(&path).unwrap_or_default();
            let _ = std::fs::remove_file(&path);
            if o.ok() && to_stdout.ok() && written == to_stdout.stdout && o.stdout.is_empty() {
                None
            } else {
                Some((
                    format!("C05|cli|fold-output-file-differs|{}", if *stale { "existing-longer-file" } else { "fresh-path" }),
                    format!("sfs fold --fill zero --output FILE on shape {shape:?} ({}): {}; file holds {:?}, stdout of the same command without --output is {:?}", if *stale { "FILE existed and was longer" } else { "fresh FILE" }, o.status_str(), String::from_utf8_lossy(&written), to_stdout.stdout_str()),
                    J::obj([("kind", J::s("c05-out")), ("shape", J::usizes(shape)), ("stale", J::Bool(*stale))]),
                ))
            }
        });
        for v in res.into_iter().flatten() {
            rep.violation(v.0, v.1, v.2);
        }
        rep.part(Part {
            name: "cli: sfs fold --output".into(),
            evaluations: oj.len() as u64 + 6,
            nontrivial: oj.len() as u64 + 6,
            note: "3 shapes x {fresh path, longer pre-existing file, the input file itself (text and npy input)}: the file must hold exactly the bytes the command prints without --output".into(),
            exhaustive: true,
            extra: vec![],
        });
    }
    rep.part(Part {
        name: "cli: sfs fold --fill".into(),
        evaluations: cases.len() as u64,
        nontrivial: cases.iter().filter(|c| nontrivial(&c.0)).count() as u64,
        note: format!("{} shapes x 4 fills + special-value inputs, stdout compared token-wise", cli_shapes.len()),
        exhaustive: true,
        extra: vec![],
    });
    rep.assumptions = vec![
        "reference RefArray::fold written from the statement on multi-indices".into(),
        "'all value vectors': folding is linear away from the fill cells, so label spectra on every shape decide it; plus a finite special-value alphabet".into(),
    ];
    rep.finish()
}

pub fn replay(case: &J) -> Option<Vec<String>> {
    let shape = case.get("shape")?.as_usizes()?;
    let lab = case.get("labeling").and_then(|l| l.as_str()).unwrap_or("lin").to_string();
    match case.get("kind")?.as_str()? {
        "c05-npy-input" => {
            let scratch = Scratch::new("c05r");
            let descr = super::NPY_DESCRS.into_iter().find(|d| Some(*d) == case.get("descr").and_then(|x| x.as_str()))?;
            let (npy, text) = super::typed_npy_and_text(&shape, descr, case.get("version")?.as_i64()? as u8);
            let a = run_sfs(&["fold", "--precision", "17"], Stdin::Bytes(text.as_bytes()), &scratch);
            let b = run_sfs(&["fold", "--precision", "17"], Stdin::Bytes(&npy), &scratch);
            return Some(if a.ok() && b.ok() && a.stdout == b.stdout { vec![] } else { vec![format!("C05|cli|npy-input-folds-differently :: {descr}")] });
        }
        "c05-route" => {
            let scratch = Scratch::new("c05r");
            let b = |k: &str| matches!(case.get(k), Some(J::Bool(true)));
            return Some(
                eval_route(&shape, case.get("fill")?.as_i64()? as usize, case.get("precision")?.as_i64()? as usize, b("npy_in"), case.get("transport")?.as_i64()? as usize, b("sink_file"), &scratch)
                    .into_iter()
                    .map(|(k, w, _)| format!("{k} :: {w}"))
                    .collect(),
            );
        }
        "c05-unfold" => {
            let fills = [f64::NAN, 0.0, -1.0, f64::INFINITY];
            let x = labeled(&shape, "lin");
            let (f1, f2) = (fills[case.get("first")?.as_i64()? as usize], fills[case.get("second")?.as_i64()? as usize]);
            let via_clone = matches!(case.get("via_clone"), Some(J::Bool(true)));
            let expect = x.fold(f2);
            let got = catch(|| {
                let folded = scs_from_ref(&x).fold();
                let _first = folded.into_spectrum(f1);
                if via_clone { ref_from_spectrum(&folded.clone().into_spectrum(f2)) } else { ref_from_spectrum(&folded.into_spectrum(f2)) }
            });
            return Some(match got {
                Ok(g) if same_arr(&g, &expect) => vec![],
                other => vec![format!("C05|lib|unfold-depends-on-earlier-unfold :: {:?}", other.map(|g| g.data))],
            });
        }
        "c05-hist" => {
            let first = labeled(&case.get("first")?.as_usizes()?, "lin");
            let b = labeled(&shape, "lin");
            let expect = b.fold(-1.0);
            let got = catch(|| {
                let _ = scs_from_ref(&first).fold().into_spectrum(0.0);
                ref_from_spectrum(&scs_from_ref(&b).fold().into_spectrum(-1.0))
            });
            Some(match got {
                Ok(g) if same_arr(&g, &expect) => vec![],
                other => vec![format!("C05|lib|fold-depends-on-previous-fold :: {other:?}, expected {:?}", expect.data)],
            })
        }
        "c05-lib" => {
            let (_, v) = check_shape(&shape, &lab);
            Some(v.into_iter().map(|(k, w, _)| format!("{k} :: {w}")).collect())
        }
        "c05-cli" => {
            let fname = case.get("fill")?.as_str()?.to_string();
            let fill = FILLS.iter().find(|f| f.0 == fname)?.1;
            let scratch = Scratch::new("c05r");
            let v = eval_cli(&shape, &lab, FILLS.iter().find(|f| f.0 == fname)?.0, fill, &scratch);
            Some(v.into_iter().map(|(k, w, _)| format!("{k} :: {w}")).collect())
        }
        _ => None,
    }
}
