//! C13, library layer — explicit-state search over operation sequences of the spectrum API.
//!
//! `sfs view` is a fixed pipeline over four library steps; "equal to chained single steps" means
//! that each step leaves a spectrum on which any later step behaves as on a freshly read one. The
//! search below makes that the object of an exhaustive exploration: breadth-first over all
//! sequences of real operations (each transition calls the real `sfs_core` method on the real
//! object reached so far - never on a re-read copy), deduplicated on a canonical key, and after
//! every transition the complete observable state of the real object is compared with the
//! reference model: shape, every element by flat position *and* through multi-index access (which
//! goes through the strides), the element count, the total, and the sum along every axis (which
//! goes through the axis views).

use std::collections::{BTreeSet, VecDeque};

use sfs_core::{array::Axis, spectrum::State, Scs, Sfs, Spectrum};

use crate::{
    enumerate::for_each_index,
    json::J,
    refmodel::RefArray,
    subject::scs_from_ref,
    verdict::{catch, norm_msg},
};

type Viol = (String, String, J);

#[derive(Clone, Debug, PartialEq, Eq, PartialOrd, Ord)]
pub enum Op {
    /// marginalize one axis
    M(usize),
    /// marginalize two axes jointly, named in this order
    M2(usize, usize),
    /// project one axis down by one chromosome
    P(usize),
    /// project every axis to a single entry
    PMin,
    /// zero the two monomorphic entries (as `view --mask-monomorphic` does through inner_mut)
    Mask,
    /// normalize in place
    Norm,
    /// fold and unfold with fill 0
    Fold,
    /// zero the two monomorphic entries through the indexing operator (available in both states)
    MaskIdx,
    /// multiply the second entry by three through the indexing operator
    Scale,
    /// `into_normalized()`: from here on the value is typed as a frequency spectrum
    IntoNorm,
    /// `target.clone_from(&value)` where the target held a spectrum of the reversed shape
    CloneFrom,
}

impl Op {
    fn name(&self) -> String {
        match self {
            Op::M(a) => format!("m{a}"),
            Op::M2(a, b) => format!("m{a},{b}"),
            Op::P(a) => format!("p{a}"),
            Op::PMin => "pmin".into(),
            Op::Mask => "mask".into(),
            Op::Norm => "norm".into(),
            Op::Fold => "fold".into(),
            Op::MaskIdx => "maskidx".into(),
            Op::Scale => "scale".into(),
            Op::IntoNorm => "intonorm".into(),
            Op::CloneFrom => "clonefrom".into(),
        }
    }
    pub fn parse(s: &str) -> Option<Op> {
        Some(match s {
            "pmin" => Op::PMin,
            "mask" => Op::Mask,
            "norm" => Op::Norm,
            "fold" => Op::Fold,
            "maskidx" => Op::MaskIdx,
            "scale" => Op::Scale,
            "intonorm" => Op::IntoNorm,
            "clonefrom" => Op::CloneFrom,
            _ => {
                let (k, rest) = s.split_at(1);
                match k {
                    "m" => match rest.split_once(',') {
                        Some((a, b)) => Op::M2(a.parse().ok()?, b.parse().ok()?),
                        None => Op::M(rest.parse().ok()?),
                    },
                    "p" => Op::P(rest.parse().ok()?),
                    _ => return None,
                }
            }
        })
    }
}

fn enabled(shape: &[usize]) -> Vec<Op> {
    let d = shape.len();
    let mut v = Vec::new();
    if d >= 2 {
        for a in 0..d {
            v.push(Op::M(a));
        }
    }
    if d >= 3 {
        for a in 0..d {
            for b in 0..d {
                if a != b {
                    v.push(Op::M2(a, b));
                }
            }
        }
    }
    for a in 0..d {
        if shape[a] >= 2 {
            v.push(Op::P(a));
        }
    }
    if shape.iter().any(|n| *n > 1) {
        v.push(Op::PMin);
    }
    v.extend([Op::Mask, Op::Norm, Op::Fold, Op::MaskIdx, Op::IntoNorm, Op::CloneFrom]);
    if shape.iter().product::<usize>() >= 2 {
        v.push(Op::Scale);
    }
    v
}

fn apply_ref(x: &RefArray, op: &Op) -> RefArray {
    match op {
        Op::M(a) => x.marginalize(&[*a]),
        Op::M2(a, b) => x.marginalize(&[*a, *b]),
        Op::P(a) => {
            let mut t = x.shape.clone();
            t[*a] -= 1;
            x.project(&t)
        }
        Op::PMin => x.project(&vec![1; x.shape.len()]),
        Op::Mask | Op::MaskIdx => {
            let mut y = x.clone();
            let n = y.data.len();
            y.data[0] = 0.0;
            y.data[n - 1] = 0.0;
            y
        }
        Op::Scale => {
            let mut y = x.clone();
            y.data[1] *= 3.0;
            y
        }
        Op::CloneFrom => x.clone(),
        Op::Norm | Op::IntoNorm => {
            let s = x.sum();
            RefArray { shape: x.shape.clone(), data: x.data.iter().map(|v| v / s).collect() }
        }
        Op::Fold => x.fold(0.0),
    }
}

/// The live value: a count spectrum, or - after `into_normalized` - a frequency spectrum.
#[derive(Clone)]
pub enum Live {
    Counts(Scs),
    Freqs(Sfs),
}

impl Live {
    fn is_freqs(&self) -> bool {
        matches!(self, Live::Freqs(_))
    }
}

fn index_of_flat(shape: &[usize], mut flat: usize) -> Vec<usize> {
    let mut idx = vec![0usize; shape.len()];
    for a in (0..shape.len()).rev() {
        idx[a] = flat % shape[a];
        flat /= shape[a];
    }
    idx
}

/// The operations every state offers.
fn apply_generic<S: State>(x: &Spectrum<S>, op: &Op, other: impl Fn(&[usize]) -> Spectrum<S>) -> Result<Spectrum<S>, String> {
    match op {
        Op::M(a) => x.marginalize(&[Axis(*a)]).map_err(|e| e.to_string()),
        Op::M2(a, b) => x.marginalize(&[Axis(*a), Axis(*b)]).map_err(|e| e.to_string()),
        Op::P(a) => {
            let mut t = x.shape().to_vec();
            t[*a] -= 1;
            x.project(t).map_err(|e| e.to_string())
        }
        Op::PMin => x.project(vec![1; x.dimensions()]).map_err(|e| e.to_string()),
        Op::MaskIdx | Op::Mask => {
            let mut y = x.clone();
            let shape = y.shape().to_vec();
            let n = y.elements();
            y[index_of_flat(&shape, 0)] = 0.0;
            y[index_of_flat(&shape, n - 1)] = 0.0;
            Ok(y)
        }
        Op::Scale => {
            let mut y = x.clone();
            let shape = y.shape().to_vec();
            y[index_of_flat(&shape, 1)] *= 3.0;
            Ok(y)
        }
        Op::Norm => {
            let mut y = x.clone();
            y.normalize();
            Ok(y)
        }
        Op::Fold => Ok(x.fold().into_spectrum(0.0)),
        Op::CloneFrom => {
            let mut rev = x.shape().to_vec();
            rev.reverse();
            let mut target = other(&rev);
            target.clone_from(x);
            Ok(target)
        }
        Op::IntoNorm => Err("not a same-state operation".into()),
    }
}

fn apply_real(x: &Live, op: &Op) -> Result<Live, String> {
    let other_counts = |shape: &[usize]| scs_from_ref(&RefArray::from_fn(shape, |f, _| 1000.0 + f as f64));
    match (x, op) {
        (Live::Counts(c), Op::IntoNorm) => Ok(Live::Freqs(c.clone().into_normalized())),
        (Live::Freqs(f), Op::IntoNorm) => Ok(Live::Freqs(f.clone().into_normalized())),
        // masking a count spectrum the way `view --mask-monomorphic` does, through inner_mut
        (Live::Counts(c), Op::Mask) => {
            let mut y = c.clone();
            let raw = y.inner_mut().as_mut_slice();
            let n = raw.len();
            raw[0] = 0.0;
            raw[n - 1] = 0.0;
            Ok(Live::Counts(y))
        }
        (Live::Counts(c), op) => apply_generic(c, op, other_counts).map(Live::Counts),
        (Live::Freqs(f), op) => apply_generic(f, op, |shape| other_counts(shape).into_normalized()).map(Live::Freqs),
    }
}

fn close(a: f64, b: f64) -> bool {
    (a.is_nan() && b.is_nan()) || a == b || (a - b).abs() <= 1e-9 * b.abs() + 1e-13
}

/// Complete observation of the real object against the reference; returns the first discrepancy.
fn observe(live: &Live, expect: &RefArray) -> Option<String> {
    match live {
        Live::Counts(c) => observe_spectrum(c, expect),
        Live::Freqs(f) => observe_spectrum(f, expect),
    }
}

fn observe_spectrum<S: State>(real: &Spectrum<S>, expect: &RefArray) -> Option<String> {
    if real.shape().to_vec() != expect.shape {
        return Some(format!("shape {:?}, reference {:?}", real.shape().to_vec(), expect.shape));
    }
    if real.dimensions() != expect.shape.len() || real.elements() != expect.data.len() {
        return Some(format!("dimensions/elements {} / {}, reference {} / {}", real.dimensions(), real.elements(), expect.shape.len(), expect.data.len()));
    }
    let flat = real.inner().as_slice();
    if flat.len() != expect.data.len() {
        return Some(format!("{} stored values for shape {:?}", flat.len(), expect.shape));
    }
    if let Some(i) = (0..flat.len()).find(|&i| !close(flat[i], expect.data[i])) {
        return Some(format!("value at flat position {i} is {}, reference {}", flat[i], expect.data[i]));
    }
    // element access by multi-index goes through the strides of the object
    let mut bad: Option<String> = None;
    let mut pos = 0usize;
    for_each_index(&expect.shape, |idx| {
        if bad.is_none() {
            match real.inner().get(idx.to_vec()) {
                Some(v) if close(*v, expect.data[pos]) => {}
                other => bad = Some(format!("get({idx:?}) = {other:?}, reference {}", expect.data[pos])),
            }
        }
        pos += 1;
    });
    if bad.is_some() {
        return bad;
    }
    if !close(real.sum(), expect.sum()) {
        return Some(format!("sum() = {}, reference {}", real.sum(), expect.sum()));
    }
    // sums along each axis go through the axis views
    if expect.shape.len() >= 2 {
        for a in 0..expect.shape.len() {
            let s = real.inner().sum(Axis(a));
            let r = expect.marginalize(&[a]);
            if s.shape().to_vec() != r.shape || s.as_slice().len() != r.data.len() || s.as_slice().iter().zip(&r.data).any(|(x, y)| !close(*x, *y)) {
                return Some(format!("inner().sum(Axis({a})) = {:?} {:?}, reference {:?} {:?}", s.shape().to_vec(), s.as_slice(), r.shape, r.data));
            }
        }
    }
    None
}

pub struct Explored {
    pub states: u64,
    pub transitions: u64,
    pub max_depth: usize,
    pub closed: bool,
    pub viols: Vec<Viol>,
}

fn key_of(x: &RefArray, freqs: bool) -> (bool, Vec<usize>, Vec<u64>) {
    // canonical key: shape + reference values rounded to 40 mantissa bits, so that floating-point
    // summation order between commuting paths does not split states; merged states have the same
    // futures under the reference up to that rounding, and the real object of *every* path is
    // compared with its own reference before the key is consulted
    (freqs, x.shape.clone(), x.data.iter().map(|v| if v.is_nan() { u64::MAX } else { v.to_bits() >> 12 }).collect())
}

fn hist_str(h: &[Op]) -> String {
    h.iter().map(|o| o.name()).collect::<Vec<_>>().join(" ")
}

/// Replays one history on the real objects, checking after every step; used by the search (for the
/// last step) and by --replay (for all steps).
pub fn run_history(init: &RefArray, hist: &[Op]) -> Result<(Live, RefArray), Viol> {
    let mut real = Live::Counts(scs_from_ref(init));
    let mut expect = init.clone();
    for (i, op) in hist.iter().enumerate() {
        let case = || J::obj([("kind", J::s("c13-lib")), ("shape", J::usizes(&init.shape)), ("values", J::f64s(&init.data)), ("history", J::s(hist_str(&hist[..=i])))]);
        let next = catch(|| apply_real(&real, op));
        expect = apply_ref(&expect, op);
        match next {
            Ok(Ok(r)) => {
                if let Some(why) = catch(|| observe(&r, &expect)).unwrap_or_else(|p| Some(format!("observation panicked: {p}"))) {
                    return Err((
                        format!("C13|lib|state-differs-from-reference|after-{}|depth{}", op.name().trim_end_matches(|c: char| c.is_ascii_digit() || c == ','), if i == 0 { "1" } else { ">1" }),
                        format!("spectrum {:?} after [{}]: {why}", init.shape, hist_str(&hist[..=i])),
                        case(),
                    ));
                }
                real = r;
            }
            Ok(Err(e)) => {
                return Err((format!("C13|lib|valid-step-rejected|{}", norm_msg(&e)), format!("spectrum {:?} after [{}]: step {} failed: {e}", init.shape, hist_str(&hist[..i]), op.name()), case()));
            }
            Err(p) => {
                return Err((format!("C13|lib|step-panicked|{}", norm_msg(&p)), format!("spectrum {:?} after [{}]: step {} panicked: {p}", init.shape, hist_str(&hist[..i]), op.name()), case()));
            }
        }
    }
    Ok((real, expect))
}

/// Breadth-first search from `init` up to `max_depth` operations.
pub fn explore(init: &RefArray, max_depth: usize, max_states: usize) -> Explored {
    let mut seen: BTreeSet<(bool, Vec<usize>, Vec<u64>)> = BTreeSet::new();
    // a state is carried as the live real object + its reference + the history that reached it
    let mut frontier: VecDeque<(Live, RefArray, Vec<Op>)> = VecDeque::new();
    let mut out = Explored { states: 1, transitions: 0, max_depth: 0, closed: true, viols: Vec::new() };
    seen.insert(key_of(init, false));
    frontier.push_back((Live::Counts(scs_from_ref(init)), init.clone(), Vec::new()));
    let mut reported: BTreeSet<String> = BTreeSet::new();
    while let Some((real, expect, hist)) = frontier.pop_front() {
        if hist.len() >= max_depth {
            out.closed = false; // a frontier remains beyond the depth bound
            continue;
        }
        for op in enabled(&expect.shape) {
            out.transitions += 1;
            let mut h = hist.clone();
            h.push(op.clone());
            let case = || J::obj([("kind", J::s("c13-lib")), ("shape", J::usizes(&init.shape)), ("values", J::f64s(&init.data)), ("history", J::s(hist_str(&h)))]);
            // the transition is taken on the live object reached so far
            let next = catch(|| apply_real(&real, &op));
            let nref = apply_ref(&expect, &op);
            let viol: Option<Viol> = match &next {
                Ok(Ok(r)) => catch(|| observe(r, &nref)).unwrap_or_else(|p| Some(format!("observation panicked: {p}"))).map(|why| {
                    (
                        format!("C13|lib|state-differs-from-reference|after-{}|depth{}", op.name().trim_end_matches(|c: char| c.is_ascii_digit() || c == ','), if h.len() == 1 { "1" } else { ">1" }),
                        format!("spectrum {:?} after [{}]: {why}", init.shape, hist_str(&h)),
                        case(),
                    )
                }),
                Ok(Err(e)) => Some((format!("C13|lib|valid-step-rejected|{}", norm_msg(e)), format!("spectrum {:?} after [{}]: step failed: {e}", init.shape, hist_str(&h)), case())),
                Err(p) => Some((format!("C13|lib|step-panicked|{}", norm_msg(p)), format!("spectrum {:?} after [{}]: step panicked: {p}", init.shape, hist_str(&h)), case())),
            };
            if let Some(v) = viol {
                if reported.insert(v.0.clone()) || out.viols.len() < 10 {
                    out.viols.push(v);
                }
                continue; // do not explore beyond a violating state
            }
            let Ok(Ok(r)) = next else { continue };
            out.max_depth = out.max_depth.max(h.len());
            if nref.data.iter().any(|v| v.is_nan()) {
                continue; // 0/0 after normalizing an all-zero spectrum: terminal
            }
            if seen.insert(key_of(&nref, r.is_freqs())) {
                out.states += 1;
                if seen.len() > max_states {
                    out.closed = false;
                    return out;
                }
                frontier.push_back((r, nref, h));
            }
        }
    }
    out
}

/// A statistic of the live value, the way a library user asks for it: the normalized statistics on
/// `value.clone().into_normalized()`, the others on the value itself (both states offer them).
pub fn live_stat(live: &Live, stat: &str) -> Result<f64, String> {
    fn on<S: State>(x: &Spectrum<S>, stat: &str) -> Result<f64, String> {
        let r = match stat {
            "f2" => x.clone().into_normalized().f2(),
            "f3" => x.clone().into_normalized().f3(),
            "f4" => x.clone().into_normalized().f4(),
            "fst" => x.clone().into_normalized().fst(),
            "king" => x.king(),
            "pi" => x.pi(),
            "pi-xy" => x.pi_xy(),
            "r0" => x.r0(),
            "r1" => x.r1(),
            "sum" => Ok(x.sum()),
            "theta" => x.theta_watterson(),
            _ => return Err("statistic not offered in this state".into()),
        };
        r.map_err(|e| e.to_string())
    }
    match live {
        Live::Counts(c) => on(c, stat),
        Live::Freqs(f) => on(f, stat),
    }
}
