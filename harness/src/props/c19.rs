//! C19 — array, axis-view and iterator API invariants.
//!
//! Alphabet: every shape in the bound, array filled with its own flat position.
//! Oracle: RefArray (explicit odometer arithmetic). Iterator protocols are explored as explicit
//! call histories over {next, len} continued past exhaustion.

use sfs_core::array::{Array, Axis};
use sfs_core::Scs;

use crate::{
    enumerate::{indices, shapes},
    json::J,
    par::par_each,
    refmodel::RefArray,
    verdict::{catch, norm_msg, Part, Report, Tier},
};

const PAST_END: usize = 3;

#[derive(Default)]
struct ShapeResult {
    evals: u64,
    states: u64,
    transitions: u64,
    histories_past_end: u64,
    views_2d: u64,
    viols: Vec<(String, String, J)>,
}

impl ShapeResult {
    fn v(&mut self, shape: &[usize], key: &str, what: String, extra: J) {
        // keep at most a few per key and shape
        if self.viols.iter().filter(|x| x.0 == key).count() >= 2 {
            return;
        }
        self.viols.push((
            format!("C19|lib|{key}"),
            what,
            J::obj([
                ("kind", J::s("c19-shape")),
                ("shape", J::usizes(shape)),
                ("detail", extra),
            ]),
        ));
    }
}

fn panic_class(msg: &str) -> String {
    norm_msg(msg)
}

/// Steps an iterator through `total + PAST_END` calls of `next`, calling `len` before each; the
/// expected items are `expect`. Returns violations as (key-suffix, description).
fn protocol<T, I>(
    name: &str,
    mut it: I,
    expect: &[T],
    same: impl Fn(&I::Item, &T) -> bool,
    res: &mut ShapeResult,
    shape: &[usize],
    ctx: &J,
) where
    I: ExactSizeIterator,
    T: std::fmt::Debug,
    I::Item: std::fmt::Debug,
{
    let total = expect.len();
    res.histories_past_end += 1;
    for j in 0..total + PAST_END {
        res.states += 1;
        // len
        res.transitions += 1;
        let remaining = total.saturating_sub(j);
        match catch(|| it.len()) {
            Ok(l) if l == remaining => {}
            Ok(l) => {
                let phase = if j >= total { "after-exhaustion" } else { "before-exhaustion" };
                res.v(
                    shape,
                    &format!("{name}-len-wrong|{phase}"),
                    format!("{name} on shape {shape:?}: after {j} next() calls len()={l}, but {remaining} items remain"),
                    ctx.clone(),
                );
            }
            Err(p) => {
                let phase = if j >= total { "after-exhaustion" } else { "before-exhaustion" };
                res.v(
                    shape,
                    &format!("{name}-len-panic|{phase}|{}", panic_class(&p)),
                    format!("{name} on shape {shape:?}: len() after {j} next() calls panicked: {p}"),
                    ctx.clone(),
                );
                return;
            }
        }
        // next
        res.transitions += 1;
        match catch(|| it.next()) {
            Ok(item) => {
                if j < total {
                    match item {
                        Some(ref x) if same(x, &expect[j]) => {}
                        other => {
                            res.v(
                                shape,
                                &format!("{name}-item-wrong"),
                                format!(
                                    "{name} on shape {shape:?}: item {j} is {other:?}, expected {:?}",
                                    expect[j]
                                ),
                                ctx.clone(),
                            );
                            return;
                        }
                    }
                } else if let Some(x) = item {
                    res.v(
                        shape,
                        &format!("{name}-not-fused"),
                        format!(
                            "{name} on shape {shape:?}: call {} after exhaustion yields Some({x:?}) instead of None",
                            j - total + 1
                        ),
                        ctx.clone(),
                    );
                    return;
                }
            }
            Err(p) => {
                let phase = if j >= total { "after-exhaustion" } else { "before-exhaustion" };
                res.v(
                    shape,
                    &format!("{name}-next-panic|{phase}|{}", panic_class(&p)),
                    format!("{name} on shape {shape:?}: next() call {j} panicked: {p}"),
                    ctx.clone(),
                );
                return;
            }
        }
    }
}

/// Histories that use the other `Iterator` entry points an implementation may override:
/// `next^j . nth(k) . len . next . len` for j and k on their boundaries (0, 1, last, one and two
/// past the end), `size_hint` against `len`, and the consuming `count()` and `last()` after j items.
/// `mk` builds a fresh iterator for every history.
fn protocol_adaptors<T, I>(
    name: &str,
    mk: impl Fn() -> I,
    expect: &[T],
    same: impl Fn(&I::Item, &T) -> bool,
    res: &mut ShapeResult,
    shape: &[usize],
    ctx: &J,
) where
    I: ExactSizeIterator,
    T: std::fmt::Debug,
    I::Item: std::fmt::Debug,
{
    let total = expect.len();
    let mut js: Vec<usize> = vec![0, 1, total.saturating_sub(1), total, total + 1];
    js.sort();
    js.dedup();
    for &j in &js {
        let rest = total.saturating_sub(j);
        let mut ks: Vec<usize> = vec![0, 1, rest.saturating_sub(1), rest, rest + 1, rest + 2];
        ks.sort();
        ks.dedup();
        for &k in &ks {
            res.states += 1;
            res.transitions += j as u64 + 5;
            let r = catch(|| {
                let mut it = mk();
                for _ in 0..j {
                    it.next();
                }
                let got = it.nth(k);
                let at = j + k; // position of the item nth(k) must return
                let ok_item = match (&got, expect.get(at)) {
                    (Some(x), Some(e)) => same(x, e),
                    (None, None) => true,
                    _ => false,
                };
                if !ok_item {
                    return Err(format!("after {j} next() calls nth({k}) returned {got:?}, expected item {at}: {:?}", expect.get(at)));
                }
                let remaining = total.saturating_sub(at + 1);
                let l = it.len();
                if l != remaining {
                    return Err(format!("after {j} next() calls and nth({k}), len()={l} but {remaining} items remain"));
                }
                let (lo, hi) = it.size_hint();
                if lo != remaining || hi != Some(remaining) {
                    return Err(format!("after {j} next() calls and nth({k}), size_hint()=({lo},{hi:?}) but {remaining} items remain"));
                }
                let nx = it.next();
                let ok_next = match (&nx, expect.get(at + 1)) {
                    (Some(x), Some(e)) => same(x, e),
                    (None, None) => true,
                    _ => false,
                };
                if !ok_next {
                    return Err(format!("after {j} next() calls and nth({k}), next() returned {nx:?}, expected item {}: {:?}", at + 1, expect.get(at + 1)));
                }
                let remaining = total.saturating_sub(at + 2);
                let l = it.len();
                if l != remaining {
                    return Err(format!("after {j} next() calls, nth({k}) and next(), len()={l} but {remaining} items remain"));
                }
                Ok(())
            });
            match r {
                Ok(Ok(())) => {}
                Ok(Err(why)) => {
                    res.v(shape, &format!("{name}-nth-protocol-wrong|{}", if j + k >= total { "past-end" } else { "within" }), format!("{name} on shape {shape:?}: {why}"), ctx.clone());
                    return;
                }
                Err(p) => {
                    res.v(shape, &format!("{name}-nth-protocol-panic|{}|{}", if j + k >= total { "past-end" } else { "within" }, panic_class(&p)), format!("{name} on shape {shape:?}: history next^{j}.nth({k}).len.next.len panicked: {p}"), ctx.clone());
                    return;
                }
            }
        }
        // consuming adaptors after j items
        res.transitions += 2;
        let r = catch(|| {
            let mut it = mk();
            for _ in 0..j {
                it.next();
            }
            let c = it.count();
            if c != rest {
                return Err(format!("after {j} next() calls count()={c}, but {rest} items remain"));
            }
            let mut it = mk();
            for _ in 0..j {
                it.next();
            }
            let l = it.last();
            let ok = match (&l, if rest > 0 { expect.last() } else { None }) {
                (Some(x), Some(e)) => same(x, e),
                (None, None) => true,
                _ => false,
            };
            if !ok {
                return Err(format!("after {j} next() calls last() returned {l:?}, expected {:?}", if rest > 0 { expect.last() } else { None }));
            }
            Ok(())
        });
        match r {
            Ok(Ok(())) => {}
            Ok(Err(why)) => {
                res.v(shape, &format!("{name}-count-last-wrong"), format!("{name} on shape {shape:?}: {why}"), ctx.clone());
                return;
            }
            Err(p) => {
                res.v(shape, &format!("{name}-count-last-panic|{}", panic_class(&p)), format!("{name} on shape {shape:?}: count()/last() after {j} next() calls panicked: {p}"), ctx.clone());
                return;
            }
        }
    }
}

fn check_shape(shape: &[usize]) -> ShapeResult {
    let mut res = ShapeResult::default();
    let d = shape.len();
    let cells: usize = shape.iter().product();
    let reference = RefArray::from_fn(shape, |f, _| f as f64);
    let arr: Array<f64> = Array::new(reference.data.clone(), shape.to_vec()).expect("valid shape");
    let all_idx = indices(shape);

    // (i) iter_indices: bijection flat <-> multi-index, row-major order, len protocol
    res.evals += 1;
    protocol(
        "indices_iter",
        arr.iter_indices(),
        &all_idx,
        |a, b| a == b,
        &mut res,
        shape,
        &J::s("iter_indices"),
    );
    protocol_adaptors("indices_iter", || arr.iter_indices(), &all_idx, |a, b| a == b, &mut res, shape, &J::s("iter_indices"));
    for (flat, idx) in all_idx.iter().enumerate() {
        res.evals += 1;
        match catch(|| arr.get(idx).copied()) {
            Ok(Some(v)) if v == flat as f64 => {}
            other => res.v(
                shape,
                "get-wrong",
                format!("get({idx:?}) on shape {shape:?} = {other:?}, expected Some({flat})"),
                J::usizes(idx),
            ),
        }
    }

    // (ii) get with every index in the box [0..len_j+1]^d, and wrong-length indices
    let bigger: Vec<usize> = shape.iter().map(|n| n + 2).collect();
    for idx in indices(&bigger) {
        res.evals += 1;
        let in_range = idx.iter().zip(shape).all(|(i, n)| i < n);
        match catch(|| arr.get(&idx).copied()) {
            Ok(r) => {
                let expect = in_range.then(|| reference.get(&idx));
                if r != expect {
                    res.v(
                        shape,
                        "get-range",
                        format!("get({idx:?}) on shape {shape:?} = {r:?}, expected {expect:?}"),
                        J::usizes(&idx),
                    );
                }
            }
            Err(p) => res.v(
                shape,
                &format!("get-panic|{}", panic_class(&p)),
                format!("get({idx:?}) on shape {shape:?} panicked: {p}"),
                J::usizes(&idx),
            ),
        }
    }
    for wrong_len in [d.saturating_sub(1), d + 1, 0] {
        if wrong_len == d {
            continue;
        }
        for fill in [0usize, 1] {
            res.evals += 1;
            let idx = vec![fill; wrong_len];
            match catch(|| arr.get(&idx).copied()) {
                Ok(None) => {}
                Ok(Some(v)) => res.v(
                    shape,
                    "get-wrong-length",
                    format!("get({idx:?}) on shape {shape:?} = Some({v}), expected None"),
                    J::usizes(&idx),
                ),
                Err(p) => res.v(
                    shape,
                    &format!("get-panic|{}", panic_class(&p)),
                    format!("get({idx:?}) on shape {shape:?} panicked: {p}"),
                    J::usizes(&idx),
                ),
            }
        }
    }

    // (iii) get_axis for every axis 0..d+1 and position 0..len+1; view contents; (iv) view iterator
    for a in 0..d + 2 {
        let len_a = if a < d { shape[a] } else { 1 };
        for pos in 0..len_a + 2 {
            res.evals += 1;
            let in_range = a < d && pos < shape[a];
            let ctx = J::obj([("axis", J::u(a)), ("pos", J::u(pos))]);
            // expected slice in row-major order of the remaining axes
            let expect: Vec<f64> = if in_range {
                all_idx
                    .iter()
                    .filter(|idx| idx[a] == pos)
                    .map(|idx| reference.get(idx))
                    .collect()
            } else {
                Vec::new()
            };
            let got = catch(|| arr.get_axis(Axis(a), pos).is_some());
            match got {
                Err(p) => {
                    let class = if a >= d { "axis-out-of-range" } else if in_range { "in-range" } else { "pos-out-of-range" };
                    res.v(
                        shape,
                        &format!("get_axis-panic|{class}|{}", panic_class(&p)),
                        format!("get_axis(Axis({a}), {pos}) on shape {shape:?} panicked instead of returning {}: {p}", if in_range { "a view" } else { "None" }),
                        ctx.clone(),
                    );
                    continue;
                }
                Ok(is_some) if is_some != in_range => {
                    res.v(
                        shape,
                        "get_axis-range",
                        format!("get_axis(Axis({a}), {pos}) on shape {shape:?} is_some={is_some}, expected {in_range}"),
                        ctx.clone(),
                    );
                    continue;
                }
                Ok(_) => {}
            }
            if !in_range {
                continue;
            }
            let view = arr.get_axis(Axis(a), pos).unwrap();
            if d >= 3 {
                res.views_2d += 1;
            }
            // clone histories: a clone taken after j items continues exactly where the original is,
            // and the original is not disturbed by it
            for j in 0..=expect.len() + 1 {
                res.states += 1;
                res.transitions += (expect.len() + 2) as u64;
                let r = catch(|| {
                    let mut it = view.iter();
                    for _ in 0..j {
                        it.next();
                    }
                    let mut c = it.clone();
                    let rest = &expect[j.min(expect.len())..];
                    if c.len() != rest.len() {
                        return Err(format!("a clone taken after {j} items reports len()={}, {} items remain", c.len(), rest.len()));
                    }
                    let from_clone: Vec<f64> = c.by_ref().copied().collect();
                    if from_clone != rest {
                        return Err(format!("a clone taken after {j} items yields {from_clone:?}, the original has {rest:?} left"));
                    }
                    if c.next().is_some() {
                        return Err(format!("a clone taken after {j} items is not fused"));
                    }
                    let from_orig: Vec<f64> = it.copied().collect();
                    if from_orig != rest {
                        return Err(format!("after cloning at {j} items the original yields {from_orig:?}, expected {rest:?}"));
                    }
                    Ok(())
                });
                match r {
                    Ok(Ok(())) => {}
                    Ok(Err(why)) => {
                        res.v(shape, "view_iter-clone-wrong", format!("view(axis {a}, pos {pos}).iter() on shape {shape:?}: {why}"), ctx.clone());
                        break;
                    }
                    Err(p) => {
                        res.v(shape, &format!("view_iter-clone-panic|{}", panic_class(&p)), format!("view(axis {a}, pos {pos}).iter() on shape {shape:?}: clone history at {j} panicked: {p}"), ctx.clone());
                        break;
                    }
                }
            }
            let name = if d == 1 { "view_iter-0dim" } else { "view_iter" };
            protocol(name, view.iter(), &expect, |x, y| **x == *y, &mut res, shape, &ctx);
            protocol_adaptors(name, || view.iter(), &expect, |x, y| **x == *y, &mut res, shape, &ctx);
            // to_array
            res.evals += 1;
            match catch(|| {
                let t = view.to_array();
                (t.shape().to_vec(), t.as_slice().to_vec())
            }) {
                Ok((s, data)) => {
                    let es: Vec<usize> = shape
                        .iter()
                        .enumerate()
                        .filter(|(j, _)| *j != a)
                        .map(|(_, n)| *n)
                        .collect();
                    if s != es || data != expect {
                        res.v(
                            shape,
                            "view-to_array",
                            format!("view(axis {a}, pos {pos}).to_array() on shape {shape:?} = {s:?} {data:?}, expected {es:?} {expect:?}"),
                            ctx.clone(),
                        );
                    }
                }
                Err(p) => res.v(
                    shape,
                    &format!("{name}-to_array-panic|{}", panic_class(&p)),
                    format!("view(axis {a}, pos {pos}).to_array() on shape {shape:?} panicked: {p}"),
                    ctx.clone(),
                ),
            }
        }
    }

    // (iii-b) positions far beyond the axis (up to the number of elements and a little more) are out
    // of range for every axis, whatever the lengths of the other axes
    if cells <= 4096 {
        for a in 0..d {
            for pos in shape[a] + 2..=cells + 2 {
                res.evals += 1;
                match catch(|| arr.get_axis(Axis(a), pos).is_some()) {
                    Ok(false) => {}
                    Ok(true) => {
                        res.v(shape, "get_axis-range|far", format!("get_axis(Axis({a}), {pos}) on shape {shape:?} is Some, the axis has {} positions", shape[a]), J::obj([("axis", J::u(a)), ("pos", J::u(pos))]));
                        break;
                    }
                    Err(p) => {
                        res.v(shape, &format!("get_axis-panic|pos-far-out-of-range|{}", panic_class(&p)), format!("get_axis(Axis({a}), {pos}) on shape {shape:?} panicked: {p}"), J::obj([("axis", J::u(a)), ("pos", J::u(pos))]));
                        break;
                    }
                }
            }
        }
    }

    // (iv) AxisIter protocol for every valid axis: items are the views at 0..len_a
    for a in 0..d {
        res.evals += 1;
        let expect: Vec<usize> = (0..shape[a]).collect();
        let ctx = J::obj([("axis", J::u(a))]);
        let same_view = |view: &sfs_core::array::view::View<'_, f64>, pos: &usize| {
            let pos = *pos;
            let mut idx = vec![0usize; d];
            idx[a] = pos;
            // (an array without elements has empty views)
            let first = if cells == 0 { None } else { Some(reference.get(&idx)) };
            d == 1 || view.iter().next().copied() == first
        };
        protocol_adaptors("axis_iter", || arr.iter_axis(Axis(a)), &expect, same_view, &mut res, shape, &ctx);
        protocol(
            "axis_iter",
            arr.iter_axis(Axis(a)),
            &expect,
            |view, &pos| {
                // identify the view by its first element: flat position of (0,..,pos,..,0)
                let mut idx = vec![0usize; d];
                idx[a] = pos;
                let first = if cells == 0 { None } else { Some(reference.get(&idx)) };
                if d == 1 {
                    // 0-dimensional view: iterating is checked separately; compare debug data head
                    true
                } else {
                    view.iter().next().copied() == first
                }
            },
            &mut res,
            shape,
            &ctx,
        );
    }

    // FrequenciesIter protocol
    if let Ok(scs) = Scs::new(reference.data.clone(), shape.to_vec()) {
        res.evals += 1;
        let expect: Vec<Vec<f64>> = all_idx
            .iter()
            .map(|idx| {
                idx.iter()
                    .zip(shape)
                    .map(|(&i, &n)| i as f64 / (n - 1) as f64)
                    .collect()
            })
            .collect();
        protocol_adaptors(
            "frequencies_iter",
            || scs.iter_frequencies(),
            &expect,
            |a: &Vec<f64>, b: &Vec<f64>| a.len() == b.len() && a.iter().zip(b).all(|(x, y)| (x.is_nan() && y.is_nan()) || x == y),
            &mut res,
            shape,
            &J::s("iter_frequencies"),
        );
        protocol(
            "frequencies_iter",
            scs.iter_frequencies(),
            &expect,
            |a, b| {
                a.len() == b.len()
                    && a.iter()
                        .zip(b)
                        .all(|(x, y)| (x.is_nan() && y.is_nan()) || x == y)
            },
            &mut res,
            shape,
            &J::s("iter_frequencies"),
        );
    }

    // (v) Array::sum(axis) equals adding the views (RefArray marginalize of that axis)
    for a in 0..d {
        res.evals += 1;
        let expect = reference.marginalize(&[a]);
        let ctx = J::obj([("axis", J::u(a))]);
        match catch(|| {
            let s = arr.sum(Axis(a));
            (s.shape().to_vec(), s.as_slice().to_vec())
        }) {
            Ok((s, data)) => {
                if s != expect.shape || data != expect.data {
                    res.v(
                        shape,
                        "sum-axis-wrong",
                        format!("sum(Axis({a})) on shape {shape:?} = {s:?} {data:?}, expected {:?} {:?}", expect.shape, expect.data),
                        ctx,
                    );
                }
            }
            Err(p) => {
                let class = if d == 1 { "1d" } else { "nd" };
                res.v(
                    shape,
                    &format!("sum-axis-panic|{class}|{}", panic_class(&p)),
                    format!("sum(Axis({a})) on shape {shape:?} panicked: {p}"),
                    ctx,
                )
            }
        }
    }
    res
}

/// The other public entry points of `Array` (and the spectrum wrappers around them) on one shape:
/// constructors, mutable accessors, the indexing operators and their panicking siblings.
fn check_api(shape: &[usize]) -> Result<(), String> {
    use sfs_core::array::Shape;
    let d = shape.len();
    let reference = RefArray::from_fn(shape, |f, _| f as f64);
    let cells = reference.data.len();
    let all_idx = indices(shape);
    // constructors: the same array whichever way it is built, and whichever way the shape is given
    let a: Array<f64> = Array::new(reference.data.clone(), shape.to_vec()).map_err(|e| format!("new: {e}"))?;
    let from_iter = Array::from_iter((0..cells).map(|f| f as f64), shape.to_vec()).map_err(|e| format!("from_iter: {e}"))?;
    let from_shape_struct = Array::new(reference.data.clone(), Shape(shape.to_vec())).map_err(|e| format!("new(Shape): {e}"))?;
    if from_iter != a || from_shape_struct != a {
        return Err("Array::from_iter / Array::new(.., Shape) differ from Array::new(.., Vec)".into());
    }
    if d == 1 {
        let by_usize = Array::new(reference.data.clone(), shape[0]).map_err(|e| format!("new(usize): {e}"))?;
        let by_array = Array::new(reference.data.clone(), [shape[0]]).map_err(|e| format!("new([usize; 1]): {e}"))?;
        if by_usize != a || by_array != a {
            return Err("a one-axis shape given as usize / [usize; 1] gives another array".into());
        }
    }
    let filled = Array::from_element(2.5f64, shape.to_vec());
    if filled.shape().to_vec() != shape || filled.as_slice().len() != cells || filled.iter().any(|v| *v != 2.5) {
        return Err(format!("from_element: shape {:?}, {} values", filled.shape().to_vec(), filled.as_slice().len()));
    }
    let zeros: Array<f64> = Array::from_zeros(shape.to_vec());
    if zeros.shape().to_vec() != shape || zeros.iter().any(|v| *v != 0.0) || zeros.elements() != cells {
        return Err("from_zeros is not an all-zero array of the shape".into());
    }
    // a wrong number of values is an error for every constructor that takes values
    for n in [cells + 1, cells.saturating_sub(1)] {
        if n != cells && Array::new(vec![0.0f64; n], shape.to_vec()).is_ok() {
            return Err(format!("Array::new accepts {n} values for shape {shape:?}"));
        }
        if n != cells && Array::from_iter((0..n).map(|f| f as f64), shape.to_vec()).is_ok() {
            return Err(format!("Array::from_iter accepts {n} values for shape {shape:?}"));
        }
    }
    if a.dimensions() != d || a.elements() != cells || a.shape().dimensions() != d || a.shape().elements() != cells {
        return Err("dimensions() / elements() of the array or its shape are wrong".into());
    }
    let shown = format!("{}", a.shape());
    let expect_shown = shape.iter().map(|n| n.to_string()).collect::<Vec<_>>().join("/");
    if shown != expect_shown {
        return Err(format!("Display of the shape is {shown:?}, expected {expect_shown:?}"));
    }
    // indexing operators agree with get on every index; get_mut / IndexMut / iter_mut / as_mut_slice
    // write exactly the addressed element
    let mut m = a.clone();
    for (flat, idx) in all_idx.iter().enumerate() {
        if a[idx] != flat as f64 || a[idx.as_slice()] != flat as f64 {
            return Err(format!("a[{idx:?}] = {}, expected {flat}", a[idx]));
        }
        match m.get_mut(idx) {
            Some(v) => *v += 1000.0,
            None => return Err(format!("get_mut({idx:?}) is None")),
        }
        if m.as_slice()[flat] != flat as f64 + 1000.0 {
            return Err(format!("get_mut({idx:?}) did not address flat position {flat}"));
        }
        m[idx] += 1000.0;
        if m.as_slice()[flat] != flat as f64 + 2000.0 || m.get(idx).copied() != Some(flat as f64 + 2000.0) {
            return Err(format!("IndexMut at {idx:?} did not address flat position {flat}"));
        }
    }
    let changed = m.as_slice().iter().enumerate().filter(|(f, v)| **v != *f as f64 + 2000.0).count();
    if changed != 0 {
        return Err(format!("{changed} elements were not written exactly twice through get_mut and IndexMut"));
    }
    for (f, v) in m.iter_mut().enumerate() {
        *v = f as f64 * 2.0;
    }
    if m.as_slice().iter().enumerate().any(|(f, v)| *v != f as f64 * 2.0) {
        return Err("iter_mut does not visit the elements in row-major order".into());
    }
    for (f, v) in m.as_mut_slice().iter_mut().enumerate() {
        *v = f as f64;
    }
    if m != a {
        return Err("as_mut_slice does not expose the elements in row-major order".into());
    }
    // out of range: get_mut is None, the operators and index_axis panic, nothing is written
    for a_ in 0..d {
        let mut idx = vec![0usize; d];
        idx[a_] = shape[a_];
        if m.get_mut(&idx).is_some() {
            return Err(format!("get_mut({idx:?}) is Some although axis {a_} has {} positions", shape[a_]));
        }
        let (a2, i2) = (a.clone(), idx.clone());
        if catch(move || a2[&i2]).is_ok() {
            return Err(format!("a[{idx:?}] does not panic although axis {a_} has {} positions", shape[a_]));
        }
        let a3 = a.clone();
        let n = shape[a_];
        if catch(move || a3.index_axis(Axis(a_), n).iter().count()).is_ok() {
            return Err(format!("index_axis(Axis({a_}), {n}) does not panic"));
        }
        for pos in 0..shape[a_] {
            let v1: Vec<f64> = a.index_axis(Axis(a_), pos).iter().copied().collect();
            let v2: Vec<f64> = a.get_axis(Axis(a_), pos).ok_or("get_axis is None in range")?.iter().copied().collect();
            let expect: Vec<f64> = all_idx.iter().filter(|i| i[a_] == pos).map(|i| reference.get(i)).collect();
            if v1 != expect || v2 != expect {
                return Err(format!("index_axis / get_axis (axis {a_}, position {pos}) = {v1:?} / {v2:?}, expected {expect:?}"));
            }
        }
    }
    // coordinates at the limits of the integer type: out of range, not an overflow
    for a_ in 0..d {
        for huge in [1usize << 31, 1 << 32, 1 << 62, 1 << 63, usize::MAX / 3 + 1, usize::MAX - 1, usize::MAX] {
            for others in [0usize, 1] {
                let mut idx: Vec<usize> = shape.iter().map(|n| others.min(n - 1)).collect();
                idx[a_] = huge;
                let (a4, i4) = (a.clone(), idx.clone());
                match catch(move || (a4.get(&i4).is_some(), a4.clone().get_mut(&i4).is_some())) {
                    Ok((false, false)) => {}
                    other => return Err(format!("get / get_mut({idx:?}) on shape {shape:?}: {other:?}, expected None from both")),
                }
                let a5 = a.clone();
                if let Err(p) = catch(move || a5.get_axis(Axis(a_), huge).is_some()).and_then(|some| if some { Err("Some".to_string()) } else { Ok(()) }) {
                    return Err(format!("get_axis(Axis({a_}), {huge}) on shape {shape:?}: {p}, expected None"));
                }
            }
        }
    }
    if m.get_mut(vec![0usize; d + 1]).is_some() || (d > 0 && m.get_mut(vec![0usize; d - 1]).is_some()) {
        return Err("get_mut accepts an index of the wrong length".into());
    }
    // an axis that does not exist: no view, an iterator that yields nothing and says so (its length
    // asked before and after the first next()), never a panic - also on the array without axes
    let mut subjects: Vec<Array<f64>> = vec![a.clone()];
    if d == 1 {
        subjects.push(a.sum(Axis(0)));
        subjects.push(Array::from_element(4.5, Vec::<usize>::new()));
    }
    for arr in subjects {
        let dd = arr.dimensions();
        for k in [dd, dd + 1, dd + 7, usize::MAX] {
            for pos in [0usize, 1, usize::MAX] {
                let a6 = arr.clone();
                match catch(move || a6.get_axis(Axis(k), pos).is_some()) {
                    Ok(false) => {}
                    other => return Err(format!("get_axis(Axis({k}), {pos}) on an array with {dd} axes: {other:?}, expected None")),
                }
            }
            let a7 = arr.clone();
            let r = catch(move || {
                let mut it = a7.iter_axis(Axis(k));
                let before = (it.len(), it.size_hint());
                let first = it.next().is_some();
                let after = (it.len(), it.size_hint());
                (before, first, after, it.count())
            });
            match r {
                Ok(((0, (0, Some(0))), false, (0, (0, Some(0))), 0)) => {}
                other => return Err(format!("iter_axis(Axis({k})) on an array with {dd} axes: (len and size_hint before, first item, len and size_hint after, count) = {other:?}, expected an empty iterator that reports length 0")),
            }
        }
    }
    // sums of arrays with negative, infinite and NaN entries are what adding the views by hand gives
    let odd_values = [-2.5f64, 3.0, f64::NEG_INFINITY, -0.0, 1.0, f64::NAN, -7.0, 2.0];
    let tiny_values = [1e-16f64, 1e-20, 5e-324, 1e-300, 2.5e-16, 0.0, 1e-17];
    let odd: Array<f64> = Array::new((0..cells).map(|f| odd_values[f % odd_values.len()]).collect::<Vec<_>>(), shape.to_vec()).map_err(|e| format!("new: {e}"))?;
    let negative: Array<f64> = Array::new((0..cells).map(|f| -(f as f64) - 0.5).collect::<Vec<_>>(), shape.to_vec()).map_err(|e| format!("new: {e}"))?;
    let tiny: Array<f64> = Array::new((0..cells).map(|f| tiny_values[f % tiny_values.len()]).collect::<Vec<_>>(), shape.to_vec()).map_err(|e| format!("new: {e}"))?;
    // entries that cancel pairwise: many views add up to exactly zero without being empty
    let cancelling: Array<f64> = Array::new((0..cells).map(|f| if f % 2 == 0 { (f / 2 + 1) as f64 } else { -((f / 2 + 1) as f64) }).collect::<Vec<_>>(), shape.to_vec()).map_err(|e| format!("new: {e}"))?;
    for arr in [&odd, &negative, &tiny, &cancelling] {
        for a_ in 0..d {
            let s = arr.sum(Axis(a_));
            let mut by_hand = vec![0.0f64; cells / shape[a_]];
            for pos in 0..shape[a_] {
                for (acc, v) in by_hand.iter_mut().zip(arr.index_axis(Axis(a_), pos).iter()) {
                    *acc += v;
                }
            }
            let same = s.as_slice().len() == by_hand.len() && s.as_slice().iter().zip(&by_hand).all(|(x, y)| (x.is_nan() && y.is_nan()) || x == y);
            if !same {
                return Err(format!("sum(Axis({a_})) of an array with negative / non-finite entries = {:?}, adding its views gives {by_hand:?}", s.as_slice()));
            }
        }
    }
    // summing the only axis away leaves an array without axes that holds one value
    if d == 1 {
        let t = a.sum(Axis(0));
        let total: f64 = reference.data.iter().sum();
        if t.dimensions() != 0 || t.elements() != 1 || t.as_slice() != [total] || t.get(Vec::<usize>::new()).copied() != Some(total) || t.iter_indices().count() != 1 {
            return Err(format!("sum(Axis(0)) of a one-axis array: {} axes, {} elements, values {:?}, get([]) = {:?}", t.dimensions(), t.elements(), t.as_slice(), t.get(Vec::<usize>::new())));
        }
        let none: Array<f64> = Array::from_element(4.5, Vec::<usize>::new());
        if none.elements() != 1 || none.as_slice() != [4.5] || Array::new(vec![1.0f64], Vec::<usize>::new()).is_err() || Array::new(Vec::<f64>::new(), Vec::<usize>::new()).is_ok() {
            return Err("an array without axes does not hold exactly one value".into());
        }
    }
    // the spectrum wrappers
    let scs = Scs::new(reference.data.clone(), shape.to_vec()).map_err(|e| format!("Scs::new: {e}"))?;
    let by_range = Scs::from_range(0..cells, shape.to_vec()).map_err(|e| format!("Scs::from_range: {e}"))?;
    if by_range.inner() != scs.inner() || scs.inner() != &a {
        return Err("Scs::from_range(0..n, shape) differs from Scs::new with the same values".into());
    }
    if Scs::from_range(0..cells + 1, shape.to_vec()).is_ok() {
        return Err("Scs::from_range accepts a range longer than the shape".into());
    }
    if scs.dimensions() != d || scs.elements() != cells || scs.shape().to_vec() != shape {
        return Err("dimensions() / elements() / shape() of the spectrum are wrong".into());
    }
    let z = Scs::from_zeros(shape.to_vec());
    if z.shape().to_vec() != shape || z.inner().iter().any(|v| *v != 0.0) {
        return Err("Scs::from_zeros is not an all-zero spectrum of the shape".into());
    }
    if d == 1 {
        let v = Scs::from_vec(reference.data.clone());
        if v.inner() != &a {
            return Err("Scs::from_vec differs from Scs::new with a one-axis shape".into());
        }
    }
    let mut ms = scs.clone();
    for (flat, idx) in all_idx.iter().enumerate() {
        if scs[idx] != flat as f64 {
            return Err(format!("spectrum[{idx:?}] = {}, expected {flat}", scs[idx]));
        }
        ms[idx] = -1.0 - flat as f64;
        ms.inner_mut()[idx] -= 1.0;
    }
    if ms.inner().as_slice().iter().enumerate().any(|(f, v)| *v != -2.0 - f as f64) {
        return Err("IndexMut / inner_mut on the spectrum do not address the element named".into());
    }
    Ok(())
}

/// `target.clone_from(&source)` and `source.clone()` for arrays of two shapes: the result must be
/// indistinguishable from the source (shape, data, every index, every axis view, axis sums).
fn check_clone_pair(from: &[usize], into: &[usize]) -> Result<(), String> {
    let src_ref = RefArray::from_fn(from, |f, _| f as f64 + 0.5);
    let src: Array<f64> = Array::new(src_ref.data.clone(), from.to_vec()).map_err(|e| e.to_string())?;
    let dst_ref = RefArray::from_fn(into, |f, _| 1000.0 + f as f64);
    let mut t: Array<f64> = Array::new(dst_ref.data.clone(), into.to_vec()).map_err(|e| e.to_string())?;
    t.clone_from(&src);
    for (how, got) in [("clone_from", &t), ("clone", &src.clone())] {
        if got.shape().to_vec() != from || got.as_slice() != src.as_slice() || got.dimensions() != from.len() || got.elements() != src_ref.data.len() {
            return Err(format!("{how}: shape {:?} data {:?}, source has shape {from:?} data {:?}", got.shape().to_vec(), got.as_slice(), src.as_slice()));
        }
        if got != &src {
            return Err(format!("{how}: the result does not compare equal to its source"));
        }
        for idx in indices(from) {
            let e = src_ref.get(&idx);
            if got.get(&idx).copied() != Some(e) {
                return Err(format!("{how}: get({idx:?}) = {:?}, the source has {e}", got.get(&idx)));
            }
        }
        // one past the end of every axis stays out of range
        for a in 0..from.len() {
            let mut idx = vec![0usize; from.len()];
            idx[a] = from[a];
            if got.get(&idx).is_some() {
                return Err(format!("{how}: get({idx:?}) is Some although axis {a} has {} positions", from[a]));
            }
            for pos in 0..from[a] {
                let view: Vec<f64> = got.get_axis(Axis(a), pos).ok_or_else(|| format!("{how}: get_axis(Axis({a}), {pos}) is None"))?.iter().copied().collect();
                let expect: Vec<f64> = indices(from).iter().filter(|i| i[a] == pos).map(|i| src_ref.get(i)).collect();
                if view != expect {
                    return Err(format!("{how}: view(axis {a}, pos {pos}) = {view:?}, the source has {expect:?}"));
                }
            }
            let s = got.sum(Axis(a));
            let e = src_ref.marginalize(&[a]);
            if s.shape().to_vec() != e.shape || s.as_slice() != e.data.as_slice() {
                return Err(format!("{how}: sum(Axis({a})) = {:?} {:?}, expected {:?} {:?}", s.shape().to_vec(), s.as_slice(), e.shape, e.data));
            }
        }
    }
    Ok(())
}

/// Invariants at the ends of the index <-> position bijection for an array of zero-sized elements
/// (no memory needed, so shapes with 2^32 and more elements can be checked).
fn check_huge(sh: &[usize]) -> Result<(), String> {
    let sh = sh.to_vec();
    let total: usize = sh.iter().product();

    let arr: Array<()> = Array::from_element((), sh.clone());
    let d = sh.len();
    let last: Vec<usize> = sh.iter().map(|n| n - 1).collect();
    let mut it = arr.iter_indices();
    if it.len() != total {
        return Err(format!("iter_indices().len() = {}, expected {total}", it.len()));
    }
    let first = it.next().map(|i| i.to_vec());
    if first != Some(vec![0; d]) {
        return Err(format!("first index {first:?}"));
    }
    // the item at flat position p (after one next(): nth(p - 1))
    let p = sh[d - 1] * 3 + 2;
    let mut expect = vec![0usize; d];
    let mut rest = p;
    for a in (0..d).rev() {
        expect[a] = rest % sh[a];
        rest /= sh[a];
    }
    let got = it.nth(p - 1).map(|i| i.to_vec());
    if got != Some(expect.clone()) {
        return Err(format!("index at flat position {p} is {got:?}, expected {expect:?}"));
    }
    if it.len() != total - p - 1 {
        return Err(format!("len() after {} items = {}, expected {}", p + 1, it.len(), total - p - 1));
    }
    if arr.get(last.clone()).is_none() || arr.get(vec![0; d]).is_none() {
        return Err("get() of the first / last index is None".into());
    }
    for a in 0..d {
        let mut over = vec![0usize; d];
        over[a] = sh[a];
        if arr.get(over.clone()).is_some() {
            return Err(format!("get({over:?}) is Some for shape {sh:?}"));
        }
        if arr.get_axis(Axis(a), sh[a]).is_some() || arr.get_axis(Axis(a), sh[a] - 1).is_none() {
            return Err(format!("get_axis(Axis({a}), ..) bounds wrong for shape {sh:?}"));
        }
    }
    Ok(())
}

pub fn run(tier: Tier) -> i32 {
    let mut rep = Report::new("C19", tier, "model_checking");
    let (max_d, max_len) = tier.pick((5, 5), (6, 5));
    let mut shp = shapes(max_d, 1, max_len, usize::MAX);
    if tier.thorough() {
        // longer axes at lower dimensionality
        for s in shapes(4, 1, 8, usize::MAX) {
            if s.iter().any(|&n| n > max_len) {
                shp.push(s);
            }
        }
    }
    // arrays without elements: an axis of length zero next to others (the statement speaks of arrays of
    // every shape; every in-range request still answers, with views and sums that are empty)
    shp.extend([vec![0usize], vec![0, 2], vec![2, 0], vec![0, 0], vec![1, 0], vec![2, 0, 3], vec![3, 2, 0], vec![0, 3, 2], vec![2, 3, 0, 2]]);
    // scale: many axes and long axes (array positions stay exact in f64 far beyond these sizes)
    let n_grid = shp.len();
    shp.extend(crate::enumerate::scale_shapes(tier.pick(10, 11)).into_iter().filter(|s| s.iter().product::<usize>() <= 70_000));
    let n_scale = shp.len() - n_grid;
    rep.rule = format!(
        "all shapes with 1..{max_d} axes and lengths 1..{max_len} (thorough: plus 1..4 axes with lengths up to 8), nine shapes with an axis of length zero, plus {n_scale} shapes beyond that grid: every shape over lengths {{1,2}} with 6..10 (thorough 11) axes, 3^7, (2,3)^4, and axes of 255..65 537 entries ({} shapes in total), array filled with its flat position; per shape: every index of the box [0..len+1]^d, every (axis 0..d+1, position 0..len+1), every iterator stepped through all histories next^j.len.next.. continued {PAST_END} calls past exhaustion, and through the histories next^j.nth(k).len.size_hint.next.len, next^j.count, next^j.last for j and k on their boundaries (0, 1, last, one and two past the end); non-trivial = a view of a >=3-axis array or an iterator history continued past exhaustion (counted per iterator instance)",
        shp.len()
    );
    // arrays with 2^32 and more elements (zero-sized elements, so no memory is needed): the ends of
    // the index <-> position bijection, without walking it
    {
        let mut n = 0u64;
        for shape in [vec![65_536usize, 65_536], vec![65_536, 65_537], vec![65_535, 65_537], vec![3, 2048, 1024, 1024], vec![2, 3, 5, 7, 11, 13, 17, 19, 23, 29]] {
            n += 1;
            let total: usize = shape.iter().product();
            let sh = shape.clone();
            let r = catch(move || check_huge(&sh));
            let verdict = match r {
                Ok(x) => x,
                Err(p) => Err(format!("panic: {p}")),
            };
            if let Err(e) = verdict {
                rep.violation(
                    format!("C19|lib|huge-array|{}", if e.starts_with("panic") { "panic" } else { "wrong" }),
                    format!("Array<()> of shape {shape:?} ({total} elements): {e}"),
                    J::obj([("kind", J::s("c19-huge")), ("shape", J::usizes(&shape))]),
                );
            }
        }
        rep.part(Part {
            name: "lib: arrays with 2^32 and more elements".into(),
            evaluations: n,
            nontrivial: n,
            note: "zero-sized elements, shapes 65536x65536, 65536x65537, 65535x65537, 3x2048x1024x1024 and ten prime axes: iter_indices len / first item / nth item / remaining len, get at the corners and one past each axis, get_axis bounds".into(),
            exhaustive: true,
            extra: vec![],
        });
    }
    // the rest of the public interface: constructors, mutable accessors, indexing operators
    {
        let ashapes: Vec<Vec<usize>> = shapes(4, 1, 4, usize::MAX);
        let res = crate::par::par_map(ashapes.len(), |i| {
            let sh = ashapes[i].clone();
            match catch(move || check_api(&sh)) {
                Ok(Ok(())) => None,
                Ok(Err(e)) => Some(("wrong".to_string(), e)),
                Err(p) => Some((format!("panic|{}", panic_class(&p)), p)),
            }
        });
        for (sh, r) in ashapes.iter().zip(res) {
            if let Some((k, e)) = r {
                rep.violation(format!("C19|lib|api|{k}|{}axes", sh.len()), format!("shape {sh:?}: {e}"), J::obj([("kind", J::s("c19-api")), ("shape", J::usizes(sh))]));
            }
        }
        rep.part(Part {
            name: "lib: constructors, mutable accessors, indexing operators".into(),
            evaluations: ashapes.len() as u64,
            nontrivial: ashapes.len() as u64,
            note: format!("{} shapes with 1..4 axes of lengths 1..4: new / from_iter / from_element / from_zeros (shape as Vec, Shape, array, usize) and their count errors, Display of the shape, Index / IndexMut / get_mut / iter_mut / as_mut_slice against flat positions for every index, out-of-range get_mut = None and panicking operators, index_axis against get_axis for every (axis, position), get / get_mut / get_axis with coordinates of 2^31 .. the maximum, sums of arrays with negative / infinite / NaN / tiny entries against adding the views, the array without axes left by summing the only axis, Scs::new / from_range / from_vec / from_zeros / Index / IndexMut / inner_mut", ashapes.len()),
            exhaustive: true,
            extra: vec![],
        });
    }
    // clone / clone_from between arrays of every ordered pair of shapes (equal and different element
    // counts, equal counts with different shapes): no state of the target may survive
    {
        let cshapes: Vec<Vec<usize>> = shapes(3, 1, 4, 24);
        let pairs: Vec<(usize, usize)> = (0..cshapes.len()).flat_map(|i| (0..cshapes.len()).map(move |j| (i, j))).collect();
        let res = crate::par::par_map(pairs.len(), |k| {
            let (i, j) = pairs[k];
            let (a, b) = (cshapes[i].clone(), cshapes[j].clone());
            match catch(move || check_clone_pair(&a, &b)) {
                Ok(Ok(())) => None,
                Ok(Err(e)) => Some(("wrong".to_string(), e)),
                Err(p) => Some((format!("panic|{}", panic_class(&p)), p)),
            }
        });
        for ((i, j), r) in pairs.iter().zip(res) {
            if let Some((k, e)) = r {
                rep.violation(
                    format!("C19|lib|clone-pair|{k}|{}", if cshapes[*i].iter().product::<usize>() == cshapes[*j].iter().product::<usize>() { "same-count" } else { "different-count" }),
                    format!("source shape {:?} cloned into an array of shape {:?}: {e}", cshapes[*i], cshapes[*j]),
                    J::obj([("kind", J::s("c19-clone")), ("shape", J::usizes(&cshapes[*i])), ("into", J::usizes(&cshapes[*j]))]),
                );
            }
        }
        rep.transitions += 2 * pairs.len() as u64;
        rep.part(Part {
            name: "lib: clone and clone_from between shapes".into(),
            evaluations: pairs.len() as u64,
            nontrivial: pairs.len() as u64,
            note: format!("every ordered pair of the {} shapes with 1..3 axes, lengths 1..4 and <= 24 elements: target.clone_from(&source) and source.clone() are indistinguishable from the source (shape, data, equality, every index, one past every axis, every axis view, every axis sum)", cshapes.len()),
            exhaustive: true,
            extra: vec![],
        });
    }
    // (a panic of the subject in a place the per-call guards do not cover - an iterator constructor,
    // a view accessor - is a violation for that shape, not a failure of the explorer)
    let results = par_each(&shp, |s| {
        catch(|| check_shape(s)).unwrap_or_else(|p| {
            let mut r = ShapeResult::default();
            r.v(s, &format!("panic-outside-guards|{}", panic_class(&p)), format!("shape {s:?}: the array interface panicked: {p}"), J::Null);
            r
        })
    });
    let mut evals = 0;
    let mut nontrivial = 0;
    for (s, r) in shp.iter().zip(results) {
        evals += r.evals;
        nontrivial += r.histories_past_end + r.views_2d;
        rep.states += r.states;
        rep.transitions += r.transitions;
        rep.traces += r.histories_past_end;
        rep.outcome_n("iterator histories run to exhaustion + 3", r.histories_past_end);
        if r.viols.is_empty() {
            rep.outcome("shape: all invariants hold");
        } else {
            rep.outcome("shape: some invariant violated");
        }
        for (k, w, j) in r.viols {
            rep.violation(k, w, j);
        }
        if s == &vec![2, 3] || s == &vec![3] || s == &vec![2, 1, 3] {
            rep.sample(J::obj([
                ("shape", J::usizes(s)),
                (
                    "checked",
                    J::s("iter_indices order+len; get on box [0..len+1]^d; get_axis for axes 0..d+1 x positions 0..len+1; view.iter()/axis_iter/frequencies_iter histories next^j.len continued 3 calls past exhaustion; sum(axis) vs reference"),
                ),
            ]));
        }
    }
    rep.part(Part {
        name: "array/view/iterator invariants".into(),
        evaluations: evals,
        nontrivial,
        note: format!("{} shapes", shp.len()),
        exhaustive: true,
        extra: vec![],
    });
    rep.assumptions = vec![
        "rustc/std as installed".into(),
        "reference model RefArray (explicit odometer arithmetic)".into(),
    ];
    rep.finish()
}

pub fn replay(case: &J) -> Option<Vec<String>> {
    let shape = case.get("shape")?.as_usizes()?;
    if case.get("kind").and_then(|k| k.as_str()) == Some("c19-huge") {
        let sh = shape.clone();
        return Some(match catch(move || check_huge(&sh)) {
            Ok(Ok(())) => vec![],
            Ok(Err(e)) => vec![format!("C19|lib|huge-array :: {e}")],
            Err(p) => vec![format!("C19|lib|huge-array|panic :: {p}")],
        });
    }
    if case.get("kind").and_then(|k| k.as_str()) == Some("c19-api") {
        let sh = shape.clone();
        return Some(match catch(move || check_api(&sh)) {
            Ok(Ok(())) => vec![],
            Ok(Err(e)) => vec![format!("C19|lib|api|wrong :: {e}")],
            Err(p) => vec![format!("C19|lib|api|panic :: {p}")],
        });
    }
    if case.get("kind").and_then(|k| k.as_str()) == Some("c19-clone") {
        let (a, b) = (shape.clone(), case.get("into")?.as_usizes()?);
        return Some(match catch(move || check_clone_pair(&a, &b)) {
            Ok(Ok(())) => vec![],
            Ok(Err(e)) => vec![format!("C19|lib|clone-pair|wrong :: {e}")],
            Err(p) => vec![format!("C19|lib|clone-pair|panic :: {p}")],
        });
    }
    if shape.iter().product::<usize>() > 100_000 {
        return None;
    }
    Some(match catch(|| check_shape(&shape)) {
        Ok(r) => r.viols.into_iter().map(|(k, w, _)| format!("{k} :: {w}")).collect(),
        Err(p) => vec![format!("C19|lib|panic-outside-guards :: {p}")],
    })
}
