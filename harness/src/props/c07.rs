//! C07 — spectrum files round-trip through text and npy; the tool reads what it writes.

use std::fs;

use sfs_core::{
    spectrum::io::{read, write, Format},
    Array, Input,
};

use crate::{
    cli::{parse_text_spectrum, run_sfs, run_sfs_transport, Out, Scratch, Stdin, Transport},
    createmodel::Cls,
    enumerate::shapes,
    gen::{to_vcf, CallSet},
    json::{bytes_j, J},
    par::par_map,
    refmodel::{same_f64, RefArray},
    subject::{ref_from_spectrum, scs_from_ref, text_of},
    verdict::{catch, norm_msg, Part, Report, Tier},
};

type Viol = (String, String, J);

const SPECIAL: [f64; 16] = [
    0.0,
    -0.0,
    1.0,
    -1.0,
    0.5,
    1.0 / 3.0,
    5e-324,
    1e-310,
    1.797e308,
    1e22,
    123456.789,
    f64::NAN,
    f64::INFINITY,
    f64::NEG_INFINITY,
    -2.5e-7,
    0.1,
];

fn special_array(shape: &[usize], rot: usize) -> RefArray {
    RefArray::from_fn(shape, |f, _| {
        let v = SPECIAL[(f + rot) % SPECIAL.len()];
        if (f + rot) % 32 == 11 {
            // a signalling-NaN payload every other cycle
            f64::from_bits(0x7ff0_0000_0000_0001)
        } else {
            v
        }
    })
}

fn ulp(v: f64) -> f64 {
    if v == 0.0 || !v.is_finite() {
        return 0.0;
    }
    let b = v.abs().to_bits();
    f64::from_bits(b + 1) - f64::from_bits(b)
}

/// Half a unit of the p-th decimal, plus half an ulp for the final decimal -> binary rounding.
fn text_ok(got: f64, v: f64, p: usize) -> bool {
    if v.is_nan() {
        return got.is_nan();
    }
    if v.is_infinite() {
        return got == v;
    }
    (got - v).abs() <= 0.5 * 10f64.powi(-(p as i32)) * (1.0 + 1e-9) + 0.5 * ulp(v)
}

fn write_real(x: &RefArray, format: Format, precision: usize) -> Result<Vec<u8>, String> {
    catch(|| {
        let scs = scs_from_ref(x);
        let mut out = Vec::new();
        write::Builder::default()
            .set_format(format)
            .set_precision(precision)
            .write(&mut out, &scs)
            .map(|_| out)
            .map_err(|e| e.to_string())
    })
    .map_err(|p| format!("panic: {p}"))?
}

fn read_real_path(path: &std::path::Path) -> Result<RefArray, String> {
    catch(|| {
        read::Builder::default()
            .set_input(Input::new_unchecked(Some(path.to_path_buf())))
            .read()
            .map(|s| ref_from_spectrum(&s))
            .map_err(|e| e.to_string())
    })
    .map_err(|p| format!("panic: {p}"))?
}

fn lib_case(shape: &[usize], rot: usize, p: usize, fmt: &str) -> J {
    J::obj([
        ("kind", J::s("c07-lib")),
        ("shape", J::usizes(shape)),
        ("rot", J::u(rot)),
        ("precision", J::u(p)),
        ("format", J::s(fmt)),
    ])
}

/// Mostly-zero spectra and runs of (nearly) equal neighbours: kind 0 the first and the last entry
/// only, 1 the first three entries only (a zero tail), 2 the last entry only (a zero front), 3 every
/// 600th entry, 4 neighbours that differ by less than 2.2e-16 without being equal, 5 runs of equal
/// non-zero values with a change in between.
fn sparse_array(shape: &[usize], kind: usize) -> RefArray {
    let cells: usize = shape.iter().product();
    RefArray::from_fn(shape, |f, _| match kind {
        0 => if f == 0 || f + 1 == cells { 7.5 } else { 0.0 },
        1 => if f < 3 { (f + 1) as f64 } else { 0.0 },
        2 => if f + 1 == cells { 3.25 } else { 0.0 },
        3 => if f % 600 == 599 { f as f64 + 0.5 } else { 0.0 },
        4 => [1e-17, 3e-17, 9e-17, 1.1e-16, 2e-16, 2.00000000000000004e-16][f % 6] * (1.0 + (f / 6) as f64),
        _ => [2.5, 2.5, 2.5, 2.5000000000000004, 2.5, 0.0, 0.0, 1e300, 1e300][f % 9],
    })
}

fn check_lib(shape: &[usize], rot: usize, p: usize, scratch: &Scratch) -> Vec<Viol> {
    // rot >= 1000 selects the large-magnitude alphabet (many significant digits beyond 2^53),
    // rot >= 2000 the sparse / nearly-equal-neighbours alphabet
    let x = if rot >= 2000 { sparse_array(shape, rot - 2000) } else if rot >= 1000 { large_array(shape, rot - 1000) } else { special_array(shape, rot) };
    check_lib_x(&x, shape, rot, p, scratch)
}

/// Values whose magnitude exceeds 2^53 (where not every integer is representable) but which carry
/// 16-17 significant digits, and huge / tiny magnitudes with full mantissas.
const LARGE: [f64; 12] = [
    9007199254740994.0,
    12345678901234567168.0,
    -98765432109876543488.0,
    1.8446744073709552e19,
    4611686018427387904.0,
    123456789012345678e40,
    -7.654321098765432e-5,
    2.2250738585072014e-308,
    1.2345678901234567e300,
    16777217.0,
    4294967297.0,
    0.30000000000000004,
];

fn large_array(shape: &[usize], rot: usize) -> RefArray {
    RefArray::from_fn(shape, |f, _| LARGE[(f + rot) % LARGE.len()])
}

fn check_lib_x(x: &RefArray, shape: &[usize], rot: usize, p: usize, scratch: &Scratch) -> Vec<Viol> {
    let x = x.clone();
    let mut viols = Vec::new();
    // npy: bit-identical incl. NaN payloads, both through Array::read_npy and the auto-detecting reader
    match write_real(&x, Format::Npy, p) {
        Ok(bytes) => {
            let direct = catch(|| Array::read_npy(&bytes[..]).map(|a| (a.shape().to_vec(), a.as_slice().to_vec())));
            match direct {
                Ok(Ok((s, v))) => {
                    if s != x.shape || v.len() != x.data.len() || v.iter().zip(&x.data).any(|(a, b)| a.to_bits() != b.to_bits()) {
                        viols.push((
                            "C07|lib|npy-roundtrip-differs".into(),
                            format!("npy round trip of shape {shape:?} changed shape or bits: {s:?} {v:?}"),
                            lib_case(shape, rot, p, "npy"),
                        ));
                    }
                }
                other => viols.push((
                    "C07|lib|npy-not-read-back".into(),
                    format!("npy written for shape {shape:?} is not read back: {other:?}"),
                    lib_case(shape, rot, p, "npy"),
                )),
            }
            if p == 0 {
                let path = scratch.file(".npy", &bytes);
                match read_real_path(&path) {
                    Ok(r) if r.shape == x.shape && r.data.iter().zip(&x.data).all(|(a, b)| a.to_bits() == b.to_bits()) => {}
                    other => viols.push((
                        "C07|lib|npy-autodetect-differs".into(),
                        format!("auto-detecting reader on written npy of shape {shape:?}: {other:?}"),
                        lib_case(shape, rot, p, "npy"),
                    )),
                }
                let _ = fs::remove_file(path);
            }
        }
        Err(e) => viols.push((
            format!("C07|lib|npy-write-failed|{}", norm_msg(&e)),
            format!("writing npy for shape {shape:?} failed: {e}"),
            lib_case(shape, rot, p, "npy"),
        )),
    }
    // text
    match write_real(&x, Format::Text, p) {
        Ok(bytes) => {
            let path = scratch.file(".sfs", &bytes);
            match read_real_path(&path) {
                Ok(r) => {
                    if r.shape != x.shape {
                        viols.push((
                            "C07|lib|text-shape-differs".into(),
                            format!("text round trip of shape {shape:?} read back as {:?}", r.shape),
                            lib_case(shape, rot, p, "text"),
                        ));
                    } else if let Some((i, (g, v))) = r.data.iter().zip(&x.data).enumerate().find(|(_, (g, v))| !text_ok(**g, **v, p)) {
                        let cls = if v.is_finite() { "finite" } else { "non-finite" };
                        viols.push((
                            format!("C07|lib|text-value-off|{cls}|p{}", if p <= 15 { "<=15" } else { ">15" }),
                            format!("text round trip at precision {p}: value {i} = {v:e} read back as {g:e} (|diff| = {:e})", (g - v).abs()),
                            lib_case(shape, rot, p, "text"),
                        ));
                    }
                }
                Err(e) => viols.push((
                    format!("C07|lib|text-not-read-back|{}", norm_msg(&e)),
                    format!("text written for shape {shape:?} at precision {p} is not read back: {e}; file: {:?}", String::from_utf8_lossy(&bytes)),
                    lib_case(shape, rot, p, "text"),
                )),
            }
            let _ = fs::remove_file(path);
        }
        Err(e) => viols.push((
            format!("C07|lib|text-write-failed|{}", norm_msg(&e)),
            format!("writing text for shape {shape:?} failed: {e}"),
            lib_case(shape, rot, p, "text"),
        )),
    }
    viols
}

// ---------------------------------------------------------------------------------------------
// L2 matrix

#[derive(Clone, Debug)]
struct Pipe {
    producer: &'static str, // create | view | fold
    format: &'static str,   // text | npy
    sink: &'static str,     // stdout | file | file-reused
    consumer: usize,
    spectrum: usize,
    transport: Transport, // how the consumer receives what the producer wrote
}

const CONSUMERS: [&[&str]; 3] = [&["view", "--precision", "6"], &["fold", "--fill", "zero"], &["stat", "-s", "sum", "--precision", "6"]];

/// Every sequence of up to three setter calls on the write builder: what is written depends on the
/// last format and the last precision set, not on the order or number of calls.
fn check_builder_histories(x: &RefArray) -> (u64, Vec<Viol>) {
    #[derive(Clone, Copy, Debug, PartialEq)]
    enum Set {
        Text,
        Npy,
        P2,
        P9,
    }
    let alphabet = [Set::Text, Set::Npy, Set::P2, Set::P9];
    let scs = scs_from_ref(x);
    let mut viols = Vec::new();
    let mut n = 0u64;
    for hist in crate::enumerate::sequences(alphabet.len(), 0, 3) {
        n += 1;
        let hist: Vec<Set> = hist.into_iter().map(|i| alphabet[i]).collect();
        let format = hist.iter().rev().find_map(|h| match h { Set::Text => Some(Format::Text), Set::Npy => Some(Format::Npy), _ => None }).unwrap_or(Format::Text);
        let precision = hist.iter().rev().find_map(|h| match h { Set::P2 => Some(2usize), Set::P9 => Some(9), _ => None }).unwrap_or(6);
        let got = catch(|| {
            let mut b = write::Builder::default();
            for h in &hist {
                b = match h {
                    Set::Text => b.set_format(Format::Text),
                    Set::Npy => b.set_format(Format::Npy),
                    Set::P2 => b.set_precision(2),
                    Set::P9 => b.set_precision(9),
                };
            }
            let mut out = Vec::new();
            b.write(&mut out, &scs).map(|_| out).map_err(|e| e.to_string())
        });
        // the canonical call order of the binary: precision first, then format
        let expect = catch(|| {
            let mut out = Vec::new();
            write::Builder::default().set_precision(precision).set_format(format).write(&mut out, &scs).map(|_| out).map_err(|e| e.to_string())
        });
        let ok = matches!((&got, &expect), (Ok(Ok(a)), Ok(Ok(b))) if a == b);
        if !ok && viols.len() < 4 {
            viols.push((
                "C07|lib|write-builder-history".to_string(),
                format!("write::Builder with setter calls {hist:?} on shape {:?} writes {:?}; the last format is {} and the last precision {precision}, which written directly gives {:?}", x.shape, got.as_ref().map(|r| r.as_ref().map(|b| String::from_utf8_lossy(&b[..b.len().min(120)]).to_string())), if matches!(format, Format::Npy) { "npy" } else { "text" }, expect.as_ref().map(|r| r.as_ref().map(|b| String::from_utf8_lossy(&b[..b.len().min(120)]).to_string()))),
                J::obj([("kind", J::s("c07-builder")), ("shape", J::usizes(&x.shape)), ("history", J::s(format!("{hist:?}")))]),
            ));
        }
    }
    (n, viols)
}

fn l2_spectra() -> Vec<RefArray> {
    vec![
        RefArray::from_fn(&[5], |f, _| f as f64 * 1.5 + 0.25),
        RefArray::from_fn(&[3, 4], |f, _| (f * f) as f64),
        RefArray::from_fn(&[2, 3, 2], |f, _| f as f64 + 0.125),
        RefArray::from_fn(&[3, 3, 3, 2], |f, _| (f % 7) as f64),
        RefArray::from_fn(&[1], |_, _| 4.0),
        RefArray::from_fn(&[2, 1, 2, 1, 3], |f, _| f as f64),
        // tiny positive values whose most significant byte - the last byte of a little-endian npy
        // file - is an ASCII whitespace byte (space, tab, LF, FF, CR); as text they are zeros
        RefArray { shape: vec![3], data: vec![2.0, 1.0, f64::from_bits(0x2000_0000_0000_0001)] },
        RefArray { shape: vec![2, 2], data: vec![2.0, 1.0, 3.0, f64::from_bits(0x0900_0000_0000_0000)] },
        RefArray { shape: vec![3], data: vec![f64::from_bits(0x0a00_0000_0000_0000), 1.0, f64::from_bits(0x0a0a_0a0a_0a0a_0a0a)] },
        RefArray { shape: vec![3], data: vec![2.0, 1.0, f64::from_bits(0x0c00_0000_0000_0000)] },
        RefArray { shape: vec![3], data: vec![2.0, 1.0, f64::from_bits(0x0d0a_0d0a_0d0a_0d0a)] },
    ]
}

fn vcf_for_create() -> (Vec<u8>, RefArray) {
    // 3 samples, one population: every complete row once -> known count spectrum
    let mut cs = CallSet::new(3);
    let mut expect = RefArray::zeros(&[7]);
    for (i, row) in crate::createmodel::all_rows(3, &Cls::CALLED).iter().enumerate() {
        let gts: Vec<&str> = row.iter().map(|c| c.spell(i)).collect();
        cs.push_gts(&gts);
        let a: usize = row.iter().map(|c| c.alt().unwrap()).sum();
        expect.add(&[a], 1.0);
    }
    (to_vcf(&cs).0, expect)
}

fn expected_after(consumer: usize, x: &RefArray) -> Vec<f64> {
    match consumer {
        0 => x.data.clone(),
        1 => x.fold(0.0).data,
        _ => vec![x.sum()],
    }
}

fn eval_pipe(p: &Pipe, scratch: &Scratch) -> Option<Viol> {
    let spectra = l2_spectra();
    // what the producer is expected to emit
    let (prod_out, produced): (Out, RefArray) = match p.producer {
        "create" => {
            let (vcf, expect) = vcf_for_create();
            (run_sfs(&["create"], Stdin::Bytes(&vcf), scratch), expect)
        }
        prod => {
            let x = &spectra[p.spectrum];
            let input = text_of(x);
            let mut args: Vec<String> = vec![prod.to_string()];
            let produced = if prod == "fold" {
                args.extend(["--fill".to_string(), "nan".to_string()]);
                x.fold(f64::NAN)
            } else {
                args.extend(["-O".to_string(), p.format.to_string()]);
                x.clone()
            };
            if prod == "fold" {
                args.extend(["--precision".to_string(), "6".to_string()]);
            } else {
                args.extend(["--precision".to_string(), "6".to_string()]);
            }
            let mut out_path = None;
            if p.sink == "file-inplace" {
                // the output path is the input file itself: the input must be read before it is replaced
                let path = scratch.file(if p.format == "npy" { ".inplace.npy" } else { ".inplace.sfs" }, input.as_bytes());
                args.extend(["-o".to_string(), path.to_str().unwrap().to_string(), path.to_str().unwrap().to_string()]);
                let a: Vec<&str> = args.iter().map(|s| s.as_str()).collect();
                let mut o = run_sfs(&a, Stdin::Null, scratch);
                if o.ok() {
                    o.stdout = fs::read(&path).unwrap_or_default();
                }
                let _ = fs::remove_file(path);
                return finish_pipe(p, o, produced, scratch);
            }
            if p.sink != "stdout" {
                let path = scratch.path(if p.format == "npy" { ".out.npy" } else { ".out.sfs" });
                if p.sink == "file-reused" {
                    // the output path already holds a longer, older file
                    let old = text_of(&RefArray::from_fn(&[40], |f, _| f as f64 + 1000.0));
                    fs::write(&path, format!("{old}{old}{old}")).ok();
                }
                args.extend(["-o".to_string(), path.to_str().unwrap().to_string()]);
                out_path = Some(path);
            }
            let a: Vec<&str> = args.iter().map(|s| s.as_str()).collect();
            let mut o = run_sfs(&a, Stdin::Bytes(input.as_bytes()), scratch);
            if let Some(path) = out_path {
                if o.ok() {
                    o.stdout = fs::read(&path).unwrap_or_default();
                }
                let _ = fs::remove_file(path);
            }
            (o, produced)
        }
    };
    finish_pipe(p, prod_out, produced, scratch)
}

fn finish_pipe(p: &Pipe, prod_out: Out, produced: RefArray, scratch: &Scratch) -> Option<Viol> {
    let case = || {
        J::obj([
            ("kind", J::s("c07-pipe")),
            ("producer", J::s(p.producer)),
            ("format", J::s(p.format)),
            ("sink", J::s(p.sink)),
            ("consumer", J::strs(CONSUMERS[p.consumer])),
            ("spectrum", J::u(p.spectrum)),
            ("transport", J::s(p.transport.name())),
            ("produced_bytes", bytes_j(&prod_out.stdout[..prod_out.stdout.len().min(600)])),
        ])
    };
    if !prod_out.ok() {
        return Some((
            format!("C07|cli|producer-failed|{}", p.producer),
            format!("{p:?}: producer {} {}", prod_out.status_str(), prod_out.stderr_str()),
            case(),
        ));
    }
    // for every other spectrum the file name contradicts the content (format detection is by content)
    let suffix = match (p.format == "npy", p.spectrum % 2 == 1) {
        (true, false) => ".npy",
        (false, false) => ".sfs",
        (true, true) => ".txt",
        (false, true) => ".npy",
    };
    let o = run_sfs_transport(CONSUMERS[p.consumer], &prod_out.stdout, p.transport, suffix, scratch);
    if !o.ok() {
        return Some((
            format!("C07|cli|written-file-rejected|{}-{}-{}|{}|{}", p.producer, p.format, p.sink, CONSUMERS[p.consumer][0], p.transport.name()),
            format!("{p:?}: consumer rejected what the producer wrote: {} {}", o.status_str(), o.stderr_str()),
            case(),
        ));
    }
    let expect = expected_after(p.consumer, &produced);
    let got: Result<Vec<f64>, String> = if p.consumer == 2 {
        o.stdout_str().trim().parse::<f64>().map(|v| vec![v]).map_err(|e| e.to_string())
    } else {
        parse_text_spectrum(&o.stdout_str()).and_then(|(_, t)| crate::cli::parse_f64_tokens(&t))
    };
    match got {
        Ok(g) if g.len() == expect.len() && g.iter().zip(&expect).all(|(a, b)| {
            // values went through at most two text renderings at precision 6
            (a.is_nan() && b.is_nan()) || (a - b).abs() <= 1.01e-6 * (1.0 + expect.len() as f64) || same_f64(*a, *b)
        }) => None,
        other => Some((
            format!("C07|cli|values-differ|{}-{}-{}|{}|{}", p.producer, p.format, p.sink, CONSUMERS[p.consumer][0], p.transport.name()),
            format!("{p:?}: consumer printed {other:?}, expected {expect:?}"),
            case(),
        )),
    }
}

// size ladder: spectra whose serialised form crosses internal buffer sizes (4 KiB .. tens of MiB)

fn big_array(shape: &[usize]) -> RefArray {
    // pairwise different, exactly representable at one decimal, so a dropped, glued or repeated value is visible
    RefArray::from_fn(shape, |f, _| f as f64 + 0.5)
}

fn big_case(shape: &[usize], p: usize, what: &str) -> J {
    J::obj([("kind", J::s("c07-big")), ("shape", J::usizes(shape)), ("precision", J::u(p)), ("what", J::s(what))])
}

fn first_diff(a: &[f64], b: &[f64]) -> Option<usize> {
    if a.len() != b.len() {
        return Some(a.len().min(b.len()));
    }
    a.iter().zip(b).position(|(x, y)| x.to_bits() != y.to_bits())
}

fn check_big(shape: &[usize], p: usize, scratch: &Scratch) -> (u64, Vec<Viol>) {
    let x = big_array(shape);
    let mut viols = Vec::new();
    let mut evals = 0;
    let cells = x.data.len();
    // L1: both formats through the real writer and the real auto-detecting reader
    for (fmt, name, suffix) in [(Format::Text, "text", ".sfs"), (Format::Npy, "npy", ".npy")] {
        evals += 1;
        match write_real(&x, fmt, p) {
            Ok(bytes) => {
                let path = scratch.file(suffix, &bytes);
                match read_real_path(&path) {
                    Ok(r) if r.shape == x.shape && first_diff(&r.data, &x.data).is_none() => {}
                    Ok(r) => viols.push((
                        format!("C07|lib|big-{name}-roundtrip-differs"),
                        format!("{name} round trip of shape {shape:?} ({cells} cells, {} bytes) at precision {p}: shape {:?}, first differing value at {:?}", bytes.len(), r.shape, first_diff(&r.data, &x.data)),
                        big_case(shape, p, name),
                    )),
                    Err(e) => viols.push((
                        format!("C07|lib|big-{name}-not-read-back|{}", norm_msg(&e)),
                        format!("{name} written for shape {shape:?} ({cells} cells, {} bytes) at precision {p} is not read back: {e}", bytes.len()),
                        big_case(shape, p, name),
                    )),
                }
                let _ = fs::remove_file(path);
            }
            Err(e) => viols.push((format!("C07|lib|big-{name}-write-failed|{}", norm_msg(&e)), format!("writing {name} for shape {shape:?} failed: {e}"), big_case(shape, p, name))),
        }
    }
    // L2: text -> `view` (text) -> `view -O npy` -> `view` (text), each hop through a real pipe
    let ps = p.to_string();
    let t0 = text_of(&x);
    let o1 = run_sfs_transport(&["view", "--precision", &ps], t0.as_bytes(), Transport::StdinPipe, ".sfs", scratch);
    let o2 = if o1.ok() { run_sfs_transport(&["view", "-O", "npy"], &o1.stdout, Transport::StdinPipe, ".sfs", scratch) } else { o1.clone() };
    let o3 = if o2.ok() { run_sfs_transport(&["view", "--precision", &ps], &o2.stdout, Transport::PathFifo, ".npy", scratch) } else { o2.clone() };
    evals += 3;
    if !(o1.ok() && o2.ok() && o3.ok()) {
        let stage = if !o1.ok() { "text->text" } else if !o2.ok() { "text->npy" } else { "npy->text" };
        let bad = if !o1.ok() { &o1 } else if !o2.ok() { &o2 } else { &o3 };
        viols.push((
            format!("C07|cli|big-chain-rejected|{stage}"),
            format!("shape {shape:?} ({cells} cells) precision {p}: stage {stage} failed: {} {}", bad.status_str(), bad.stderr_str().chars().take(300).collect::<String>()),
            big_case(shape, p, "cli"),
        ));
    } else {
        for (name, o) in [("text->text", &o1), ("npy->text", &o3)] {
            match crate::subject::parse_out(o) {
                Ok(r) if r.shape == x.shape && first_diff(&r.data, &x.data).is_none() => {}
                Ok(r) => viols.push((
                    format!("C07|cli|big-values-differ|{name}"),
                    format!("shape {shape:?} ({cells} cells) precision {p}: after {name} shape {:?}, first differing value at {:?}", r.shape, first_diff(&r.data, &x.data)),
                    big_case(shape, p, "cli"),
                )),
                Err(e) => viols.push((
                    format!("C07|cli|big-output-unparsable|{name}"),
                    format!("shape {shape:?} ({cells} cells) precision {p}: after {name}: {}", e.chars().take(300).collect::<String>()),
                    big_case(shape, p, "cli"),
                )),
            }
        }
        if o1.stdout != o3.stdout {
            viols.push((
                "C07|cli|big-text-npy-text-differs".into(),
                format!("shape {shape:?} ({cells} cells) precision {p}: text -> npy -> text is not byte-identical"),
                big_case(shape, p, "cli"),
            ));
        }
    }
    (evals, viols)
}

// text -> npy -> text at equal precision

fn sig_digits(tok: &str) -> usize {
    let t = tok.trim_start_matches('-');
    let digits: String = t.chars().filter(|c| c.is_ascii_digit()).collect();
    digits.trim_start_matches('0').len()
}

fn eval_text_npy_text(exp: i32, p: usize, scratch: &Scratch) -> (u64, Option<Viol>) {
    // both signs (a negative entry that rounds to nothing prints as -0) and the two zeros
    let mut vals: Vec<f64> = (100..1000).flat_map(|m| [format!("{m}e{exp}").parse::<f64>().unwrap(), format!("-{m}e{exp}").parse::<f64>().unwrap()]).collect();
    vals.extend([0.0, -0.0]);
    let x = RefArray { shape: vec![vals.len()], data: vals };
    let t0 = text_of(&x);
    let ps = p.to_string();
    let o1 = run_sfs(&["view", "--precision", &ps], Stdin::Bytes(t0.as_bytes()), scratch);
    let o2 = run_sfs(&["view", "-O", "npy"], Stdin::Bytes(&o1.stdout), scratch);
    let o3 = run_sfs(&["view", "--precision", &ps], Stdin::Bytes(&o2.stdout), scratch);
    let case = J::obj([("kind", J::s("c07-tnt")), ("exponent", J::Int(exp as i64)), ("precision", J::u(p))]);
    if !(o1.ok() && o2.ok() && o3.ok()) {
        return (0, Some(("C07|cli|text-npy-text-failed".into(), format!("exp {exp} p {p}: {} / {} / {}", o1.status_str(), o2.status_str(), o3.status_str()), case)));
    }
    let a = parse_text_spectrum(&o1.stdout_str());
    let b = parse_text_spectrum(&o3.stdout_str());
    match (a, b) {
        (Ok((s1, t1)), Ok((s3, t3))) if s1 == s3 && t1.len() == t3.len() => {
            let mut checked = 0;
            for (x, y) in t1.iter().zip(&t3) {
                if sig_digits(x) <= 15 {
                    checked += 1;
                    if x != y {
                        return (checked, Some((
                            "C07|cli|text-npy-text-differs".into(),
                            format!("exp {exp} p {p}: token '{x}' became '{y}' after text -> npy -> text"),
                            case,
                        )));
                    }
                }
            }
            (checked, None)
        }
        other => (0, Some(("C07|cli|text-npy-text-failed".into(), format!("exp {exp} p {p}: unparsable outputs {other:?}"), case))),
    }
}

pub fn run(tier: Tier) -> i32 {
    let mut rep = Report::new("C07", tier, "exploration");
    rep.rule = "L1: every shape with 1..6 axes, lengths 1..4 and <=24 cells, filled cyclically from a 16-value special alphabet (+-0, subnormal, huge, NaN incl. a signalling payload, +-inf, 1/3, ...) x precision 0..17 x {text, npy}: write with io::write::Builder, read back with Array::read_npy and the auto-detecting io::read::Builder; npy bit-identical, text within half a unit of the p-th decimal (+ half an ulp for the decimal->binary step). L2: full matrix producer{create,view,fold} x format x sink{stdout, -o fresh file, -o over a longer existing file, -o onto the input file itself} x consumer{view,fold,stat} x consumer transport{stdin file, stdin pipe, path, FIFO path, /dev/stdin} x 6 spectra; a size ladder of spectra whose text form crosses 4 KiB .. 16 MiB through both formats and both layers; text->npy->text token identity for all 3-digit mantissas x exponents -6..6 x precisions {0,3,6,9} on tokens with <=15 significant digits. Non-trivial = non-finite or subnormal values, >=3 axes, npy, or a reused output file.".into();

    let scratch = Scratch::new("c07");
    let shp = shapes(6, 1, 4, 24);
    let precisions: Vec<usize> = (0..=17).collect();
    let mut jobs: Vec<(usize, usize, usize)> = Vec::new();
    for (si, _) in shp.iter().enumerate() {
        for &p in &precisions {
            // rotate the alphabet so that every value meets every precision on small shapes too
            let rots: Vec<usize> = if tier.thorough() { vec![0, 5, 11] } else { vec![(si + p) % 16] };
            for r in rots {
                jobs.push((si, r, p));
            }
        }
    }
    let res = par_map(jobs.len(), |i| {
        let (si, r, p) = jobs[i];
        check_lib(&shp[si], r, p, &scratch)
    });
    for v in res.into_iter().flatten() {
        rep.violation(v.0, v.1, v.2);
    }
    rep.part(Part {
        name: "lib: write -> read round trip".into(),
        evaluations: 2 * jobs.len() as u64,
        nontrivial: 2 * jobs.len() as u64,
        note: format!("{} shapes x precision 0..17 x {{text,npy}}, special-value alphabet", shp.len()),
        exhaustive: true,
        extra: vec![],
    });
    // large magnitudes with full mantissas at every precision
    let mut lj = Vec::new();
    for r in 0..LARGE.len() {
        for p in 0..=17usize {
            lj.push((r, p));
        }
    }
    let res = par_map(lj.len(), |i| check_lib(&[1], 1000 + lj[i].0, lj[i].1, &scratch).into_iter().chain(check_lib(&[2, 3], 1000 + lj[i].0, lj[i].1, &scratch)).collect::<Vec<_>>());
    for v in res.into_iter().flatten() {
        rep.violation(v.0, v.1, v.2);
    }
    rep.part(Part {
        name: "lib: magnitudes beyond 2^53 with 16-17 significant digits".into(),
        evaluations: 4 * lj.len() as u64,
        nontrivial: 4 * lj.len() as u64,
        note: format!("{} values (2^53+2, ~1.2e19, 2^64, 1.2e58, 1.2e300, the smallest normal, 2^24+1, 2^32+1, ...) x precision 0..17 x {{text, npy}} as 1-cell and 2x3 spectra", LARGE.len()),
        exhaustive: true,
        extra: vec![],
    });
    // every special value alone at every precision (1-cell spectra)
    let mut singles = Vec::new();
    for r in 0..32 {
        for p in 0..=17 {
            singles.push((r, p));
        }
    }
    {
        // sparse spectra and runs of equal or nearly equal neighbours
        let mut sj: Vec<(Vec<usize>, usize, usize)> = Vec::new();
        for shape in [vec![23usize, 23], vec![9, 9, 9], vec![1100], vec![64], vec![130], vec![5, 13]] {
            for kind in 0..6usize {
                for p in [0usize, 6, 17, 20] {
                    sj.push((shape.clone(), 2000 + kind, p));
                }
            }
        }
        let res = par_map(sj.len(), |i| check_lib(&sj[i].0, sj[i].1, sj[i].2, &scratch));
        for v in res.into_iter().flatten() {
            rep.violation(v.0, v.1, v.2);
        }
        rep.part(Part {
            name: "lib: sparse spectra and runs of equal or nearly equal neighbours".into(),
            evaluations: sj.len() as u64,
            nontrivial: sj.len() as u64,
            note: "six shapes of 64 .. 1 100 entries x six fillings (first and last entry only, a zero tail, a zero front, every 600th entry, neighbours closer than 2.2e-16 that are not equal, runs of equal values with a change in between) x precision 0 / 6 / 17 / 20 through both formats: every value read back within the format's tolerance".into(),
            exhaustive: true,
            extra: vec![],
        });
    }
    let res = par_map(singles.len(), |i| check_lib(&[1], singles[i].0, singles[i].1, &scratch));
    for v in res.into_iter().flatten() {
        rep.violation(v.0, v.1, v.2);
    }
    rep.part(Part {
        name: "lib: every special value x every precision".into(),
        evaluations: 2 * singles.len() as u64,
        nontrivial: 2 * singles.len() as u64,
        note: "16 values (+ signalling NaN) x precision 0..17 as one-cell spectra".into(),
        exhaustive: true,
        extra: vec![],
    });
    rep.sample(J::obj([
        ("shape", J::usizes(&[2, 2])),
        ("values", J::f64s(&special_array(&[2, 2], 5).data)),
        ("precision", J::u(17)),
        ("format", J::s("text")),
        ("expected", J::s("same shape; every finite value within 0.5e-17 (+ half an ulp)")),
    ]));

    // L2 matrix
    let mut pipes: Vec<Pipe> = Vec::new();
    for consumer in 0..3 {
        for transport in Transport::ALL {
            pipes.push(Pipe { producer: "create", format: "text", sink: "stdout", consumer, spectrum: 0, transport });
            for spectrum in 0..l2_spectra().len() {
                for sink in ["stdout", "file", "file-reused", "file-inplace"] {
                    pipes.push(Pipe { producer: "fold", format: "text", sink, consumer, spectrum, transport });
                    for format in ["text", "npy"] {
                        pipes.push(Pipe { producer: "view", format, sink, consumer, spectrum, transport });
                    }
                }
            }
        }
    }
    let res = par_map(pipes.len(), |i| eval_pipe(&pipes[i], &scratch));
    for v in res.into_iter().flatten() {
        rep.violation(v.0, v.1, v.2);
    }
    rep.part(Part {
        name: "cli: producer x format x sink x consumer".into(),
        evaluations: pipes.len() as u64,
        nontrivial: pipes.iter().filter(|p| p.format == "npy" || p.sink == "file-reused" || p.producer == "fold" || p.spectrum >= 2).count() as u64,
        note: "every combination; fold produces NaN cells; `-o` onto a fresh path, onto a longer pre-existing file and onto the input file itself; the consumer reads from stdin (regular file / real pipe) or from a path (regular file / FIFO / /dev/stdin over a pipe; for every other spectrum under a file name whose extension contradicts the format)".into(),
        exhaustive: true,
        extra: vec![],
    });
    rep.sample(J::obj([
        ("pipeline", J::s("sfs view -O npy -o <existing longer file> < 3x4 text | sfs fold --fill zero")),
        ("expected", J::s("consumer exits 0 with auto-detected format and reproduces the folded values")),
    ]));

    // setter histories of the write builder
    {
        let mut n = 0u64;
        for x in [RefArray::from_fn(&[2, 3], |f, _| f as f64 + 0.123456789012), RefArray::from_fn(&[4], |f, _| (f * f) as f64 + 0.5)] {
            let (e, v) = check_builder_histories(&x);
            n += e;
            for (k, w, j) in v {
                rep.violation(k, w, j);
            }
        }
        rep.transitions += 3 * n;
        rep.part(Part {
            name: "lib: setter histories of the write builder".into(),
            evaluations: n,
            nontrivial: n,
            note: "every sequence of 0..3 calls of {set_format(Text), set_format(Npy), set_precision(2), set_precision(9)} on two spectra: the bytes written are those of the last format and last precision set".into(),
            exhaustive: true,
            extra: vec![],
        });
    }
    // the library's writers and readers on plain streams (writers that take a few bytes per call and
    // implement only write / flush, a writer that is full, buffered readers of small capacities)
    {
        let spectra: Vec<RefArray> = vec![RefArray::from_fn(&[5], |f, _| f as f64 * 1.5 + 0.25), RefArray::from_fn(&[3, 4], |f, _| (f * f) as f64 + 0.125), RefArray::from_fn(&[2, 3, 2], |f, _| f as f64 + 0.5), RefArray::from_fn(&[40, 30], |f, _| (f % 97) as f64 + 0.25)];
        let mut n = 0u64;
        for x in &spectra {
            for precision in [0usize, 6] {
                n += 1;
                let scs = crate::subject::scs_from_ref(x);
                let r = crate::verdict::catch(|| crate::subject::io_through_plain_streams(&scs, precision));
                let problem = match r {
                    Ok(p) => p,
                    Err(p) => Some(format!("panic: {p}")),
                };
                if let Some(why) = problem {
                    rep.violation("C07|lib|plain-streams".to_string(), format!("spectrum of shape {:?} at precision {precision}: {why}", x.shape), J::obj([("kind", J::s("plain-streams")), ("shape", J::usizes(&x.shape))]));
                }
            }
        }
        rep.part(Part {
            name: "lib: writers and readers on plain streams".into(),
            evaluations: n,
            nontrivial: n,
            note: "each spectrum in text and npy through writers accepting 1 / 7 / 64 bytes per call (only write and flush implemented): the bytes a Vec receives; into a writer that is full (Ok(0)) after 0, 1, half, all but one byte: not a success; the npy bytes read back through buffered readers of capacity 1, 3, 7, 8, 12, 20, 100, 127, 129".into(),
            exhaustive: true,
            extra: vec![],
        });
    }
    // size ladder
    let mut ladder: Vec<Vec<usize>> = vec![
        vec![600], vec![30, 40], vec![2, 3, 500], vec![8000], vec![20, 20, 20], vec![100, 100], vec![70000], vec![150000], vec![300, 500],
    ];
    if tier.thorough() {
        ladder.extend([vec![1_200_000], vec![100, 100, 100], vec![3, 700, 700]]);
    }
    // entry counts around the block sizes of writers
    for c in [1024usize, 4096, 8192, 65_536] {
        for n in [c - 1, c, c + 1] {
            ladder.push(vec![n]);
        }
    }
    ladder.extend([vec![32, 32], vec![25, 41], vec![33, 33], vec![16, 16, 4], vec![2, 2, 2, 2, 2, 2, 2, 2, 2, 2, 2]]);
    let mut bjobs = Vec::new();
    for sh in &ladder {
        for p in [1usize, 6] {
            bjobs.push((sh.clone(), p));
        }
    }
    // many axes: k unit axes and one longer axis, so that the npy header (whose length depends on the
    // shape text) takes every length modulo its 64-byte alignment; and 2..24 axes of length 2 and 1
    let n_ladder = ladder.len();
    for k in 1..=64usize {
        for last in [7usize, 42, 123, 1000] {
            let mut sh = vec![1usize; k];
            sh.push(last);
            bjobs.push((sh.clone(), 1));
            ladder.push(sh);
        }
    }
    for k in 12..=24usize {
        let sh: Vec<usize> = (0..k).map(|i| if i < 10 { 2 } else { 1 }).collect();
        bjobs.push((sh.clone(), 1));
        ladder.push(sh);
        let mut sh: Vec<usize> = vec![10];
        sh.extend((1..k).map(|i| if i < 10 { 2 } else { 1 }));
        bjobs.push((sh.clone(), 1));
        ladder.push(sh);
    }
    let res = par_map(bjobs.len(), |i| check_big(&bjobs[i].0, bjobs[i].1, &scratch));
    let mut bev = 0;
    for (e, v) in res {
        bev += e;
        for (k, w, j) in v {
            rep.violation(k, w, j);
        }
    }
    rep.part(Part {
        name: "lib+cli: size ladder".into(),
        evaluations: bev,
        nontrivial: bev,
        note: format!("{n_ladder} shapes with {} .. {} cells x precision {{1,6}}, and {} shapes with 2..65 axes (unit axes around one longer axis, so that the npy header takes every length modulo 64; 12..24 axes of lengths 10/2/1) at precision 1: write/read of both formats at L1, and text -> view -> view -O npy -> view (real pipes and a FIFO) at L2, every value compared exactly", ladder.iter().map(|s| s.iter().product::<usize>()).min().unwrap(), ladder.iter().map(|s| s.iter().product::<usize>()).max().unwrap(), ladder.len() - n_ladder),
        exhaustive: true,
        extra: vec![("cells".into(), J::Arr(ladder.iter().map(|s| J::u(s.iter().product::<usize>())).collect()))],
    });

    {
        // the conversions written and routed in every other way
        let mut sp: Vec<(Vec<String>, Vec<u8>)> = Vec::new();
        let strs = |a: &[&str]| -> Vec<String> { a.iter().map(|x| x.to_string()).collect() };
        for x in l2_spectra().iter().take(3) {
            let text = text_of(x).into_bytes();
            let npy = run_sfs(&["view", "-O", "npy"], Stdin::Bytes(&text), &scratch).stdout;
            sp.push((strs(&["view", "--precision", "17"]), text.clone()));
            sp.push((strs(&["view", "-O", "npy"]), text.clone()));
            sp.push((strs(&["view", "--precision", "0"]), text.clone()));
            sp.push((strs(&["view", "--precision", "17"]), npy.clone()));
            sp.push((strs(&["view", "-O", "npy"]), npy.clone()));
            sp.push((strs(&["fold", "--precision", "17"]), text));
        }
        super::spelling_part(&mut rep, "C07", "text -> text, text -> npy, npy -> text, npy -> npy and fold for three spectra", &sp, &scratch);
    }
    // text -> npy -> text
    let mut tnt = Vec::new();
    for exp in -8..=4 {
        for p in [0usize, 3, 6, 9] {
            tnt.push((exp, p));
        }
    }
    let res = par_map(tnt.len(), |i| eval_text_npy_text(tnt[i].0, tnt[i].1, &scratch));
    let mut tokens = 0;
    for (n, v) in res {
        tokens += n;
        if let Some((k, w, j)) = v {
            rep.violation(k, w, j);
        }
    }
    rep.part(Part {
        name: "cli: text -> npy -> text".into(),
        evaluations: 3 * tnt.len() as u64,
        nontrivial: tnt.len() as u64,
        note: format!("mantissas 100..999 of both signs and the two zeros x exponents -8..4 (values 1e-6..1e7) x precision {{0,3,6,9}}; {tokens} tokens with <=15 significant digits compared byte-wise"),
        exhaustive: true,
        extra: vec![("tokens_compared".into(), J::Int(tokens as i64))],
    });
    rep.assumptions = vec![
        "'all f64 values' is replaced by a finite special-value alphabet and all 3-digit mantissas (DESIGN section 4)".into(),
        "text oracle allows half an ulp on top of half a unit of the p-th decimal (the decimal -> binary rounding on reading)".into(),
    ];
    rep.finish()
}

pub fn replay(case: &J) -> Option<Vec<String>> {
    let scratch = Scratch::new("c07r");
    let fmt = |v: Vec<Viol>| v.into_iter().map(|(k, w, _)| format!("{k} :: {w}")).collect::<Vec<_>>();
    match case.get("kind")?.as_str()? {
        "c07-lib" => Some(fmt(check_lib(
            &case.get("shape")?.as_usizes()?,
            case.get("rot")?.as_i64()? as usize,
            case.get("precision")?.as_i64()? as usize,
            &scratch,
        ))),
        "c07-big" => Some(fmt(check_big(&case.get("shape")?.as_usizes()?, case.get("precision")?.as_i64()? as usize, &scratch).1)),
        "c07-tnt" => Some(fmt(
            eval_text_npy_text(case.get("exponent")?.as_i64()? as i32, case.get("precision")?.as_i64()? as usize, &scratch)
                .1
                .into_iter()
                .collect(),
        )),
        "c07-pipe" => {
            let leak = |s: &str| -> &'static str { Box::leak(s.to_string().into_boxed_str()) };
            let cons = case.get("consumer")?.as_arr()?.first()?.as_str()?.to_string();
            let p = Pipe {
                producer: leak(case.get("producer")?.as_str()?),
                format: leak(case.get("format")?.as_str()?),
                sink: leak(case.get("sink")?.as_str()?),
                consumer: CONSUMERS.iter().position(|c| c[0] == cons)?,
                spectrum: case.get("spectrum")?.as_i64()? as usize,
                transport: case.get("transport").and_then(|t| t.as_str()).and_then(Transport::from_name).unwrap_or(Transport::StdinFile),
            };
            Some(fmt(eval_pipe(&p, &scratch).into_iter().collect()))
        }
        _ => None,
    }
}
