//! C02 — create --project: hypergeometric down-sampling of every covered site.

use sfs_core::input::genotype::{self, Genotype, Skipped};

use crate::{
    cli::{parse_f64_tokens, parse_text_spectrum, run_sfs, Out, Scratch, Stdin},
    createmodel::{all_rows, build_site_reader, pop_sizes, ref_create, row_str, run_reader, sample_arg, Cls, MemReader},
    enumerate::{indices, sample_maps},
    gen::{to_vcf, CallSet},
    json::J,
    par::par_map,
    refmodel::{close_coef, hyper_exact, printed_ok, RefArray},
    subject::join_usizes,
    verdict::{norm_msg, Part, Report, Tier},
};

type Viol = (String, String, J);

fn map_str(map: &[Option<usize>]) -> String {
    map.iter().map(|p| p.map_or("-".to_string(), |p| p.to_string())).collect::<Vec<_>>().join("")
}

/// exact / projectable / insufficient, by the statement
fn site_outcome(map: &[Option<usize>], row: &[Cls], m: &[usize]) -> &'static str {
    let d = m.len();
    let mut called = vec![0usize; d];
    for (c, p) in row.iter().zip(map) {
        if let (Some(p), Some(_)) = (p, c.alt()) {
            called[*p] += 2;
        }
    }
    if (0..d).any(|j| called[j] < m[j]) {
        "insufficient"
    } else if (0..d).all(|j| called[j] == m[j]) {
        "exact"
    } else {
        "projectable"
    }
}

fn arr_close(a: &RefArray, b: &RefArray, scale: f64) -> bool {
    a.shape == b.shape && a.data.iter().zip(&b.data).all(|(x, y)| x.is_finite() && (close_coef(*x, *y) || (x - y).abs() <= 1e-9 * scale))
}

fn lib_case(map: &[Option<usize>], rows: &[Vec<Cls>], m: &[usize]) -> J {
    J::obj([
        ("kind", J::s("c02-lib")),
        ("map", J::s(map_str(map))),
        ("rows", J::strs(&rows.iter().map(|r| row_str(r)).collect::<Vec<_>>())),
        ("target_chromosomes", J::usizes(m)),
    ])
}

fn eval_rows(map: &[Option<usize>], rows: &[Vec<Cls>], m: &[usize]) -> Option<Viol> {
    let s = map.len();
    let shape: Vec<usize> = m.iter().map(|x| x + 1).collect();
    let expect = ref_create(rows, map, Some(m));
    let got = build_site_reader(Box::new(MemReader::from_classes(s, rows)), map, Some(&shape)).and_then(|mut r| run_reader(&mut r));
    let cls = if rows.len() == 1 { site_outcome(map, &rows[0], m) } else { "multi-record" };
    match got {
        Ok(g) => {
            if g.skipped != expect.skipped || g.sites != expect.sites {
                return Some((
                    format!("C02|lib|skip-decision-wrong|{cls}|{}pops", m.len()),
                    format!(
                        "map {} target {m:?} rows {:?}: {} of {} records skipped, expected {}",
                        map_str(map),
                        rows.iter().map(|r| row_str(r)).take(6).collect::<Vec<_>>(),
                        g.skipped,
                        g.sites,
                        expect.skipped
                    ),
                    lib_case(map, rows, m),
                ));
            }
            if !arr_close(&g.spectrum, &expect.spectrum, rows.len() as f64) {
                return Some((
                    format!("C02|lib|projection-wrong|{cls}|{}pops", m.len()),
                    format!(
                        "map {} target {m:?} rows {:?}: got {:?} {:?}, expected {:?} {:?}",
                        map_str(map),
                        rows.iter().map(|r| row_str(r)).take(6).collect::<Vec<_>>(),
                        g.spectrum.shape,
                        g.spectrum.data,
                        expect.spectrum.shape,
                        expect.spectrum.data
                    ),
                    lib_case(map, rows, m),
                ));
            }
            None
        }
        Err(e) => Some((
            format!("C02|lib|failed|{}", norm_msg(&e)),
            format!("map {} target {m:?} rows {:?}: {e}", map_str(map), rows.iter().map(|r| row_str(r)).take(6).collect::<Vec<_>>()),
            lib_case(map, rows, m),
        )),
    }
}

// large single-population cohorts: a record with `t` called chromosomes of which `a` are ALT
fn cohort_row(n_samples: usize, t: usize, a: usize) -> Vec<genotype::Result> {
    let called = t / 2;
    let mut row = Vec::with_capacity(n_samples);
    let mut remaining = a;
    for i in 0..n_samples {
        if i < called {
            let g = remaining.min(2);
            remaining -= g;
            row.push(genotype::Result::Genotype(match g {
                0 => Genotype::Zero,
                1 => Genotype::One,
                _ => Genotype::Two,
            }));
        } else {
            row.push(genotype::Result::Skipped(if i % 2 == 0 { Skipped::Missing } else { Skipped::Multiallelic }));
        }
    }
    assert_eq!(remaining, 0);
    row
}

/// One record with `t` called chromosomes of which `a` are ALT, among `n_samples` samples of one
/// population, projected to `m` chromosomes: every entry against the exact kernel.
fn eval_one(n_samples: usize, t: usize, a: usize, m: usize, what: &str) -> Option<Viol> {
    let map: Vec<Option<usize>> = vec![Some(0); n_samples];
    let row = cohort_row(n_samples, t, a);
    let got = build_site_reader(Box::new(MemReader::new(n_samples, vec![row])), &map, Some(&[m + 1])).and_then(|mut r| run_reader(&mut r));
    let expect: Vec<f64> = (0..=m).map(|k| hyper_exact(t as u64, a as u64, m as u64, k as u64)).collect();
    let case = J::obj([
        ("kind", J::s("c02-triple")),
        ("what", J::s(what)),
        ("samples", J::u(n_samples)),
        ("called_chromosomes", J::u(t)),
        ("alt", J::u(a)),
        ("target_chromosomes", J::u(m)),
    ]);
    let size_class = if t >= 1030 { "t>=1030" } else if t > 170 { "170<t<1030" } else { "t<=170" };
    match got {
        Ok(g) => {
            let finite = g.spectrum.data.iter().all(|v| v.is_finite());
            let ok = g.skipped == 0
                && g.spectrum.data.len() == expect.len()
                // one record, one population: every entry is a single pmf value, so the comparison is
                // relative even for the far tails (a contribution of 1e-200 must not be dropped)
                && g.spectrum.data.iter().zip(&expect).all(|(x, r)| crate::refmodel::close_coef_n(*x, *r, t as u64));
            if !ok {
                let at = g.spectrum.data.iter().zip(&expect).position(|(x, r)| !crate::refmodel::close_coef_n(*x, *r, t as u64));
                return Some((
                    format!("C02|lib|{what}-{}|{size_class}", if finite { "wrong" } else { "non-finite" }),
                    format!(
                        "{n_samples} samples, record with {t} called chromosomes ({a} ALT) projected to {m}: skipped={} mass={} first differing cell {:?}: {:?} vs reference {:?}",
                        g.skipped,
                        g.spectrum.sum(),
                        at,
                        at.map(|i| g.spectrum.data[i]),
                        at.map(|i| expect[i]),
                    ),
                    case,
                ));
            }
            None
        }
        Err(e) => Some((
            format!("C02|lib|{what}-failed|{size_class}|{}", norm_msg(&e)),
            format!("{n_samples} samples, t={t}, a={a}, m={m}: {e}"),
            case,
        )),
    }
}

/// Every (ALT count, target) pair for one number of called chromosomes.
fn eval_triples(t: usize) -> (u64, Vec<Viol>) {
    // one or two uncalled samples next to the called ones
    let n_samples = t / 2 + 1 + (t / 2) % 2;
    let mut viols = Vec::new();
    let mut evals = 0;
    for m in 1..=t {
        for a in 0..=t {
            evals += 1;
            if viols.len() < 4 {
                if let Some(v) = eval_one(n_samples, t, a, m, "triple") {
                    viols.push(v);
                }
            }
        }
        if viols.len() >= 4 {
            break;
        }
    }
    (evals, viols)
}

fn eval_cohort(n_samples: usize, m: usize) -> (u64, Vec<Viol>) {
    let full = 2 * n_samples;
    let mut ts: Vec<usize> = vec![m + (m % 2), m + (m % 2) + 2, full - 2, full];
    ts.retain(|t| *t >= m && *t <= full && t % 2 == 0);
    ts.sort();
    ts.dedup();
    let mut viols = Vec::new();
    let mut evals = 0;
    for &t in &ts {
        // incl. the 170!/171! boundary of the factorial table
        let mut alts: Vec<usize> = vec![0, 1, t / 2, t.saturating_sub(1), t, 170, 171, 172];
        alts.retain(|a| *a <= t);
        alts.sort();
        alts.dedup();
        for a in alts {
            evals += 1;
            if let Some(v) = eval_one(n_samples, t, a, m, "cohort") {
                viols.push(v);
            }
        }
    }
    (evals, viols)
}

// ---------------------------------------------------------------------------------------------
// L2

fn l2_rows() -> Vec<Vec<Cls>> {
    use Cls::*;
    vec![
        vec![G0, G1, G2],
        vec![G1, G1, Missing],
        vec![Missing, Missing, G2],
        vec![Multi, G0, G1],
        vec![G2, G2, G2],
        vec![Missing, Missing, Missing],
        vec![G0, G0, G0],
        vec![G1, Missing, G1],
        vec![G2, Multi, Missing],
        vec![G1, G2, G0],
        vec![Missing, G1, G1],
        vec![G0, Missing, Multi],
    ]
}

fn callset(rows: &[Vec<Cls>], variant: usize) -> CallSet {
    let mut cs = CallSet::new(rows.first().map_or(3, |r| r.len()));
    for (i, row) in rows.iter().enumerate() {
        let gts: Vec<&str> = row.iter().enumerate().map(|(j, c)| c.spell(i + j + variant)).collect();
        cs.push_gts(&gts);
        let last = cs.records.len() - 1;
        cs.records[last].alts = vec!["C", "G", "T"];
        // a record in which nobody carries an ALT allele is written without one (ALT `.`), its
        // missing genotypes as `./.` or `.|.`
        if row.iter().all(|c| matches!(c, Cls::G0 | Cls::Missing)) {
            cs.records[last].alts = vec![];
            for (j, c) in row.iter().enumerate() {
                if *c == Cls::Missing {
                    cs.records[last].gts[j] = ["./.", ".|."][(i + j + variant) % 2].to_string();
                }
            }
        }
    }
    cs
}

fn judge(o: &Out, expect: &RefArray, precision: usize) -> Result<(), String> {
    if !o.ok() {
        return Err(format!("{}: {}", o.status_str(), o.stderr_str().trim()));
    }
    let (shape, toks) = parse_text_spectrum(&o.stdout_str())?;
    if shape != expect.shape {
        return Err(format!("shape {shape:?}, expected {:?}", expect.shape));
    }
    for t in &toks {
        let decimals = t.split('.').nth(1).map_or(0, |d| d.len());
        if decimals != precision {
            return Err(format!("value '{t}' is not printed with {precision} decimals"));
        }
    }
    let vals = parse_f64_tokens(&toks)?;
    if vals.len() != expect.data.len() || vals.iter().zip(&expect.data).any(|(g, e)| !printed_ok(*g, *e, precision)) {
        return Err(format!("values {vals:?}, expected {:?}", expect.data));
    }
    Ok(())
}

#[derive(Clone)]
struct CliJob {
    map: Vec<Option<usize>>,
    rows: Vec<Vec<Cls>>,
    m: Vec<usize>,
    precision: usize,
    individuals: bool,
    what: &'static str,
    /// samples outside the map carry haploid / triploid genotypes (legal as long as they are not selected)
    odd_unselected: bool,
}

fn eval_cli(j: &CliJob, scratch: &Scratch) -> Option<Viol> {
    let mut cs = callset(&j.rows, j.m.iter().sum());
    if j.odd_unselected {
        for (r, rec) in cs.records.iter_mut().enumerate() {
            for (col, pop) in j.map.iter().enumerate() {
                if pop.is_none() {
                    rec.gts[col] = ["0", "1/0/1", "1", "0|0|0", "."][(r + col) % 5].to_string();
                }
            }
        }
    }
    let vcf = to_vcf(&cs).0;
    let shape: Vec<usize> = j.m.iter().map(|x| x + 1).collect();
    let expect = ref_create(&j.rows, &j.map, Some(&j.m));
    let ps = j.precision.to_string();
    let sarg = sample_arg(&j.map);
    let (flag, arg) = if j.individuals {
        ("-p", join_usizes(&j.m.iter().map(|x| x / 2).collect::<Vec<_>>(), ","))
    } else {
        ("--project-shape", join_usizes(&shape, ","))
    };
    let o = run_sfs(&["create", "-s", &sarg, flag, &arg, "--precision", &ps], Stdin::Bytes(&vcf), scratch);
    let case = || {
        J::obj([
            ("kind", J::s("c02-cli")),
            ("argv", J::strs(&["create", "-s", &sarg, flag, &arg, "--precision", &ps])),
            ("stdin_vcf", J::s(String::from_utf8_lossy(&vcf))),
        ])
    };
    if let Err(e) = judge(&o, &expect.spectrum, j.precision) {
        return Some((
            format!("C02|cli|create-project-wrong|{}{}|{}", j.what, if j.odd_unselected { ",odd-unselected" } else { "" }, if j.individuals { "-p" } else { "shape" }),
            format!("sfs create -s {sarg} {flag} {arg} --precision {ps} (rows {:?}): {e}", j.rows.iter().map(|r| row_str(r)).take(12).collect::<Vec<_>>()),
            case(),
        ));
    }
    // skipped count on stderr
    let stderr = o.stderr_str();
    let reported = stderr
        .split("Skipped ")
        .nth(1)
        .and_then(|r| r.split('/').next())
        .and_then(|n| n.trim().parse::<usize>().ok())
        .unwrap_or(0);
    if reported != expect.skipped {
        return Some((
            format!("C02|cli|skipped-count-wrong|{}", j.what),
            format!("sfs create -s {sarg} {flag} {arg}: reported {reported} skipped sites, expected {}", expect.skipped),
            case(),
        ));
    }
    if j.individuals {
        // `-p i` means the same as `--project-shape 2i+1`: byte-identical stdout
        let o2 = run_sfs(&["create", "-s", &sarg, "--project-shape", &join_usizes(&shape, ","), "--precision", &ps], Stdin::Bytes(&vcf), scratch);
        if o2.stdout != o.stdout || o2.code != o.code {
            return Some((
                "C02|cli|individuals-vs-shape-differ".into(),
                format!("-p {arg} and --project-shape {} give different output: {:?} vs {:?}", join_usizes(&shape, ","), o.stdout_str(), o2.stdout_str()),
                case(),
            ));
        }
    }
    None
}

pub fn run(tier: Tier) -> i32 {
    let mut rep = Report::new("C02", tier, "exploration");
    rep.rule = "L1 (real site::Reader with projection, in-memory genotype source): every sample map with <=2 populations (thorough <=3) x every class row x every admissible target vector m_j in 0..2n_j, single records and the all-rows stream; the three site outcomes exact / projectable / insufficient are all reached and counted; single-population cohorts of 100..1000 (thorough 2000) samples on a boundary grid of (called, ALT, target). L2: `sfs create -s .. --project-shape/-p --precision p` on generated VCFs for all 14 maps of 3 samples x all targets. Oracle: sum over records of prod_j Hypergeom(k_j; t_j, a_j, m_j) with an exact reference; skip decisions exact. Non-trivial = a projectable-but-not-exact record.".into();

    let (s_max, max_pops) = tier.pick((4, 2), (5, 3));
    let mut jobs: Vec<(Vec<Option<usize>>, Vec<Vec<Cls>>, Vec<usize>)> = Vec::new();
    for s in 1..=s_max {
        let rows = all_rows(s, &Cls::ALL);
        for map in sample_maps(s, max_pops) {
            let n = pop_sizes(&map);
            if n.iter().any(|x| *x > 3) {
                continue;
            }
            let bx: Vec<usize> = n.iter().map(|x| 2 * x + 1).collect();
            for m in indices(&bx) {
                for r in &rows {
                    jobs.push((map.clone(), vec![r.clone()], m.clone()));
                }
                jobs.push((map.clone(), rows.clone(), m.clone()));
            }
        }
    }
    let res = par_map(jobs.len(), |i| eval_rows(&jobs[i].0, &jobs[i].1, &jobs[i].2));
    let mut nt = 0u64;
    for ((map, rows, m), v) in jobs.iter().zip(res) {
        if rows.len() == 1 {
            let oc = site_outcome(map, &rows[0], m);
            rep.outcome(format!("site outcome: {oc}"));
            if oc == "projectable" {
                nt += 1;
            }
        } else {
            nt += 1;
        }
        if let Some((k, w, j)) = v {
            rep.violation(k, w, j);
        }
    }
    rep.part(Part {
        name: "lib: class rows x all targets".into(),
        evaluations: jobs.len() as u64,
        nontrivial: nt,
        note: format!("S<={s_max}, <={max_pops} populations of <=3 samples, every target vector"),
        exhaustive: true,
        extra: vec![],
    });
    rep.sample(J::obj([
        ("map", J::s("0011")),
        ("row", J::s("1.2m")),
        ("target_chromosomes", J::usizes(&[1, 2])),
        ("expected", J::s("t=(2,2), a=(1,2): adds Hypergeom(k0;2,1,1)*Hypergeom(k1;2,2,2) to cell (k0,k1) of a 2x3 spectrum")),
    ]));

    // cohorts
    let mut cohorts: Vec<(usize, usize)> = Vec::new();
    let sizes: Vec<usize> = if tier.thorough() { vec![100, 300, 515, 600, 1000, 2000] } else { vec![100, 300, 515, 600, 1000] };
    for &n in &sizes {
        for m in [1, n, 2 * n - 1, 2 * n, 171, 30, (2 * n).saturating_sub(170), (2 * n).saturating_sub(171), (2 * n).saturating_sub(172)] {
            if m >= 1 && m <= 2 * n && !cohorts.contains(&(n, m)) {
                cohorts.push((n, m));
            }
        }
    }
    let res = par_map(cohorts.len(), |i| eval_cohort(cohorts[i].0, cohorts[i].1));
    let mut ev = 0;
    for (e, v) in res {
        ev += e;
        for (k, w, j) in v {
            rep.violation(k, w, j);
        }
    }
    rep.part(Part {
        name: "lib: single-population cohorts of hundreds of samples".into(),
        evaluations: ev,
        nontrivial: ev,
        note: format!("N in {sizes:?} samples, target m in {{1,N,2N-1,2N,171,30,2N-170,2N-171,2N-172}}, called t in {{m,m+2,2N-2,2N}}, ALT a in {{0,1,t/2,t-1,t,170,171,172}}"),
        exhaustive: true,
        extra: vec![],
    });

    // every triple: the kernel has size thresholds in the code (exact paths for small sizes, tables
    // up to 170!, log-space above) that boundary grids can straddle without touching
    let t_max = tier.pick(200usize, 400usize);
    let ts: Vec<usize> = (1..=t_max / 2).map(|h| 2 * h).rev().collect();
    let res = par_map(ts.len(), |i| eval_triples(ts[i]));
    let mut ev = 0;
    for (e, v) in res {
        ev += e;
        for (k, w, j) in v {
            rep.violation(k, w, j);
        }
    }
    rep.part(Part {
        name: "lib: every (called, ALT, target) triple of one population".into(),
        evaluations: ev,
        nontrivial: ev,
        note: format!("every even number of called chromosomes t in 2..={t_max} (one or two further samples uncalled) x every ALT count a in 0..=t x every target m in 1..=t, one record each, every entry of the projected row against the exact kernel"),
        exhaustive: true,
        extra: vec![],
    });

    // scripts over the public reader interface that concern this property (shared with C11)
    {
        let (n, viols) = super::c11::scripts_for("C02", "projected-weights", tier);
        for (k, w, j) in viols {
            rep.violation(k, w, j);
        }
        rep.part(Part {
            name: "lib: projected sites dropped and weighted".into(),
            evaluations: n,
            nontrivial: n,
            note: "every sequence of 1..3 (thorough 4) symbols over {six record kinds, a change of the column layout} under five projection set-ups x the ways of using the sites handed out {add, drop, weight -1, weight 0.5, weight 3 then 2}: the spectrum is the weighted sum of the rows' own hypergeometric contributions".into(),
            exhaustive: true,
            extra: vec![],
        });
    }
    // L2
    let scratch = Scratch::new("c02");
    let rows = l2_rows();
    let mut cj: Vec<CliJob> = Vec::new();
    for map in sample_maps(3, 4) {
        let n = pop_sizes(&map);
        let bx: Vec<usize> = n.iter().map(|x| 2 * x + 1).collect();
        for m in indices(&bx) {
            cj.push(CliJob { map: map.clone(), rows: rows.clone(), m: m.clone(), precision: 6, individuals: false, what: "12-record", odd_unselected: false });
            if m.iter().all(|x| x % 2 == 0) {
                cj.push(CliJob { map: map.clone(), rows: rows.clone(), m: m.clone(), precision: 6, individuals: true, what: "12-record", odd_unselected: false });
            }
            if tier.thorough() || m.iter().sum::<usize>() % 3 == 0 {
                for r in &rows {
                    cj.push(CliJob { map: map.clone(), rows: vec![r.clone()], m: m.clone(), precision: 6, individuals: false, what: "one-record", odd_unselected: false });
                }
            }
        }
        // unselected samples with non-diploid genotypes, under projection
        if map.iter().any(|p| p.is_none()) && map.iter().any(|p| p.is_some()) {
            for m in indices(&bx) {
                cj.push(CliJob { map: map.clone(), rows: rows.clone(), m: m.clone(), precision: 6, individuals: false, what: "12-record", odd_unselected: true });
            }
        }
        // precision sweep on the full target
        let full: Vec<usize> = n.iter().map(|x| 2 * x - 1).collect();
        for p in [0usize, 1, 3, 12, 17, 320] {
            cj.push(CliJob { map: map.clone(), rows: rows.clone(), m: full.clone(), precision: p, individuals: false, what: "precision-sweep", odd_unselected: false });
        }
    }
    // outputs of more than 1024 and more than 4096 entries (30 samples in 3 populations, 40 in 2)
    for (n, pops, m) in [(30usize, 3usize, vec![10usize, 10, 8]), (70, 2, vec![66, 62]), (24, 1, vec![40]), (12, 6, vec![2, 2, 2, 2, 2, 2]), (16, 8, vec![2, 2, 0, 2, 4, 2, 2, 2])] {
        let map: Vec<Option<usize>> = (0..n).map(|i| Some(i * pops / n)).collect();
        let classes = [Cls::G0, Cls::G1, Cls::G2, Cls::G1, Cls::Missing, Cls::G0, Cls::Multi, Cls::G2];
        let rows_big: Vec<Vec<Cls>> = (0..25usize)
            .map(|r| (0..n).map(|j| { let c = classes[(j * (r + 3) + r) % classes.len()]; if (c == Cls::Missing || c == Cls::Multi) && (r + j) % 4 != 0 { Cls::G0 } else { c } }).collect())
            .collect();
        cj.push(CliJob { map: map.clone(), rows: rows_big.clone(), m: m.clone(), precision: 6, individuals: false, what: "large-output", odd_unselected: false });
        cj.push(CliJob { map, rows: rows_big, m, precision: 6, individuals: true, what: "large-output", odd_unselected: false });
    }
    // long streams in which every record is down-sampled: 4 095, 4 096, 4 097 and 9 000 records of
    // four fully called samples (8 chromosomes) projected to 4 and to 2 x 2 chromosomes (sums kept in
    // blocks must not depend on how many records make a block)
    for n_rec in [4095usize, 4096, 4097, 9000] {
        let called = [Cls::G0, Cls::G1, Cls::G2];
        let rows_long: Vec<Vec<Cls>> = (0..n_rec).map(|r| (0..4usize).map(|j| called[(r / [1, 3, 9, 27][j] + j) % 3]).collect()).collect();
        cj.push(CliJob { map: vec![Some(0); 4], rows: rows_long.clone(), m: vec![4], precision: 6, individuals: false, what: "long-stream", odd_unselected: false });
        cj.push(CliJob { map: vec![Some(0), Some(0), Some(1), Some(1)], rows: rows_long, m: vec![2, 2], precision: 6, individuals: true, what: "long-stream", odd_unselected: false });
    }
    {
        let sp: Vec<(Vec<String>, Vec<u8>)> = cj
            .iter()
            .filter(|j| j.what == "12-record" && !j.odd_unselected)
            .map(|j| {
                let cs = callset(&j.rows, j.m.iter().sum());
                let shape: Vec<usize> = j.m.iter().map(|x| x + 1).collect();
                let (flag, arg) = if j.individuals { ("-p", join_usizes(&j.m.iter().map(|x| x / 2).collect::<Vec<_>>(), ",")) } else { ("--project-shape", join_usizes(&shape, ",")) };
                (vec!["create".to_string(), "-s".to_string(), sample_arg(&j.map), flag.to_string(), arg, "--precision".to_string(), "6".to_string()], to_vcf(&cs).0)
            })
            .collect();
        super::spelling_part(&mut rep, "C02", "create -s <map> --project-shape / -p <target> for every map and target of the 12-record call set", &sp, &scratch);
    }
    let res = par_map(cj.len(), |i| eval_cli(&cj[i], &scratch));
    for v in res.into_iter().flatten() {
        rep.violation(v.0, v.1, v.2);
    }
    rep.part(Part {
        name: "cli: sfs create --project-shape / -p".into(),
        evaluations: cj.len() as u64,
        nontrivial: cj.len() as u64,
        note: "14 maps of 3 samples x every target vector (maps with an unselected sample also with haploid / triploid genotypes in that sample); 12-record call set with missing/multiallelic patterns and single records; -p vs --project-shape byte identity; precision 0/1/3/6/12/17/320; skipped count on stderr; three larger cohorts (30 samples in 3 populations projected to 11x11x9 = 1 089 entries, 70 in 2 to 67x63 = 4 221, 24 in one, 12 in six and 16 in eight populations) with missing and multiallelic genotypes, every printed value compared".into(),
        exhaustive: true,
        extra: vec![],
    });
    {
        let sp: Vec<(RefArray, usize)> = vec![
            (RefArray::from_fn(&[5], |f, _| (f * 3 + 1) as f64 / 7.0), 6),
            (RefArray::from_fn(&[3, 5], |f, _| ((f * 7) % 11) as f64 / 3.0), 2),
            (RefArray::from_fn(&[3, 3, 3], |f, _| (f % 4) as f64 * 0.125), 17),
            (RefArray::from_fn(&[67, 63], |f, _| (f % 17) as f64 / 9.0), 6),
        ];
        super::plain_streams_part(&mut rep, "C02", "projected spectra of 5 .. 4 221 fractional entries at precision 2, 6 and 17", &sp);
    }
    rep.assumptions = vec![
        "reference hyper_exact (exact u128 binomials for N<=120, compensated log-factorials above)".into(),
        "one-record rows are compared per coefficient, relatively also in the tails: 1e-11 for t <= 170 chromosomes, 1e-10 for t <= 5000, 1e-8 above; multi-record sums within 1e-8|r| + 1e-13 (DESIGN 2.9)".into(),
    ];
    rep.finish()
}

pub fn replay(case: &J) -> Option<Vec<String>> {
    match case.get("kind")?.as_str()? {
        "c02-lib" => {
            let map: Vec<Option<usize>> = case.get("map")?.as_str()?.chars().map(|c| c.to_digit(10).map(|d| d as usize)).collect();
            let rows: Vec<Vec<Cls>> = case
                .get("rows")?
                .as_arr()?
                .iter()
                .filter_map(|r| r.as_str())
                .map(|r| r.chars().map(|c| *Cls::ALL.iter().find(|k| k.letter() == c).unwrap()).collect())
                .collect();
            let m = case.get("target_chromosomes")?.as_usizes()?;
            Some(eval_rows(&map, &rows, &m).into_iter().map(|(k, w, _)| format!("{k} :: {w}")).collect())
        }
        "c02-cohort" => {
            let n = case.get("samples")?.as_i64()? as usize;
            let m = case.get("target_chromosomes")?.as_i64()? as usize;
            Some(eval_cohort(n, m).1.into_iter().map(|(k, w, _)| format!("{k} :: {w}")).collect())
        }
        "c02-triple" => {
            let n = case.get("samples")?.as_i64()? as usize;
            let t = case.get("called_chromosomes")?.as_i64()? as usize;
            let a = case.get("alt")?.as_i64()? as usize;
            let m = case.get("target_chromosomes")?.as_i64()? as usize;
            let what = case.get("what")?.as_str()?.to_string();
            Some(eval_one(n, t, a, m, &what).into_iter().map(|(k, w, _)| format!("{k} :: {w}")).collect())
        }
        "c02-script" => super::c11::replay_script(case),
        "c02-cli" => {
            let argv: Vec<String> = case.get("argv")?.as_arr()?.iter().filter_map(|x| x.as_str().map(|s| s.to_string())).collect();
            let a: Vec<&str> = argv.iter().map(|s| s.as_str()).collect();
            let scratch = Scratch::new("c02r");
            let o = run_sfs(&a, Stdin::Bytes(case.get("stdin_vcf")?.as_str()?.as_bytes()), &scratch);
            println!("replay: {} stdout {:?} stderr {:?}", o.status_str(), o.stdout_str(), o.stderr_str());
            None
        }
        _ => None,
    }
}
