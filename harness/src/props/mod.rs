//! One module per property: alphabet, bound, oracle, evidence.

use crate::{json::J, verdict::Tier};

pub mod c01;
pub mod c02;
pub mod c03;
pub mod c04;
pub mod c04_create;
pub mod c05;
pub mod c06;
pub mod c07;
pub mod c08;
pub mod c09;
pub mod c10;
pub mod c11;
pub mod c12;
pub mod c13;
pub mod c13_lib;
pub mod c14;
pub mod c15;
pub mod c16;
pub mod c17;
pub mod c18;
pub mod c19;

pub fn run(id: &str, tier: Tier) -> i32 {
    match id {
        "C01" => c01::run(tier),
        "C02" => c02::run(tier),
        "C03" => c03::run(tier),
        "C04" => c04::run(tier),
        "C05" => c05::run(tier),
        "C06" => c06::run(tier),
        "C07" => c07::run(tier),
        "C08" => c08::run(tier),
        "C09" => c09::run(tier),
        "C10" => c10::run(tier),
        "C11" => c11::run(tier),
        "C12" => c12::run(tier),
        "C13" => c13::run(tier),
        "C14" => c14::run(tier),
        "C15" => c15::run(tier),
        "C16" => c16::run(tier),
        "C17" => c17::run(tier),
        "C18" => c18::run(tier),
        "C19" => c19::run(tier),
        _ => {
            eprintln!("unknown property '{id}'");
            2
        }
    }
}

/// Re-runs one recorded case. Exit 1 + VIOLATION line if it still violates, 0 if it now holds.
pub fn replay(id: &str, j: &J) -> i32 {
    let case = j.get("case").cloned().unwrap_or(J::Null);
    let res = replay_case(id, &case);
    match res {
        None => {
            eprintln!("no replay support for this case: {}", case.to_string());
            2
        }
        Some(v) if v.is_empty() => {
            println!("replay: property {id} holds on this case");
            0
        }
        Some(v) => {
            for w in &v {
                println!("replay: {w}");
            }
            println!("VIOLATION property={id} replay=(replayed case)");
            1
        }
    }
}

/// Re-executes the case of a replay record without the explorer: `Some(violations)` (empty = the
/// property holds on this case now), or `None` when the case kind has no stand-alone replay.
pub fn replay_case(id: &str, case: &J) -> Option<Vec<String>> {
    let case = case.clone();
    if case.get("kind").and_then(|k| k.as_str()) == Some("plain-streams") && case.get("values").is_some() {
        return replay_plain_streams(&case);
    }
    if case.get("kind").and_then(|k| k.as_str()) == Some("stat-history") {
        // the histories are a closed list: run them again and report the recorded one if it fails again
        let (stat, hist, shape) = (case.get("stat")?.as_str()?.to_string(), case.get("history")?.as_str()?.to_string(), case.get("shape")?.as_usizes()?);
        let (_, v) = c06::stat_after_histories(id);
        return Some(
            v.into_iter()
                .filter(|(_, _, j)| j.get("stat").and_then(|x| x.as_str()) == Some(stat.as_str()) && j.get("history").and_then(|x| x.as_str()) == Some(hist.as_str()) && j.get("shape").and_then(|x| x.as_usizes()) == Some(shape.clone()))
                .map(|(k, w, _)| format!("{k} :: {w}"))
                .collect(),
        );
    }
    if case.get("kind").and_then(|k| k.as_str()) == Some("spelling") {
        return replay_spelling(&case);
    }
    let res: Option<Vec<String>> = match id {
        "C01" => c01::replay(&case),
        "C02" => c02::replay(&case),
        "C03" => c03::replay(&case),
        "C04" => c04::replay(&case),
        "C05" => c05::replay(&case),
        "C06" => c06::replay(&case),
        "C07" => c07::replay(&case),
        "C08" => c08::replay(&case),
        "C09" => c09::replay(&case),
        "C10" => c10::replay(&case),
        "C11" => c11::replay(&case),
        "C12" => c12::replay(&case),
        "C13" => c13::replay(&case),
        "C14" => c14::replay(&case),
        "C15" => c15::replay(&case),
        "C16" => c16::replay(&case),
        "C17" => c17::replay(&case),
        "C18" => c18::replay(&case),
        "C19" => c19::replay(&case),
        _ => None,
    };
    res
}

/// The spelling dimension of a check that drives the binary: each given command line is run again in
/// every other way of writing it (`cli::respellings`) on the same input; exit status and stdout must
/// not change. Violations are reported under `prop`; a replay record holds both command lines and the
/// input.
pub(crate) fn spelling_part(rep: &mut crate::verdict::Report, prop: &str, what: &str, cases: &[(Vec<String>, Vec<u8>)], scratch: &crate::cli::Scratch) {
    let res = crate::par::par_map(cases.len(), |i| {
        let argv: Vec<&str> = cases[i].0.iter().map(|s| s.as_str()).collect();
        crate::cli::respelling_differences(&argv, &cases[i].1, scratch)
    });
    let mut n = 0u64;
    for ((argv, stdin), diffs) in cases.iter().zip(res) {
        let av: Vec<&str> = argv.iter().map(|s| s.as_str()).collect();
        n += 1 + crate::cli::respellings(&av).map_or(0, |v| v.len()) as u64;
        for (kind, respelled, why) in diffs {
            rep.violation(
                format!("{prop}|cli|spelling-changes-result|{}|{kind}", argv[0]),
                why,
                J::obj([("kind", J::s("spelling")), ("spelling", J::s(kind.as_str())), ("argv", J::strs(&argv.iter().map(|s| s.as_str()).collect::<Vec<_>>())), ("respelled", J::strs(&respelled.iter().map(|s| s.as_str()).collect::<Vec<_>>())), ("stdin_hex", J::s(crate::json::hex(stdin)))]),
            );
        }
    }
    rep.part(crate::verdict::Part {
        name: "cli: other spellings of the same command line".into(),
        evaluations: n,
        nontrivial: n,
        note: format!("{} command lines ({what}), each also with every option in its long form with `=`, in its short form with the value attached, list values as repeated occurrences, the options in reverse order behind the positional arguments, numbers with a leading `+` or leading zeros, the defaults spelled out, the hidden --debug flag in front of and behind the subcommand, the input named /dev/stdin, the input named by path with a terminal on stdin, stdout appended to a file that holds earlier output, stdout on a full device (then not a success), a text spectrum with CRLF line ends and without the final one, view and fold also with -o over a longer existing file, into a named pipe and onto the input file itself, create also with the sample list in parts and as a samples file with LF / CRLF / mixed line ends with and without the final one, a third of the command lines also under seven environments (RUST_LOG, RUST_BACKTRACE, locale, colour and terminal variables, TMPDIR / HOME pointing nowhere, thread-pool variables): the same exit status and byte-identical output", cases.len()),
        exhaustive: true,
        extra: vec![],
    });
}

/// Replays a `spelling` record: the recorded command line with its other spellings and routes on the
/// recorded input; reports the recorded kind if it differs again.
pub(crate) fn replay_spelling(case: &J) -> Option<Vec<String>> {
    let a: Vec<String> = case.get("argv")?.as_arr()?.iter().filter_map(|x| x.as_str().map(|s| s.to_string())).collect();
    let kind = case.get("spelling")?.as_str()?.to_string();
    let stdin = crate::json::unhex(case.get("stdin_hex")?.as_str()?)?;
    let scratch = crate::cli::Scratch::new("spell");
    let av: Vec<&str> = a.iter().map(|s| s.as_str()).collect();
    Some(crate::cli::respelling_differences(&av, &stdin, &scratch).into_iter().filter(|(k, _, _)| *k == kind).map(|(k, _, w)| format!("spelling-changes-result|{k} :: {w}")).collect())
}

/// An npy file of element type `descr` (format `version`.0) and the text spelling of exactly the
/// values it holds: fractions that are no short decimals for the floats, entries beyond the range
/// of the next smaller and of the signed type for the integers.
pub(crate) fn typed_npy_and_text(shape: &[usize], descr: &str, version: u8) -> (Vec<u8>, String) {
    let n: usize = shape.iter().product();
    let float = descr.ends_with("f4") || descr.ends_with("f8");
    let big = descr.starts_with('>');
    let mut data: Vec<u8> = Vec::new();
    let mut vals: Vec<f64> = Vec::new();
    for f in 0..n {
        let k = (f * 37 + 11) % 101 + 1;
        let mut push = |le: &[u8], v: f64| {
            let mut b = le.to_vec();
            if big {
                b.reverse();
            }
            data.extend_from_slice(&b);
            vals.push(v);
        };
        match &descr[1..] {
            "f4" => {
                let x = k as f32 * 0.7 + 0.3;
                push(&x.to_le_bytes(), x as f64);
            }
            "f8" => {
                let x = k as f64 * 0.7 + 0.3;
                push(&x.to_le_bytes(), x);
            }
            "u1" => push(&[(k + 130) as u8], (k + 130) as f64),
            "i1" => push(&[k as u8], k as f64),
            "u2" => push(&((k * 600) as u16).to_le_bytes(), (k * 600) as f64),
            "i2" => push(&((k * 300) as i16).to_le_bytes(), (k * 300) as f64),
            "u4" => push(&((k as u32) * 40_000_000).to_le_bytes(), (k as u32 * 40_000_000) as f64),
            "i4" => push(&((k as i32) * 20_000_000).to_le_bytes(), (k as i32 * 20_000_000) as f64),
            "u8" => push(&((k as u64) << 40).to_le_bytes(), ((k as u64) << 40) as f64),
            _ => push(&((k as i64) << 39).to_le_bytes(), ((k as i64) << 39) as f64),
        }
    }
    let _ = float;
    let np = crate::npyref::Spelling::numpy();
    let npy = crate::npyref::synth(version, &crate::npyref::dict_text(descr, false, shape, &np), &data);
    let text = format!("#SHAPE=<{}>\n{}\n", shape.iter().map(|x| x.to_string()).collect::<Vec<_>>().join("/"), vals.iter().map(|v| format!("{v:?}")).collect::<Vec<_>>().join(" "));
    (npy, text)
}

pub(crate) const NPY_DESCRS: [&str; 18] = ["<f8", ">f8", "<f4", ">f4", "|u1", "|i1", "<u2", ">u2", "<i2", ">i2", "<u4", ">u4", "<i4", ">i4", "<u8", ">u8", "<i8", ">i8"];

/// The output end of a property that ends in a written spectrum: each spectrum through the library's
/// writers on plain streams and through the file route (`subject::io_through_plain_streams`).
pub(crate) fn plain_streams_part(rep: &mut crate::verdict::Report, prop: &str, what: &str, spectra: &[(crate::refmodel::RefArray, usize)]) {
    let mut n = 0u64;
    for (x, precision) in spectra {
        n += 1;
        let scs = crate::subject::scs_from_ref(x);
        let r = crate::verdict::catch(|| crate::subject::io_through_plain_streams(&scs, *precision));
        let problem = match r {
            Ok(p) => p,
            Err(p) => Some(format!("panic: {p}")),
        };
        if let Some(why) = problem {
            rep.violation(format!("{prop}|lib|plain-streams"), format!("spectrum of shape {:?} at precision {precision}: {why}", x.shape), J::obj([("kind", J::s("plain-streams")), ("shape", J::usizes(&x.shape)), ("values", J::f64s(&x.data)), ("precision", J::u(*precision))]));
        }
    }
    rep.part(crate::verdict::Part {
        name: "lib: the written spectrum on plain streams and through the file route".into(),
        evaluations: n,
        nontrivial: n,
        note: format!("{what}: text and npy with the builder's setters in either order and called again, through writers accepting 1 / 7 / 64 bytes per call (only write and flush implemented), into a writer that is full part-way (not a success), onto a fresh path and onto a path holding a longer file by write_to_path and write_to_path_or_stdout (the file holds exactly what a Vec receives), the npy bytes read back through buffered readers of capacity 1..129"),
        exhaustive: true,
        extra: vec![],
    });
}

pub(crate) fn replay_plain_streams(case: &J) -> Option<Vec<String>> {
    let x = crate::refmodel::RefArray { shape: case.get("shape")?.as_usizes()?, data: case.get("values")?.as_arr()?.iter().map(|v| v.as_f64()).collect::<Option<Vec<f64>>>()? };
    let precision = case.get("precision")?.as_i64()? as usize;
    let scs = crate::subject::scs_from_ref(&x);
    Some(match crate::verdict::catch(|| crate::subject::io_through_plain_streams(&scs, precision)) {
        Ok(None) => vec![],
        Ok(Some(w)) => vec![format!("plain-streams :: {w}")],
        Err(p) => vec![format!("plain-streams :: panic: {p}")],
    })
}
