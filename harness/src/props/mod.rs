//! One module per property: alphabet, bound, oracle, evidence.

use crate::{json::J, verdict::Tier};

pub mod c01;
pub mod c02;
pub mod c03;
pub mod c04;
pub mod c04_create;
pub mod c05;
pub mod c06;
pub mod c07;
pub mod c08;
pub mod c09;
pub mod c10;
pub mod c11;
pub mod c12;
pub mod c13;
pub mod c13_lib;
pub mod c14;
pub mod c15;
pub mod c16;
pub mod c17;
pub mod c18;
pub mod c19;

pub fn run(id: &str, tier: Tier) -> i32 {
    match id {
        "C01" => c01::run(tier),
        "C02" => c02::run(tier),
        "C03" => c03::run(tier),
        "C04" => c04::run(tier),
        "C05" => c05::run(tier),
        "C06" => c06::run(tier),
        "C07" => c07::run(tier),
        "C08" => c08::run(tier),
        "C09" => c09::run(tier),
        "C10" => c10::run(tier),
        "C11" => c11::run(tier),
        "C12" => c12::run(tier),
        "C13" => c13::run(tier),
        "C14" => c14::run(tier),
        "C15" => c15::run(tier),
        "C16" => c16::run(tier),
        "C17" => c17::run(tier),
        "C18" => c18::run(tier),
        "C19" => c19::run(tier),
        _ => {
            eprintln!("unknown property '{id}'");
            2
        }
    }
}

/// Re-runs one recorded case. Exit 1 + VIOLATION line if it still violates, 0 if it now holds.
pub fn replay(id: &str, j: &J) -> i32 {
    let case = j.get("case").cloned().unwrap_or(J::Null);
    let res = replay_case(id, &case);
    match res {
        None => {
            eprintln!("no replay support for this case: {}", case.to_string());
            2
        }
        Some(v) if v.is_empty() => {
            println!("replay: property {id} holds on this case");
            0
        }
        Some(v) => {
            for w in &v {
                println!("replay: {w}");
            }
            println!("VIOLATION property={id} replay=(replayed case)");
            1
        }
    }
}

/// Re-executes the case of a replay record without the explorer: `Some(violations)` (empty = the
/// property holds on this case now), or `None` when the case kind has no stand-alone replay.
pub fn replay_case(id: &str, case: &J) -> Option<Vec<String>> {
    let case = case.clone();
    let res: Option<Vec<String>> = match id {
        "C01" => c01::replay(&case),
        "C02" => c02::replay(&case),
        "C03" => c03::replay(&case),
        "C04" => c04::replay(&case),
        "C05" => c05::replay(&case),
        "C06" => c06::replay(&case),
        "C07" => c07::replay(&case),
        "C08" => c08::replay(&case),
        "C09" => c09::replay(&case),
        "C10" => c10::replay(&case),
        "C11" => c11::replay(&case),
        "C12" => c12::replay(&case),
        "C13" => c13::replay(&case),
        "C14" => c14::replay(&case),
        "C15" => c15::replay(&case),
        "C16" => c16::replay(&case),
        "C17" => c17::replay(&case),
        "C18" => c18::replay(&case),
        "C19" => c19::replay(&case),
        _ => None,
    };
    res
}
