//! C13 — view = marginalize > project > mask > normalize, equal to chained single steps.

use crate::{
    cli::{parse_f64_tokens, parse_text_spectrum, run_sfs, run_sfs_transport, Out, Scratch, Stdin, Transport},
    enumerate::{indices, permutations, subsets},
    json::J,
    npyref::{dict_text, strict_parse_header, synth, Spelling},
    par::par_map,
    refmodel::{printed_ok, RefArray},
    subject::{join_usizes, text_of},
    verdict::{Part, Report, Tier},
};

type Viol = (String, String, J);

#[derive(Clone, Debug, PartialEq)]
enum Marg {
    None,
    Remove(Vec<usize>),
    Keep(Vec<usize>),
}

#[derive(Clone, Debug)]
struct Combo {
    spectrum: usize,
    marg: Marg,
    /// projection target as a shape for the post-marginalization spectrum
    project: Option<Vec<usize>>,
    individuals: bool,
    mask: bool,
    normalize: bool,
    /// 0 = text p6, 1 = text p12, 2 = npy
    output: usize,
}

/// Index of the first large spectrum in `spectra()`; those are run with a reduced option set.
const FIRST_BIG: usize = 21;

fn spectra() -> &'static Vec<RefArray> {
    static S: std::sync::OnceLock<Vec<RefArray>> = std::sync::OnceLock::new();
    S.get_or_init(build_spectra)
}

fn build_spectra() -> Vec<RefArray> {
    vec![
        RefArray::from_fn(&[5], |f, _| (f * 3 + 1) as f64),
        RefArray::from_fn(&[3, 4], |f, _| ((f * 5) % 7 + 1) as f64),
        RefArray::from_fn(&[2, 3, 4], |f, _| (1u64 << (f % 20)) as f64 + f as f64),
        RefArray::from_fn(&[3, 3, 3, 2], |f, _| ((f * 11) % 13 + 2) as f64),
        RefArray::from_fn(&[7, 5], |f, _| (f as f64).sqrt() + 0.5),
        RefArray::from_fn(&[2, 2, 2], |f, _| f as f64 + 1.0),
        // totals below one and exactly one (already-normalized inputs), and single-entry spectra
        RefArray::from_fn(&[3, 4], |f, _| (f + 1) as f64 / 1024.0),
        RefArray { shape: vec![2, 3], data: vec![1.0 / 16.0, 2.0 / 16.0, 3.0 / 16.0, 4.0 / 16.0, 5.0 / 16.0, 1.0 / 16.0] },
        RefArray { shape: vec![1], data: vec![7.0] },
        RefArray { shape: vec![1, 1, 1], data: vec![3.5] },
        RefArray { shape: vec![4], data: vec![0.25, 0.5, 0.125, 0.0625] },
        // totals within 1e-6 of one without being one
        RefArray { shape: vec![2, 3], data: vec![0.1, 0.2, 0.3, 0.15, 0.05, 0.2000004] },
        RefArray { shape: vec![4], data: vec![0.25, 0.25, 0.25, 0.2499997] },
        // monomorphic entries next to which the polymorphic mass vanishes in floating point (2^53 and 3e9 + fractions)
        RefArray { shape: vec![3, 3], data: vec![9007199254740992.0, 3.0, 1.0, 2.0, 5.0, 1.0, 4.0, 2.0, 9007199254740992.0] },
        RefArray { shape: vec![2, 3], data: vec![3e9, 0.125, 0.0625, 0.25, 0.03125, 2e9] },
        // all mass on cells that are (or become, after marginalizing) monomorphic: masking leaves zeros,
        // normalizing zeros gives NaN in the combined call and in the chain alike
        RefArray { shape: vec![3, 3], data: vec![5.0, 0.0, 2.0, 0.0, 0.0, 0.0, 4.0, 0.0, 3.0] },
        RefArray { shape: vec![2, 3], data: vec![4.0, 0.0, 0.0, 0.0, 0.0, 6.0] },
        // values whose binary form contains line-feed bytes (0x0a), for the npy hops of the chain
        RefArray { shape: vec![2, 2], data: vec![2053.0, 3.25, 212992.0, 2181.0] },
        // whole numbers beyond the 64-bit integers (marginal sums of such entries too), and a spectrum
        // whose total is a subnormal number
        RefArray { shape: vec![2, 2], data: vec![6e18, 6e18, 6e18, 5e18] },
        RefArray { shape: vec![4], data: vec![1e19, 1180591620717411303424.0, 9223372036854775808.0, 1e300] },
        RefArray { shape: vec![2, 3], data: vec![7e-300, 1e-310, 3e-310, 2e-310, 4e-310, 9e-300] },
        // more than 4096 entries (buffer / block boundaries of the writers)
        RefArray::from_fn(&[4100], |f, _| (f % 97) as f64 + 0.5),
        RefArray::from_fn(&[65, 65], |f, _| ((f * 7) % 101) as f64 + 1.0),
        RefArray::from_fn(&[17, 17, 17], |f, _| ((f * 3) % 89) as f64 + 0.25),
    ]
}

fn removed_axes(marg: &Marg, d: usize) -> Vec<usize> {
    match marg {
        Marg::None => vec![],
        Marg::Remove(r) => r.clone(),
        Marg::Keep(k) => (0..d).filter(|a| !k.contains(a)).collect(),
    }
}

fn marg_args(marg: &Marg) -> Vec<String> {
    match marg {
        Marg::None => vec![],
        Marg::Remove(r) => vec!["-m".into(), join_usizes(r, ",")],
        Marg::Keep(k) => vec!["-M".into(), join_usizes(k, ",")],
    }
}

fn project_args(c: &Combo) -> Vec<String> {
    match &c.project {
        None => vec![],
        Some(t) => {
            if c.individuals {
                vec!["-p".into(), join_usizes(&t.iter().map(|x| (x - 1) / 2).collect::<Vec<_>>(), ",")]
            } else {
                vec!["--project-shape".into(), join_usizes(t, ",")]
            }
        }
    }
}

fn output_args(output: usize) -> Vec<String> {
    match output {
        0 => vec!["--precision".into(), "6".into()],
        1 => vec!["--precision".into(), "12".into()],
        _ => vec!["-O".into(), "npy".into()],
    }
}

/// Reference semantics of the documented order.
fn reference(c: &Combo) -> RefArray {
    reference_of(c, &spectra()[c.spectrum])
}

/// The reference on given input values (what an input file holds after conversion to its dtype).
fn reference_of(c: &Combo, x: &RefArray) -> RefArray {
    let d = x.shape.len();
    let mut cur = x.clone();
    let rem = removed_axes(&c.marg, d);
    if !rem.is_empty() {
        cur = cur.marginalize(&rem);
    }
    if let Some(t) = &c.project {
        cur = cur.project(t);
    }
    if c.mask {
        let n = cur.data.len();
        cur.data[0] = 0.0;
        cur.data[n - 1] = 0.0;
    }
    if c.normalize {
        let s = cur.sum();
        for v in cur.data.iter_mut() {
            *v /= s;
        }
    }
    cur
}

fn parse_output(o: &Out, output: usize) -> Result<RefArray, String> {
    if !o.ok() {
        return Err(format!("{}: {}", o.status_str(), o.stderr_str().trim()));
    }
    if output == 2 {
        let p = strict_parse_header(&o.stdout)?;
        let data: Vec<f64> = o.stdout[p.data_offset..].chunks_exact(8).map(|c| f64::from_le_bytes(c.try_into().unwrap())).collect();
        Ok(RefArray { shape: p.shape, data })
    } else {
        let (shape, toks) = parse_text_spectrum(&o.stdout_str())?;
        Ok(RefArray { shape, data: parse_f64_tokens(&toks)? })
    }
}

fn close_to_ref(got: &RefArray, expect: &RefArray, output: usize) -> bool {
    if got.shape != expect.shape || got.data.len() != expect.data.len() {
        return false;
    }
    got.data.iter().zip(&expect.data).all(|(g, e)| match output {
        0 => printed_ok(*g, *e, 6) || (g - e).abs() <= 1e-8 * e.abs(),
        1 => printed_ok(*g, *e, 12) || (g - e).abs() <= 1e-8 * e.abs(),
        _ => (g.is_nan() && e.is_nan()) || (g - e).abs() <= 1e-8 * e.abs() + 1e-12,
    })
}

fn combined_args(c: &Combo) -> Vec<String> {
    let mut a: Vec<String> = vec!["view".into()];
    a.extend(marg_args(&c.marg));
    a.extend(project_args(c));
    if c.mask {
        a.push("--mask-monomorphic".into());
    }
    if c.normalize {
        a.push("--normalize".into());
    }
    a.extend(output_args(c.output));
    a
}

/// Single-option stages in the given order of step ids (0 marg, 1 project, 2 mask, 3 normalize).
fn chain_stages(c: &Combo, order: &[usize]) -> Vec<Vec<String>> {
    let mut stages: Vec<Vec<String>> = Vec::new();
    for &step in order {
        let opt: Vec<String> = match step {
            0 => marg_args(&c.marg),
            1 => project_args(c),
            2 => {
                if c.mask {
                    vec!["--mask-monomorphic".into()]
                } else {
                    vec![]
                }
            }
            _ => {
                if c.normalize {
                    vec!["--normalize".into()]
                } else {
                    vec![]
                }
            }
        };
        if opt.is_empty() {
            continue;
        }
        let mut a: Vec<String> = vec!["view".into()];
        a.extend(opt);
        stages.push(a);
    }
    if stages.is_empty() {
        stages.push(vec!["view".into()]);
    }
    let n = stages.len();
    for (i, s) in stages.iter_mut().enumerate() {
        if i + 1 == n {
            s.extend(output_args(c.output));
        } else {
            s.extend(["-O".to_string(), "npy".to_string()]);
        }
    }
    stages
}

fn run_chain(stages: &[Vec<String>], input: &[u8], scratch: &Scratch) -> Out {
    let mut data = input.to_vec();
    let mut last = None;
    for s in stages {
        let a: Vec<&str> = s.iter().map(|x| x.as_str()).collect();
        let o = run_sfs(&a, Stdin::Bytes(&data), scratch);
        data = o.stdout.clone();
        let ok = o.ok();
        last = Some(o);
        if !ok {
            break;
        }
    }
    last.unwrap()
}

fn combo_j(c: &Combo) -> J {
    J::obj([
        ("kind", J::s("c13")),
        ("spectrum", J::u(c.spectrum)),
        ("argv", J::strs(&combined_args(c))),
        ("stdin", J::s(text_of(&spectra()[c.spectrum]))),
        ("marg", J::s(format!("{:?}", c.marg))),
        ("project", c.project.as_ref().map_or(J::Null, |p| J::usizes(p))),
        ("individuals", J::Bool(c.individuals)),
        ("mask", J::Bool(c.mask)),
        ("normalize", J::Bool(c.normalize)),
        ("output", J::u(c.output)),
    ])
}

fn option_class(c: &Combo) -> String {
    let mut v = Vec::new();
    if c.marg != Marg::None {
        v.push("marginalize");
    }
    if c.project.is_some() {
        v.push("project");
    }
    if c.mask {
        v.push("mask");
    }
    if c.normalize {
        v.push("normalize");
    }
    if v.is_empty() {
        "no-option".into()
    } else {
        v.join("+")
    }
}

fn eval(c: &Combo, scratch: &Scratch) -> Vec<Viol> {
    let input = text_of(&spectra()[c.spectrum]);
    let a = combined_args(c);
    let av: Vec<&str> = a.iter().map(|s| s.as_str()).collect();
    let combined = run_sfs(&av, Stdin::Bytes(input.as_bytes()), scratch);
    let mut v = Vec::new();
    let expect = reference(c);
    match parse_output(&combined, c.output) {
        Ok(got) => {
            if !close_to_ref(&got, &expect, c.output) {
                v.push((
                    format!("C13|cli|combined-differs-from-reference|{}", option_class(c)),
                    format!("{:?} on spectrum {:?}: got {:?} {:?}, reference {:?} {:?}", a, spectra()[c.spectrum].shape, got.shape, got.data, expect.shape, expect.data),
                    combo_j(c),
                ));
            }
        }
        Err(e) => v.push((
            format!("C13|cli|combined-failed|{}", option_class(c)),
            format!("{a:?}: {e}"),
            combo_j(c),
        )),
    }
    let stages = chain_stages(c, &[0, 1, 2, 3]);
    let chained = run_chain(&stages, input.as_bytes(), scratch);
    if chained.code != combined.code || chained.stdout != combined.stdout {
        v.push((
            format!("C13|cli|combined-differs-from-chain|{}", option_class(c)),
            format!(
                "{a:?} gives {:?} but the chain {stages:?} gives {} {:?}",
                if c.output == 2 { format!("{} npy bytes", combined.stdout.len()) } else { combined.stdout_str() },
                chained.status_str(),
                if c.output == 2 { format!("{} npy bytes", chained.stdout.len()) } else { chained.stdout_str() }
            ),
            combo_j(c),
        ));
    }
    v
}

/// One option combination with the input in a given format over a given transport and the output
/// on stdout or in a file given with `-o`: the result must equal the reference whatever the route.
fn eval_io(c: &Combo, npy_in: bool, transport: usize, sink_file: bool, scratch: &Scratch) -> Option<Viol> {
    let x = &spectra()[c.spectrum];
    // every fifth npy case stores the values in single precision (exactly widened on reading), with
    // values that are not short decimals
    let single = npy_in && (transport + c.output + c.mask as usize + 2 * c.normalize as usize) % 5 == 0;
    let stored: RefArray = if single { RefArray { shape: x.shape.clone(), data: x.data.iter().map(|v| ((*v / 3.0) as f32) as f64).collect() } } else { x.clone() };
    let x = &stored;
    let (bytes, suffix) = if single {
        let data: Vec<u8> = x.data.iter().flat_map(|v| (*v as f32).to_le_bytes()).collect();
        (synth(1, &dict_text("<f4", false, &x.shape, &Spelling::numpy()), &data), ".npy")
    } else if npy_in {
        let data: Vec<u8> = x.data.iter().flat_map(|v| v.to_le_bytes()).collect();
        (synth(1, &dict_text("<f8", false, &x.shape, &Spelling::numpy()), &data), ".npy")
    } else {
        (text_of(x).into_bytes(), ".sfs")
    };
    let mut a = combined_args(c);
    let out_path = scratch.path(if c.output == 2 { ".out.npy" } else { ".out.sfs" });
    if sink_file {
        a.push("-o".into());
        a.push(out_path.to_str().unwrap().to_string());
    }
    let av: Vec<&str> = a.iter().map(|s| s.as_str()).collect();
    let tr = Transport::ALL[transport];
    let mut o = run_sfs_transport(&av, &bytes, tr, suffix, scratch);
    if sink_file {
        if o.ok() && !o.stdout.is_empty() {
            let _ = std::fs::remove_file(&out_path);
            return Some(("C13|cli|io-route|stdout-not-empty-with--o".into(), format!("{a:?} (input {} over {tr:?}) wrote {} bytes to stdout although -o was given", if npy_in { "npy" } else { "text" }, o.stdout.len()), io_j(c, npy_in, transport, sink_file)));
        }
        o.stdout = std::fs::read(&out_path).unwrap_or_default();
        let _ = std::fs::remove_file(&out_path);
    }
    let expect = reference_of(c, x);
    // values read from single precision are widened exactly: without a projection the npy output
    // agrees to rounding of the few sums involved
    let tight = single && c.output == 2 && c.project.is_none();
    let verdict = match parse_output(&o, c.output) {
        Ok(got) if close_to_ref(&got, &expect, c.output) && (!tight || got.data.iter().zip(&expect.data).all(|(g, e)| (g.is_nan() && e.is_nan()) || (g - e).abs() <= 1e-13 * e.abs())) => return None,
        Ok(got) => format!("got {:?} {:?}, reference {:?} {:?}", got.shape, got.data, expect.shape, expect.data),
        Err(e) => e,
    };
    Some((
        format!("C13|cli|io-route|{}|{}", option_class(c), if sink_file { "-o" } else { "stdout" }),
        format!("{a:?} on spectrum {:?} given as {} over {tr:?}, output to {}: {verdict}", x.shape, if npy_in { "npy" } else { "text" }, if sink_file { "a file" } else { "stdout" }),
        io_j(c, npy_in, transport, sink_file),
    ))
}

fn io_j(c: &Combo, npy_in: bool, transport: usize, sink_file: bool) -> J {
    let mut j = combo_j(c);
    if let J::Obj(o) = &mut j {
        o[0].1 = J::s("c13-io");
        o.push(("npy_in".into(), J::Bool(npy_in)));
        o.push(("transport".into(), J::u(transport)));
        o.push(("sink_file".into(), J::Bool(sink_file)));
    }
    j
}

fn combos(tier: Tier) -> Vec<Combo> {
    let sp = spectra();
    assert!(sp.len() == FIRST_BIG + 3 && sp[FIRST_BIG].data.len() > 4096);
    let mut out = Vec::new();
    let mut counter = 0usize;
    for (si, x) in sp.iter().enumerate().filter(|(si, _)| *si < FIRST_BIG && (tier.thorough() || ![4, 5].contains(si))) {
        let d = x.shape.len();
        let mut margs = vec![Marg::None];
        if d >= 2 {
            for s in subsets(d) {
                if s.is_empty() || s.len() == d {
                    continue;
                }
                margs.push(Marg::Remove(s.clone()));
                let mut rev = s.clone();
                rev.reverse();
                // the list written in descending order (quick: on the spectrum with three axes)
                if rev != s && (tier.thorough() || d == 3) {
                    margs.push(Marg::Remove(rev));
                }
                margs.push(Marg::Keep(s));
            }
        }
        for marg in margs {
            let rem = removed_axes(&marg, d);
            let shape: Vec<usize> = (0..d).filter(|a| !rem.contains(a)).map(|a| x.shape[a]).collect();
            // projection targets: none, identity, each axis -1, minimal (all 1), all odd (for -p)
            let mut projs: Vec<(Option<Vec<usize>>, bool)> = vec![(None, false), (Some(shape.clone()), false)];
            for a in 0..shape.len() {
                if shape[a] >= 2 {
                    let mut t = shape.clone();
                    t[a] -= 1;
                    projs.push((Some(t), false));
                }
            }
            projs.push((Some(vec![1; shape.len()]), false));
            let odd: Vec<usize> = shape.iter().map(|n| if n % 2 == 1 { *n } else { n - 1 }).collect();
            if odd.iter().all(|n| *n >= 1) {
                projs.push((Some(odd), true));
            }
            if tier.thorough() {
                for t in indices(&shape) {
                    let t: Vec<usize> = t.iter().map(|x| x + 1).collect();
                    if !projs.iter().any(|p| p.0.as_ref() == Some(&t)) && t.iter().sum::<usize>() % 3 == 0 {
                        projs.push((Some(t), false));
                    }
                }
            }
            for (project, individuals) in projs {
                for mask in [false, true] {
                    for normalize in [false, true] {
                        let outputs: Vec<usize> = if tier.thorough() { vec![0, 1, 2] } else { vec![counter % 3] };
                        counter += 1;
                        for output in outputs {
                            out.push(Combo { spectrum: si, marg: marg.clone(), project: project.clone(), individuals, mask, normalize, output });
                        }
                    }
                }
            }
        }
    }
    // large spectra: option subsets without marginalization sets / projection grids
    for si in FIRST_BIG..sp.len() {
        let d = sp[si].shape.len();
        for (marg, project) in [
            (Marg::None, None),
            (if d >= 2 { Marg::Remove(vec![0]) } else { Marg::None }, None),
            // (the naive reference projection is quadratic in the number of entries: 1-axis spectrum only)
            (Marg::None, if d == 1 { Some(sp[si].shape.iter().map(|n| n - 1).collect::<Vec<usize>>()) } else { None }),
        ] {
            for mask in [false, true] {
                for normalize in [false, true] {
                    for output in [0usize, 2] {
                        out.push(Combo { spectrum: si, marg: marg.clone(), project: project.clone(), individuals: false, mask, normalize, output });
                    }
                }
            }
        }
    }
    out
}

pub fn run(tier: Tier) -> i32 {
    let mut rep = Report::new("C13", tier, "model_checking");
    rep.rule = "operation sequences of `sfs view`: spectra with 1..4 axes (counts, totals below and equal to one, single-entry spectra, totals within 1e-6 of one; three spectra with more than 4096 entries under a reduced option grid) x all 16 subsets of {marginalize, project, mask, normalize} x every admissible marginalization set (as -m and as -M) x projection targets {identity, each axis -1, minimal, odd shape via -p} x output {text p6, text p12, npy}. For each combination (a) the combined invocation and (b) the chain of single-option invocations in the documented order connected by lossless npy pipes must be byte-identical, and (c) the combined result must equal the reference semantics (marginalize, hypergeometric project, zero exactly the all-zero and all-maximum cells, divide by the sum). All orders of chaining are run on one spectrum to show that the oracle distinguishes orders. states = distinct option combinations, transitions = sfs processes run. Non-trivial = >=2 options selected.".into();
    let scratch = Scratch::new("c13");
    let cs = combos(tier);
    let res = par_map(cs.len(), |i| eval(&cs[i], &scratch));
    let mut nt = 0u64;
    let mut transitions = 0u64;
    for (c, v) in cs.iter().zip(res) {
        let n_opts = (c.marg != Marg::None) as usize + c.project.is_some() as usize + c.mask as usize + c.normalize as usize;
        transitions += 1 + n_opts.max(1) as u64;
        if n_opts >= 2 {
            nt += 1;
        }
        rep.outcome(format!("{} options", n_opts));
        for (k, w, j) in v {
            rep.violation(k, w, j);
        }
    }
    rep.states = cs.len() as u64;
    rep.transitions = transitions;
    rep.traces = cs.len() as u64;
    rep.part(Part {
        name: "cli: combined vs chained vs reference".into(),
        evaluations: cs.len() as u64,
        nontrivial: nt,
        note: format!("{} option combinations, {} sfs processes", cs.len(), transitions),
        exhaustive: true,
        extra: vec![],
    });
    rep.sample(J::obj([
        ("combined", J::strs(&["view", "-M", "2,0", "--project-shape", "2,3", "--mask-monomorphic", "--normalize", "--precision", "12"])),
        ("chain", J::s("view -M 2,0 -O npy | view --project-shape 2,3 -O npy | view --mask-monomorphic -O npy | view --normalize --precision 12")),
        ("stdin", J::s(text_of(&spectra()[2]))),
    ]));

    {
        let sp: Vec<(Vec<String>, Vec<u8>)> = cs.iter().enumerate().filter(|(i, c)| i % 5 == 0 && c.spectrum < FIRST_BIG).map(|(_, c)| (combined_args(c), text_of(&spectra()[c.spectrum]).into_bytes())).collect();
        super::spelling_part(&mut rep, "C13", "every fifth option combination of the main part", &sp, &scratch);
    }
    // the spectrum stored as an npy file of every element type: view reproduces the values the file
    // holds, as it does for the same values given as text
    {
        let mut nj: Vec<(Vec<usize>, &'static str, u8)> = Vec::new();
        for shape in [vec![9usize], vec![3, 5], vec![3, 3, 3]] {
            for (k, descr) in super::NPY_DESCRS.into_iter().enumerate() {
                nj.push((shape.clone(), descr, [1u8, 2, 3][(k + shape.len()) % 3]));
            }
        }
        let res = par_map(nj.len(), |i| {
            let (shape, descr, version) = &nj[i];
            let (npy, text) = super::typed_npy_and_text(shape, descr, *version);
            let mut bad = Vec::new();
            for opts in [vec!["--precision", "17"], vec!["--precision", "17", "--normalize"], vec!["-O", "npy"]] {
                let mut a = vec!["view"];
                a.extend(opts);
                let x = run_sfs(&a, Stdin::Bytes(text.as_bytes()), &scratch);
                let y = run_sfs(&a, Stdin::Bytes(&npy), &scratch);
                if !(x.ok() && y.ok() && x.stdout == y.stdout) {
                    bad.push(format!("{a:?}: {} / {} bytes on the npy file, {} / {} bytes on the text", y.status_str(), y.stdout.len(), x.status_str(), x.stdout.len()));
                }
            }
            if bad.is_empty() {
                None
            } else {
                Some((
                    format!("C13|cli|npy-input-viewed-differently|{}", descr.trim_start_matches(['<', '>', '|'])),
                    format!("shape {shape:?} stored as {descr} (format {version}.0): {}", bad.join("; ")),
                    J::obj([("kind", J::s("c13-npy-input")), ("shape", J::usizes(shape)), ("descr", J::s(*descr)), ("version", J::Int(*version as i64))]),
                ))
            }
        });
        for v in res.into_iter().flatten() {
            rep.violation(v.0, v.1, v.2);
        }
        rep.part(Part {
            name: "cli: view of npy files of every element type".into(),
            evaluations: 3 * nj.len() as u64,
            nontrivial: 3 * nj.len() as u64,
            note: "spectra with 1..3 axes stored as f8, f4 and the signed and unsigned integers of 1, 2, 4 and 8 bytes, little- and big-endian, format 1.0 / 2.0 / 3.0 in turn: view at 17 decimals, view --normalize and view -O npy give what they give on the same values as text".into(),
            exhaustive: true,
            extra: vec![],
        });
        let sp: Vec<(RefArray, usize)> = vec![(spectra()[1].clone(), 6), (spectra()[2].clone(), 12), (RefArray::from_fn(&[40, 30], |f, _| (f % 13) as f64 / 7.0), 6)];
        super::plain_streams_part(&mut rep, "C13", "three spectra as view writes them (text at 6 and 12 decimals, npy; the last one of 1 200 entries)", &sp);
    }
    // neighbouring entries that are nearly, but not exactly, equal - printed with enough decimals to
    // tell them apart: view (alone, masked, normalized) gives every entry its own value
    {
        let vals = [1e-17, 3e-17, 9e-17, 1.1e-16, 2e-16, 2.0000000000000002e-16, 2.5, 2.5000000000000004, 2.5, 0.1, 0.10000000000000002, 7.0];
        let x = RefArray { shape: vec![3, 4], data: vals.to_vec() };
        let input = format!("#SHAPE=<3/4>\n{}\n", vals.iter().map(|v| format!("{v:e}")).collect::<Vec<_>>().join(" "));
        let mut n = 0u64;
        for opts in [vec![], vec!["--mask-monomorphic"], vec!["--normalize"], vec!["--mask-monomorphic", "--normalize"]] {
            n += 1;
            let mut a = vec!["view", "--precision", "24"];
            a.extend(opts.iter().copied());
            let o = run_sfs(&a, Stdin::Bytes(input.as_bytes()), &scratch);
            let mut expect = x.clone();
            if opts.contains(&"--mask-monomorphic") {
                expect.data[0] = 0.0;
                expect.data[11] = 0.0;
            }
            if opts.contains(&"--normalize") {
                let t: f64 = expect.data.iter().sum();
                for v in expect.data.iter_mut() {
                    *v /= t;
                }
            }
            let got = crate::subject::parse_out(&o);
            let ok = matches!(&got, Ok(g) if g.shape == expect.shape && g.data.iter().zip(&expect.data).all(|(a, b)| (a - b).abs() <= 1e-24 + 4.0 * f64::EPSILON * b.abs()));
            if !ok {
                rep.violation(
                    "C13|cli|nearly-equal-neighbours-not-reproduced".to_string(),
                    format!("{a:?} on {vals:?}: {:?}, expected {:?}", got.as_ref().map(|g| &g.data), expect.data),
                    J::obj([("kind", J::s("c13-near-equal")), ("argv", J::strs(&a))]),
                );
            }
        }
        rep.part(Part {
            name: "cli: nearly equal neighbours at 24 decimals".into(),
            evaluations: n,
            nontrivial: n,
            note: "a 3x4 spectrum whose neighbouring entries differ by less than 2.2e-16 (absolutely, or by one unit in the last place) through view, view --mask-monomorphic, view --normalize and both, printed with 24 decimals: every entry within 4 ulp of the reference".into(),
            exhaustive: true,
            extra: vec![],
        });
    }
    // refused combinations: a projection target whose length is not the number of axes that are left
    // after marginalization - also when it is the smallest target (all ones), also with masking and
    // normalization behind it
    {
        let mut rj: Vec<(usize, Vec<&str>)> = Vec::new();
        for (si, lists) in [
            (1usize, vec![vec!["--project-shape", "1"], vec!["-p", "0"], vec!["--project-shape", "2"], vec!["--project-shape", "1,1,1"], vec!["-p", "0,0,0"], vec!["-m", "0", "-p", "0,0"], vec!["-M", "1", "--project-shape", "1,1"]]),
            (2usize, vec![vec!["-p", "0,0"], vec!["--project-shape", "1"], vec!["-m", "0", "-p", "0"], vec!["-m", "0", "--project-shape", "1,1,1"], vec!["-M", "0", "-p", "0,0"], vec!["-m", "1,2", "--project-shape", "1,1"], vec!["--project-shape", "1,1,1,1"], vec!["-m", "2", "-p", "1"]]),
        ] {
            for l in lists {
                for tail in [vec![], vec!["--mask-monomorphic"], vec!["--normalize"], vec!["--mask-monomorphic", "--normalize", "-O", "npy"]] {
                    let mut a = vec!["view"];
                    a.extend(l.iter().copied());
                    a.extend(tail);
                    rj.push((si, a));
                }
            }
        }
        let res = par_map(rj.len(), |i| {
            let (si, a) = &rj[i];
            let input = text_of(&spectra()[*si]);
            let o = run_sfs(a, Stdin::Bytes(input.as_bytes()), &scratch);
            if !o.ok() && o.stdout.is_empty() && o.diagnosed_error() {
                None
            } else {
                Some((
                    "C13|cli|inadmissible-combination-accepted".to_string(),
                    format!("{a:?} on shape {:?}: {} stdout {:?} stderr {:?}", spectra()[*si].shape, o.status_str(), &o.stdout_str()[..o.stdout.len().min(120)], o.stderr_str().trim()),
                    J::obj([("kind", J::s("c13-refused")), ("argv", J::strs(a)), ("spectrum", J::u(*si))]),
                ))
            }
        });
        for v in res.into_iter().flatten() {
            rep.violation(v.0, v.1, v.2);
        }
        rep.part(Part {
            name: "cli: combinations that must be refused".into(),
            evaluations: rj.len() as u64,
            nontrivial: rj.len() as u64,
            note: "projection targets whose length is not the number of axes left after marginalization (among them the smallest target, all ones / zero individuals) on a 2- and a 3-axis spectrum, alone and followed by masking, normalization and npy output: a diagnosed error and nothing on stdout".into(),
            exhaustive: true,
            extra: vec![],
        });
    }
    // verbosity flags must not change what view prints
    {
        let flags = ["-q", "-qq", "-v", "-vv"];
        let picked: Vec<usize> = (0..cs.len()).filter(|i| i % 37 == 0 && cs[*i].spectrum < FIRST_BIG).collect();
        let mut fj: Vec<(usize, usize)> = Vec::new();
        for &i in &picked {
            for f in 0..flags.len() {
                fj.push((i, f));
            }
        }
        let res = par_map(fj.len(), |k| {
            let (i, f) = fj[k];
            let c = &cs[i];
            let input = text_of(&spectra()[c.spectrum]);
            let a = combined_args(c);
            let mut av: Vec<&str> = a.iter().map(|s| s.as_str()).collect();
            let base = run_sfs(&av, Stdin::Bytes(input.as_bytes()), &scratch);
            av.push(flags[f]);
            let o = run_sfs(&av, Stdin::Bytes(input.as_bytes()), &scratch);
            if o.code == base.code && o.stdout == base.stdout {
                None
            } else {
                Some((
                    format!("C13|cli|verbosity-changes-output|{}", flags[f]),
                    format!("{av:?}: {} with {} bytes on stdout; without the flag {} with {} bytes", o.status_str(), o.stdout.len(), base.status_str(), base.stdout.len()),
                    combo_j(c),
                ))
            }
        });
        for v in res.into_iter().flatten() {
            rep.violation(v.0, v.1, v.2);
        }
        rep.part(Part {
            name: "cli: verbosity flags".into(),
            evaluations: fj.len() as u64,
            nontrivial: fj.len() as u64,
            note: format!("{} option combinations x {{-q,-qq,-v,-vv}}: same status and byte-identical stdout as without the flag", picked.len()),
            exhaustive: true,
            extra: vec![],
        });
    }
    // every option subset x input format x transport x output format x sink: the route the bytes take
    // must not matter to what is computed
    {
        let mut ij: Vec<(Combo, bool, usize, bool)> = Vec::new();
        for (si, marg, proj) in [(1usize, Marg::Remove(vec![0]), vec![3usize]), (2, Marg::Keep(vec![2, 0]), vec![2usize, 3]), (0, Marg::None, vec![4usize])] {
            for bits in 0..16usize {
                let with_marg = bits & 1 != 0 && marg != Marg::None;
                if bits & 1 != 0 && marg == Marg::None {
                    continue;
                }
                let x = &spectra()[si];
                let project = if bits & 2 != 0 {
                    // the target follows the axes that remain after marginalization
                    if with_marg { Some(proj.clone()) } else { Some(x.shape.iter().map(|n| n - 1).collect()) }
                } else {
                    None
                };
                for output in [0usize, 2] {
                    let c = Combo { spectrum: si, marg: if with_marg { marg.clone() } else { Marg::None }, project: project.clone(), individuals: false, mask: bits & 4 != 0, normalize: bits & 8 != 0, output };
                    for npy_in in [false, true] {
                        for t in 0..Transport::ALL.len() {
                            for sink_file in [false, true] {
                                if !tier.thorough() && sink_file && t % 2 == 1 {
                                    continue;
                                }
                                ij.push((c.clone(), npy_in, t, sink_file));
                            }
                        }
                    }
                }
            }
        }
        let res = par_map(ij.len(), |i| eval_io(&ij[i].0, ij[i].1, ij[i].2, ij[i].3, &scratch));
        for v in res.into_iter().flatten() {
            rep.violation(v.0, v.1, v.2);
        }
        rep.transitions += ij.len() as u64;
        rep.part(Part {
            name: "cli: option subsets x input format x transport x output x sink".into(),
            evaluations: ij.len() as u64,
            nontrivial: ij.len() as u64,
            note: "three spectra (1, 2 and 3 axes) x every subset of {marginalize, project, mask, normalize} x input as text / npy x {stdin file, stdin pipe, path, FIFO, /dev/stdin} x output text / npy x {stdout, -o file}: every result against the reference semantics".into(),
            exhaustive: true,
            extra: vec![],
        });
    }
    // library layer: explicit-state search over operation sequences on the live objects
    let inits: Vec<RefArray> = vec![
        RefArray::from_fn(&[2, 3, 2], |f, _| (f * 7 % 11 + 1) as f64),
        RefArray::from_fn(&[3, 2, 2, 2], |f, _| ((f * 5) % 9 + 1) as f64),
        RefArray::from_fn(&[4, 3], |f, _| (1u64 << f) as f64),
        RefArray::from_fn(&[5], |f, _| (f * f + 1) as f64),
        RefArray::from_fn(&[2, 1, 3], |f, _| f as f64 + 0.25),
    ];
    let depth = tier.pick(4, 5);
    let explored = par_map(inits.len(), |i| super::c13_lib::explore(&inits[i], depth, 400_000));
    for (x, e) in inits.iter().zip(explored) {
        rep.states += e.states;
        rep.transitions += e.transitions;
        rep.traces += e.transitions;
        rep.outcome(format!("lib search from {:?}: {} states", x.shape, e.states));
        rep.part(Part {
            name: format!("lib: operation-sequence search from {:?}", x.shape),
            evaluations: e.transitions,
            nontrivial: e.transitions,
            note: format!("{} states, {} transitions, depth bound {depth} (max depth reached {}), frontier emptied below the bound: {}; operations: marginalize (one axis, two axes in both orders), project (one axis -1, all axes to 1), mask (through inner_mut and through the indexing operator), scale one entry through the indexing operator, normalize in place, into_normalized (the value is a frequency spectrum from then on; every operation is also taken in that state), clone_from into a spectrum of the reversed shape, fold; after every transition shape, every value (flat and through multi-index access), element count, total and every axis sum are compared with the reference", e.states, e.transitions, e.max_depth, e.closed),
            exhaustive: true,
            extra: vec![("states".into(), J::Int(e.states as i64)), ("transitions".into(), J::Int(e.transitions as i64)), ("depth_bound".into(), J::u(depth)), ("closed_below_bound".into(), J::Bool(e.closed))],
        });
        for (k, w, j) in e.viols {
            rep.violation(k, w, j);
        }
    }

    // order sanity: all 24 orders of chaining on one 4-option case; the documented one must match,
    // and at least one other order must differ (otherwise the comparison would be vacuous)
    let c = Combo { spectrum: 2, marg: Marg::Remove(vec![1]), project: Some(vec![2, 3]), individuals: false, mask: true, normalize: true, output: 1 };
    let input = text_of(&spectra()[c.spectrum]);
    let a = combined_args(&c);
    let av: Vec<&str> = a.iter().map(|s| s.as_str()).collect();
    let combined = run_sfs(&av, Stdin::Bytes(input.as_bytes()), &scratch);
    let orders = permutations(4);
    let outs = par_map(orders.len(), |i| run_chain(&chain_stages(&c, &orders[i]), input.as_bytes(), &scratch));
    let mut distinct: std::collections::BTreeSet<Vec<u8>> = Default::default();
    let mut matching = Vec::new();
    for (o, out) in orders.iter().zip(&outs) {
        distinct.insert(out.stdout.clone());
        if out.ok() && out.stdout == combined.stdout {
            matching.push(o.clone());
        }
    }
    if !matching.contains(&vec![0, 1, 2, 3]) {
        rep.violation("C13|cli|documented-order-does-not-match", format!("the chain in the documented order does not reproduce {a:?}"), combo_j(&c));
    }
    if distinct.len() < 2 {
        rep.cap("all 24 chaining orders give the same output on the sanity case: the order oracle is vacuous");
    }
    rep.part(Part {
        name: "cli: all 24 chaining orders (oracle sanity)".into(),
        evaluations: 24,
        nontrivial: 24,
        note: format!("{} distinct outputs among 24 orders; orders matching the combined invocation: {matching:?}", distinct.len()),
        exhaustive: true,
        extra: vec![("distinct_outputs_over_orders".into(), J::u(distinct.len()))],
    });
    rep.assumptions = vec![
        "reference RefArray semantics for marginalize/project/mask/normalize (project within 1e-8 relative)".into(),
        "the combined-vs-chain comparison alone cannot see a defect shared by both sides; the reference comparison covers that".into(),
    ];
    rep.finish()
}

pub fn replay(case: &J) -> Option<Vec<String>> {
    if case.get("kind").and_then(|k| k.as_str()) == Some("c13-refused") {
        let scratch = Scratch::new("c13r");
        let argv: Vec<String> = case.get("argv")?.as_arr()?.iter().filter_map(|x| x.as_str().map(|s| s.to_string())).collect();
        let a: Vec<&str> = argv.iter().map(|s| s.as_str()).collect();
        let input = text_of(&spectra()[case.get("spectrum")?.as_i64()? as usize]);
        let o = run_sfs(&a, Stdin::Bytes(input.as_bytes()), &scratch);
        return Some(if !o.ok() && o.stdout.is_empty() && o.diagnosed_error() { vec![] } else { vec![format!("C13|cli|inadmissible-combination-accepted :: {}", o.status_str())] });
    }
    if case.get("kind").and_then(|k| k.as_str()) == Some("c13-lib") {
        let init = RefArray { shape: case.get("shape")?.as_usizes()?, data: case.get("values")?.as_arr()?.iter().filter_map(|v| v.as_f64()).collect() };
        let hist: Vec<super::c13_lib::Op> = case.get("history")?.as_str()?.split_whitespace().map(super::c13_lib::Op::parse).collect::<Option<_>>()?;
        return Some(match super::c13_lib::run_history(&init, &hist) {
            Ok(_) => vec![],
            Err((k, w, _)) => vec![format!("{k} :: {w}")],
        });
    }
    let parse_marg = |s: &str| -> Marg {
        let nums = |t: &str| -> Vec<usize> { t.trim_matches(|c| c == '[' || c == ']' || c == '(' || c == ')').split(',').filter_map(|x| x.trim().parse().ok()).collect() };
        if let Some(r) = s.strip_prefix("Remove") {
            Marg::Remove(nums(r))
        } else if let Some(k) = s.strip_prefix("Keep") {
            Marg::Keep(nums(k))
        } else {
            Marg::None
        }
    };
    let c = Combo {
        spectrum: case.get("spectrum")?.as_i64()? as usize,
        marg: parse_marg(case.get("marg")?.as_str()?),
        project: case.get("project").and_then(|p| p.as_usizes()),
        individuals: matches!(case.get("individuals"), Some(J::Bool(true))),
        mask: matches!(case.get("mask"), Some(J::Bool(true))),
        normalize: matches!(case.get("normalize"), Some(J::Bool(true))),
        output: case.get("output")?.as_i64()? as usize,
    };
    let scratch = Scratch::new("c13r");
    if case.get("kind").and_then(|k| k.as_str()) == Some("c13-io") {
        let npy_in = matches!(case.get("npy_in"), Some(J::Bool(true)));
        let sink_file = matches!(case.get("sink_file"), Some(J::Bool(true)));
        let transport = case.get("transport")?.as_i64()? as usize;
        return Some(eval_io(&c, npy_in, transport, sink_file, &scratch).into_iter().map(|(k, w, _)| format!("{k} :: {w}")).collect());
    }
    Some(eval(&c, &scratch).into_iter().map(|(k, w, _)| format!("{k} :: {w}")).collect())
}
