//! C15 — npy output conforms to NPY 1.0; every supported numpy dtype is read exactly.

use std::{collections::BTreeSet, fs};

use sfs_core::Array;

use crate::{
    cli::{run_sfs, Scratch, Stdin},
    enumerate::{permutations, shapes},
    json::{hex, J},
    npyref::{boundary_values, check_written, dict_text, strict_parse_header, synth, Spelling, TYPES},
    par::{par_each, par_map},
    refmodel::RefArray,
    subject::text_of,
    verdict::{catch, norm_msg, Part, Report, Tier},
};

type Viol = (String, String, J);

const CORPUS: &str = "/verif/corpus/npy";

fn values_for(shape: &[usize]) -> Vec<f64> {
    let alpha = [
        0.0,
        1.0,
        -2.5,
        f64::NAN,
        f64::INFINITY,
        1e-310,
        123456.789,
        -0.0,
        f64::from_bits(0x7ff0_0000_0000_0001),
    ];
    (0..shape.iter().product::<usize>())
        .map(|i| alpha[i % alpha.len()])
        .collect()
}

fn check_writer(shape: &[usize]) -> (usize, Vec<Viol>) {
    let values = values_for(shape);
    let case = J::obj([("kind", J::s("c15-writer")), ("shape", J::usizes(shape))]);
    let mut residue = usize::MAX;
    let r = catch(|| {
        let arr = Array::new(values.clone(), shape.to_vec()).expect("shape fits");
        let mut out = Vec::new();
        arr.write_npy(&mut out).map(|_| out).map_err(|e| e.to_string())
    });
    let viols = match r {
        Ok(Ok(bytes)) => {
            if let Ok(p) = strict_parse_header(&bytes) {
                residue = (10 + p.dict_text.len()) % 64;
            }
            match check_written(&bytes, shape, &values) {
                Ok(()) => vec![],
                Err(e) => vec![(
                    format!("C15|lib|writer-nonconforming|{}", norm_msg(&e)),
                    format!("write_npy of shape {shape:?} is not a valid NPY 1.0 file: {e}; first bytes {}", hex(&bytes[..bytes.len().min(140)])),
                    case,
                )],
            }
        }
        Ok(Err(e)) => vec![(
            "C15|lib|writer-error".into(),
            format!("write_npy of shape {shape:?} failed: {e}"),
            case,
        )],
        Err(p) => vec![(
            format!("C15|lib|writer-panic|{}", norm_msg(&p)),
            format!("write_npy of shape {shape:?} panicked: {p}"),
            case,
        )],
    };
    (residue, viols)
}

fn writer_family() -> Vec<Vec<usize>> {
    let mut v = Vec::new();
    for k in 1..=64usize {
        for last in [7usize, 42, 123, 1000] {
            let mut s = vec![1usize; k];
            s.push(last);
            v.push(s);
        }
    }
    v
}

fn check_writer_cli(shape: &[usize], scratch: &Scratch) -> Vec<Viol> {
    // finite values only through the text input
    let x = RefArray::from_fn(shape, |f, _| (f as f64) * 0.5 - 1.0);
    let input = text_of(&x);
    let o = run_sfs(&["view", "-O", "npy"], Stdin::Bytes(input.as_bytes()), scratch);
    let case = J::obj([
        ("kind", J::s("c15-writer-cli")),
        ("shape", J::usizes(shape)),
        ("stdin", J::s(input)),
    ]);
    if !o.ok() {
        let key = if o.panicked() {
            format!("C15|cli|writer-panic|{}", o.panic_site())
        } else {
            "C15|cli|writer-failed".to_string()
        };
        return vec![(
            key,
            format!("sfs view -O npy on shape {shape:?}: {} {}", o.status_str(), o.stderr_str()),
            case,
        )];
    }
    match check_written(&o.stdout, shape, &x.data) {
        Ok(()) => vec![],
        Err(e) => vec![(
            format!("C15|cli|writer-nonconforming|{}", norm_msg(&e)),
            format!("sfs view -O npy on shape {shape:?} wrote an invalid NPY 1.0 file: {e}"),
            case,
        )],
    }
}

/// `sfs view -O npy` to a piped stdout for spectra whose *binary* values contain the byte 0x0A
/// (stdout is line-buffered: a newline byte inside the data must not influence what is written).
fn check_writer_cli_newline_bytes(which: usize, scratch: &Scratch) -> Vec<Viol> {
    let nl = f64::from_bits(0x400A_0A0A_0A0A_0A0A);
    let (shape, values): (Vec<usize>, Vec<f64>) = match which {
        0 => (vec![400], (0..400).map(|i| if i == 0 { 3.25 } else { i as f64 }).collect()),
        1 => (vec![20, 20], (0..400).map(|_| nl).collect()),
        2 => (vec![3000], (0..3000).map(|i| if i % 100 == 7 { 3.25 } else { 1.0 + i as f64 }).collect()),
        _ => (vec![5, 300], (0..1500).map(|i| if i == 1 { nl } else { 0.5 }).collect()),
    };
    let x = RefArray { shape: shape.clone(), data: values.clone() };
    let input = text_of(&x);
    let o = run_sfs(&["view", "-O", "npy"], Stdin::Bytes(input.as_bytes()), scratch);
    let case = J::obj([("kind", J::s("c15-writer-cli-nl")), ("which", J::u(which))]);
    if !o.ok() {
        return vec![("C15|cli|writer-failed|newline-bytes".into(), format!("sfs view -O npy on shape {shape:?}: {} {}", o.status_str(), o.stderr_str()), case)];
    }
    match check_written(&o.stdout, &shape, &values) {
        Ok(()) => vec![],
        Err(e) => vec![(
            format!("C15|cli|writer-nonconforming|newline-bytes|{}", norm_msg(&e)),
            format!("sfs view -O npy to a pipe, shape {shape:?} with 0x0A bytes inside the values: {} bytes written, invalid NPY 1.0 file: {e}", o.stdout.len()),
            case,
        )],
    }
}

/// Arrays beyond 4 096 values / 64 KiB of data and axes of 65 536 and more entries: written files
/// must stay conforming, numpy-layout files of several dtypes must be read exactly.
fn check_large_arrays() -> (u64, Vec<Viol>) {
    let np = Spelling::numpy();
    let mut viols = Vec::new();
    let mut n = 0u64;
    // writer
    for shape in [vec![4097usize], vec![65, 65], vec![21, 21, 21], vec![8193], vec![65536], vec![100_001], vec![2, 65_537], vec![300, 301]] {
        n += 1;
        let cells: usize = shape.iter().product();
        let values: Vec<f64> = (0..cells).map(|i| if i % 97 == 5 { 3.25 } else { i as f64 * 0.5 - 7.0 }).collect();
        let r = catch(|| {
            let arr = Array::new(values.clone(), shape.clone()).expect("shape fits");
            let mut out = Vec::new();
            arr.write_npy(&mut out).map(|_| out).map_err(|e| e.to_string())
        });
        let verdict = match r {
            Ok(Ok(bytes)) => check_written(&bytes, &shape, &values).map_err(|e| format!("{e} ({} bytes written)", bytes.len())),
            Ok(Err(e)) => Err(e),
            Err(p) => Err(format!("panic: {p}")),
        };
        if let Err(e) = verdict {
            viols.push((format!("C15|lib|writer-nonconforming|large|{}", norm_msg(&e)), format!("write_npy of shape {shape:?} ({cells} values): {e}"), J::obj([("kind", J::s("c15-large-writer")), ("shape", J::usizes(&shape))])));
        }
    }
    // reader: value i of the file is i (mod the type's range), so a repeated, dropped or swapped block shows
    for (descr, size) in [("<f8", 8usize), (">f8", 8), (">i4", 4), ("<u2", 2), ("|u1", 1), ("<f4", 4)] {
        for shape in [vec![8193usize], vec![20_000], vec![65_536], vec![70_001], vec![3, 65_537], vec![101, 101]] {
            n += 1;
            let cells: usize = shape.iter().product();
            let mut data: Vec<u8> = Vec::with_capacity(cells * size);
            let mut expect: Vec<f64> = Vec::with_capacity(cells);
            for i in 0..cells {
                match descr {
                    "<f8" => { let v = i as f64 + 0.5; data.extend(v.to_le_bytes()); expect.push(v); }
                    ">f8" => { let v = i as f64 + 0.5; data.extend(v.to_be_bytes()); expect.push(v); }
                    ">i4" => { let v = i as i32 - 1000; data.extend(v.to_be_bytes()); expect.push(v as f64); }
                    "<u2" => { let v = (i % 65_536) as u16; data.extend(v.to_le_bytes()); expect.push(v as f64); }
                    "|u1" => { let v = (i % 251) as u8; data.push(v); expect.push(v as f64); }
                    _ => { let v = i as f32 * 0.5; data.extend(v.to_le_bytes()); expect.push(v as f64); }
                }
            }
            let bytes = synth(1 + (cells % 3) as u8, &dict_text(descr, false, &shape, &np), &data);
            let got = catch(|| Array::read_npy(&bytes[..]).map(|a| (a.shape().to_vec(), a.as_slice().to_vec())).map_err(|e| e.to_string()));
            let ok = matches!(&got, Ok(Ok((s, v))) if *s == shape && v.len() == expect.len() && v.iter().zip(&expect).all(|(a, b)| a.to_bits() == b.to_bits()));
            if !ok {
                let first_bad = if let Ok(Ok((_, v))) = &got { v.iter().zip(&expect).position(|(a, b)| a.to_bits() != b.to_bits()) } else { None };
                viols.push((
                    format!("C15|lib|read-large-wrong|{descr}"),
                    format!("numpy-layout {descr} file of shape {shape:?} ({} data bytes): {}; first wrong value at {first_bad:?}", data.len(), match &got { Ok(Ok((s, v))) => format!("shape {s:?}, {} values", v.len()), Ok(Err(e)) => format!("error {e}"), Err(p) => format!("panic {p}") }),
                    J::obj([("kind", J::s("c15-large-reader")), ("descr", J::s(descr)), ("shape", J::usizes(&shape))]),
                ));
            }
        }
    }
    (n, viols)
}

/// npy inputs whose *last data byte* is an ASCII whitespace byte, through the auto-detecting CLI
/// reader (binary data must never be trimmed), and `view -O npy -o FILE` onto a longer existing file.
fn check_cli_whitespace_tail_and_output_file(scratch: &Scratch) -> (u64, Vec<Viol>) {
    let np = Spelling::numpy();
    let mut viols = Vec::new();
    let mut n = 0u64;
    for ws in [0x20u8, 0x0a, 0x0d, 0x09, 0x0c] {
        let cases: Vec<(&str, Vec<u8>, Vec<f64>)> = vec![
            ("|u1", vec![7, 200, ws], vec![7.0, 200.0, ws as f64]),
            (">u2", vec![0x01, 0x02, 0x10, ws], vec![258.0, (0x1000 + ws as u32) as f64]),
            (">i4", vec![0, 0, 1, 0, 0, 0, 0, ws], vec![256.0, ws as f64]),
            ("<f8", [1.5f64.to_le_bytes().to_vec(), f64::from_bits((ws as u64) << 56 | 0x0010_0000_0000_0000).to_le_bytes().to_vec()].concat(), vec![1.5, f64::from_bits((ws as u64) << 56 | 0x0010_0000_0000_0000)]),
        ];
        for (descr, data, expect) in cases {
            n += 1;
            let bytes = synth(1, &dict_text(descr, false, &[expect.len()], &np), &data);
            let o = run_sfs(&["view", "-O", "npy"], Stdin::Bytes(&bytes), scratch);
            let ok = o.ok() && check_written(&o.stdout, &[expect.len()], &expect).is_ok();
            if !ok {
                viols.push((
                    format!("C15|cli|read-whitespace-tail|{descr}"),
                    format!("sfs view -O npy on a {descr} file whose last data byte is {ws:#04x}: {} {}; expected values {expect:?}", o.status_str(), o.stderr_str().trim()),
                    J::obj([("kind", J::s("c15-ws-tail")), ("file_hex", J::s(hex(&bytes))), ("expect", J::f64s(&expect))]),
                ));
            }
        }
    }
    // -o onto a longer existing file: the file must be exactly what stdout would carry
    for (shape, stale_len) in [(vec![3usize], 4000usize), (vec![2, 2], 200), (vec![5], 129)] {
        n += 1;
        let x = RefArray::from_fn(&shape, |f, _| f as f64 + 0.5);
        let input = text_of(&x);
        let to_stdout = run_sfs(&["view", "-O", "npy"], Stdin::Bytes(input.as_bytes()), scratch);
        let path = scratch.file(".stale.npy", &vec![0x41u8; stale_len]);
        let o = run_sfs(&["view", "-O", "npy", "-o", path.to_str().unwrap()], Stdin::Bytes(input.as_bytes()), scratch);
        let written = std::fs::read(&path).unwrap_or_default();
        let _ = std::fs::remove_file(&path);
        if !(o.ok() && to_stdout.ok() && written == to_stdout.stdout && check_written(&written, &shape, &x.data).is_ok()) {
            viols.push((
                "C15|cli|output-file-not-replaced".to_string(),
                format!("sfs view -O npy -o FILE (FILE existed with {stale_len} bytes) for shape {shape:?}: {}; FILE now has {} bytes, stdout of the same command has {}", o.status_str(), written.len(), to_stdout.stdout.len()),
                J::obj([("kind", J::s("c15-out")), ("shape", J::usizes(&shape)), ("stale_len", J::u(stale_len))]),
            ));
        }
    }
    // -o under file names whose extension agrees with, contradicts or says nothing about the format:
    // the file holds exactly what stdout would carry
    for ext in [".npy", ".sfs", ".txt", ".bin", "", ".npy.sfs", ".NPY"] {
        for npy in [true, false] {
            n += 1;
            let shape = vec![2usize, 3];
            let x = RefArray::from_fn(&shape, |f, _| f as f64 + 0.25);
            let input = text_of(&x);
            let fmt_args: Vec<&str> = if npy { vec!["view", "-O", "npy"] } else { vec!["view"] };
            let to_stdout = run_sfs(&fmt_args, Stdin::Bytes(input.as_bytes()), scratch);
            let path = scratch.path(&format!(".named{ext}"));
            let mut a = fmt_args.clone();
            a.extend(["-o", path.to_str().unwrap()]);
            let o = run_sfs(&a, Stdin::Bytes(input.as_bytes()), scratch);
            let written = std::fs::read(&path).unwrap_or_default();
            let _ = std::fs::remove_file(&path);
            if !(o.ok() && to_stdout.ok() && written == to_stdout.stdout && (!npy || check_written(&written, &shape, &x.data).is_ok())) {
                viols.push((
                    format!("C15|cli|output-file-name-matters|{}", if npy { "npy" } else { "text" }),
                    format!("sfs {} -o FILE{ext}: {} {}; the file starts {:?}, stdout of the same command starts {:?}", fmt_args.join(" "), o.status_str(), o.stderr_str().trim(), String::from_utf8_lossy(&written[..written.len().min(24)]), String::from_utf8_lossy(&to_stdout.stdout[..to_stdout.stdout.len().min(24)])),
                    J::obj([("kind", J::s("c15-out-name")), ("ext", J::s(ext)), ("npy", J::Bool(npy))]),
                ));
            }
        }
    }
    (n, viols)
}

/// A `fortran_order: True` file of the given shape holding 0, 1, 2, .. in memory order: it is either
/// rejected or read with numpy's meaning (element (i,j,..) at column-major offset) - also when some
/// axes have length one.
fn eval_fortran(shape: &[usize]) -> Option<Viol> {
    let n: usize = shape.iter().product();
    let data: Vec<u8> = (0..n).flat_map(|i| (i as f64).to_le_bytes()).collect();
    let bytes = synth(1, &dict_text("<f8", true, shape, &Spelling::numpy()), &data);
    // C-order listing of the values numpy would show
    let expect: Vec<f64> = crate::enumerate::indices(shape)
        .iter()
        .map(|idx| {
            let mut off = 0usize;
            let mut stride = 1usize;
            for (i, len) in idx.iter().zip(shape) {
                off += i * stride;
                stride *= len;
            }
            off as f64
        })
        .collect();
    let case = J::obj([("kind", J::s("c15-fortran")), ("shape", J::usizes(shape)), ("file_hex", J::s(hex(&bytes)))]);
    match catch(|| Array::read_npy(&bytes[..]).map(|a| (a.shape().to_vec(), a.as_slice().to_vec()))) {
        Ok(Err(_)) => None,
        Ok(Ok((s, v))) if s == shape && v == expect => None,
        Ok(Ok((s, v))) => Some((
            format!("C15|lib|fortran-order-misread|{}", if shape.contains(&1) { "unit-axis" } else { "no-unit-axis" }),
            format!("a fortran_order file of shape {shape:?} is read as shape {s:?} values {v:?}; numpy reads {expect:?} (or the file is rejected)"),
            case,
        )),
        Err(p) => Some((format!("C15|lib|reject-panic|{}", norm_msg(&p)), format!("fortran_order file of shape {shape:?} panicked: {p}"), case)),
    }
}

// ---------------------------------------------------------------------------------------------

#[derive(Clone)]
struct ReadCase {
    ty: &'static str,
    order: char,
    version: u8,
    spelling: Spelling,
    two_d: bool,
    /// the data starts at a multiple of this many bytes (64 as numpy writes today; 16 and 1: not a multiple of 64)
    align: usize,
}

fn build_read_case(c: &ReadCase) -> (Vec<u8>, Vec<usize>, Vec<u64>) {
    let vals = boundary_values(c.ty, c.order == '>');
    let n = vals.len();
    let shape = if c.two_d {
        if n % 2 == 0 {
            vec![2, n / 2]
        } else {
            vec![1, n]
        }
    } else {
        vec![n]
    };
    let descr = format!("{}{}", c.order, c.ty);
    let dict = dict_text(&descr, false, &shape, &c.spelling);
    let mut data = Vec::new();
    let mut expect = Vec::new();
    for (b, e) in &vals {
        data.extend_from_slice(b);
        expect.push(*e);
    }
    (crate::npyref::synth_aligned(c.version, &dict, &data, c.align), shape, expect)
}

fn bits_match(ty: &str, got: f64, expect_bits: u64) -> bool {
    let e = f64::from_bits(expect_bits);
    if e.is_nan() {
        // f8 NaNs must keep their payload; NaNs widened from f4 only need to stay NaN
        if ty == "f8" {
            got.to_bits() == expect_bits
        } else {
            got.is_nan()
        }
    } else {
        got.to_bits() == expect_bits
    }
}

fn eval_read(c: &ReadCase) -> Option<Viol> {
    let (bytes, shape, expect) = build_read_case(c);
    let case = || {
        J::obj([
            ("kind", J::s("c15-read")),
            ("descr", J::s(format!("{}{}", c.order, c.ty))),
            ("version", J::Int(c.version as i64)),
            ("spelling", J::s(c.spelling.describe())),
            ("file_hex", J::s(hex(&bytes))),
            ("ty", J::s(c.ty)),
            ("expect_shape", J::usizes(&shape)),
            ("expect_bits", J::Arr(expect.iter().map(|b| J::s(format!("{b:016x}"))).collect())),
        ])
    };
    let class = format!("{}{},v{}{}", c.order, c.ty, c.version, if c.align != 64 { ",header-not-64-aligned" } else { "" });
    match catch(|| Array::read_npy(&bytes[..]).map(|a| (a.shape().to_vec(), a.as_slice().to_vec()))) {
        Ok(Ok((s, vals))) => {
            if s != shape {
                return Some((
                    "C15|lib|read-shape-wrong".into(),
                    format!("{class} ({}) read with shape {s:?}, expected {shape:?}", c.spelling.describe()),
                    case(),
                ));
            }
            for (i, (g, e)) in vals.iter().zip(&expect).enumerate() {
                if !bits_match(c.ty, *g, *e) {
                    return Some((
                        format!("C15|lib|read-value-wrong|{}{}", c.order, c.ty),
                        format!(
                            "{class}: value {i} read as {g:e} ({:#018x}), numpy converts it to {:e} ({e:#018x})",
                            g.to_bits(),
                            f64::from_bits(*e)
                        ),
                        case(),
                    ));
                }
            }
            // the same file delivered in 1-, 7- and 13-byte reads must give the same values
            let shared = std::sync::Arc::new(bytes.clone());
            for k in [1usize, 7, 13] {
                let (reader, _log) = crate::seam::ChunkedReader::new(shared.clone(), crate::seam::Schedule::periodic(k));
                match catch(move || Array::read_npy(reader).map(|a| (a.shape().to_vec(), a.as_slice().to_vec()))) {
                    Ok(Ok((s2, v2))) if s2 == s && v2.len() == vals.len() && v2.iter().zip(&vals).all(|(a, b)| a.to_bits() == b.to_bits()) => {}
                    other => {
                        return Some((
                            format!("C15|lib|read-depends-on-chunking|{}{}", c.order, c.ty),
                            format!("{class}: read in {k}-byte chunks gives {:?}, in one piece {s:?} {vals:?}", other.map(|r| r.map_err(|e| e.to_string()))),
                            case(),
                        ))
                    }
                }
            }
            None
        }
        Ok(Err(e)) => Some((
            format!("C15|lib|read-rejected|v{}|{}", c.version, spelling_class(&c.spelling)),
            format!("{class} ({}) rejected: {e}", c.spelling.describe()),
            case(),
        )),
        Err(p) => Some((
            format!("C15|lib|read-panic|{}", norm_msg(&p)),
            format!("{class} panicked: {p}"),
            case(),
        )),
    }
}

fn spelling_class(s: &Spelling) -> String {
    let numpy = Spelling::numpy();
    let mut v = Vec::new();
    if s.quote != numpy.quote {
        v.push("dquote");
    }
    if s.colon_spaces != numpy.colon_spaces {
        v.push("colon-spacing");
    }
    if s.comma_spaces != numpy.comma_spaces {
        v.push("comma-spacing");
    }
    if s.key_order != numpy.key_order {
        v.push("key-order");
    }
    if s.trailing_comma != numpy.trailing_comma {
        v.push("no-trailing-comma");
    }
    if s.shape_trailing_comma {
        v.push("shape-trailing-comma");
    }
    if v.is_empty() {
        "numpy-default".into()
    } else {
        v.join("+")
    }
}

fn spellings(tier: Tier) -> Vec<Spelling> {
    let spaces: Vec<(usize, usize)> = if tier.thorough() {
        let mut v = Vec::new();
        for a in [0, 1, 3] {
            for b in [0, 1, 3] {
                v.push((a, b));
            }
        }
        v
    } else {
        vec![(0, 1), (0, 0), (1, 1), (3, 3), (1, 0)]
    };
    let mut out = Vec::new();
    for quote in ['\'', '"'] {
        for &colon in &spaces {
            for &comma in &spaces {
                for perm in permutations(3) {
                    for trailing in [true, false] {
                        for shape_trailing in [false, true] {
                            out.push(Spelling {
                                quote,
                                colon_spaces: colon,
                                comma_spaces: comma,
                                key_order: [perm[0], perm[1], perm[2]],
                                trailing_comma: trailing,
                                shape_trailing_comma: shape_trailing,
                            });
                        }
                    }
                }
            }
        }
    }
    out
}

fn eval_reject(name: &str, bytes: &[u8]) -> Option<Viol> {
    let case = J::obj([
        ("kind", J::s("c15-reject")),
        ("name", J::s(name)),
        ("file_hex", J::s(hex(bytes))),
    ]);
    match catch(|| Array::read_npy(bytes).map(|a| a.shape().to_vec())) {
        Ok(Err(_)) => None,
        Ok(Ok(s)) => Some((
            format!("C15|lib|invalid-accepted|{}", name.split(':').next().unwrap_or(name)),
            format!("{name} was accepted with shape {s:?}; it must be rejected"),
            case,
        )),
        Err(p) => Some((
            format!("C15|lib|reject-panic|{}", norm_msg(&p)),
            format!("{name} panicked instead of being rejected: {p}"),
            case,
        )),
    }
}

fn corpus_files() -> Vec<String> {
    let mut v: Vec<String> = fs::read_dir(CORPUS)
        .map(|d| {
            d.flatten()
                .filter_map(|e| e.file_name().into_string().ok())
                .filter(|n| n.ends_with(".npy"))
                .collect()
        })
        .unwrap_or_default();
    v.sort();
    v
}

fn eval_corpus(name: &str, scratch: Option<&Scratch>) -> Option<Viol> {
    let bytes = fs::read(format!("{CORPUS}/{name}")).ok()?;
    if name.starts_with("reject_") {
        if let Some(scratch) = scratch {
            let o = run_sfs(&["view"], Stdin::Bytes(&bytes), scratch);
            if o.ok() || !o.stdout.is_empty() || !o.diagnosed_error() {
                return Some((
                    format!("C15|cli|invalid-accepted|{name}"),
                    format!("sfs view on numpy-written {name}: {} stdout {:?}", o.status_str(), o.stdout_str()),
                    J::obj([("kind", J::s("c15-corpus")), ("name", J::s(name))]),
                ));
            }
            return None;
        }
        return eval_reject(&format!("corpus:{name}"), &bytes);
    }
    let expect = fs::read(format!("{CORPUS}/{}", name.replace(".npy", ".f64"))).ok()?;
    let ty = &name[..2];
    let case = J::obj([("kind", J::s("c15-corpus")), ("name", J::s(name))]);
    let got: Result<Vec<f64>, String> = match scratch {
        None => match catch(|| Array::read_npy(&bytes[..]).map(|a| a.as_slice().to_vec())) {
            Ok(Ok(v)) => Ok(v),
            Ok(Err(e)) => Err(e.to_string()),
            Err(p) => Err(format!("panic: {p}")),
        },
        Some(scratch) => {
            // by path (under the name numpy gave it) for every other file, through stdin for the rest:
            // the output is a re-encoding, whatever the route and whatever other options are absent
            let by_path = name.bytes().map(|b| b as usize).sum::<usize>() % 2 == 0;
            let o = if by_path {
                crate::cli::run_sfs_transport(&["view", "-O", "npy"], &bytes, crate::cli::Transport::PathFile, ".npy", scratch)
            } else {
                run_sfs(&["view", "-O", "npy"], Stdin::Bytes(&bytes), scratch)
            };
            if !o.ok() {
                Err(format!("{} {}", o.status_str(), o.stderr_str()))
            } else {
                match strict_parse_header(&o.stdout) {
                    Ok(p) if p.version != (1, 0) || p.descr != "<f8" || p.fortran_order => Err(format!("the output is not an NPY 1.0 '<f8' C-order file: version {:?}, descr '{}', fortran_order {}", p.version, p.descr, p.fortran_order)),
                    Ok(p) => Ok(o.stdout[p.data_offset..]
                        .chunks_exact(8)
                        .map(|c| f64::from_le_bytes(c.try_into().unwrap()))
                        .collect()),
                    Err(e) => Err(e),
                }
            }
        }
    };
    let layer = if scratch.is_some() { "cli" } else { "lib" };
    match got {
        Ok(vals) => {
            let exp: Vec<u64> = expect
                .chunks_exact(8)
                .map(|c| u64::from_le_bytes(c.try_into().unwrap()))
                .collect();
            if vals.len() != exp.len() {
                return Some((
                    format!("C15|{layer}|corpus-length"),
                    format!("{name}: {} values read, numpy has {}", vals.len(), exp.len()),
                    case,
                ));
            }
            for (i, (g, e)) in vals.iter().zip(&exp).enumerate() {
                if !bits_match(ty, *g, *e) {
                    return Some((
                        format!("C15|{layer}|corpus-value-wrong|{}", &name[..name.find("_v").unwrap_or(5)]),
                        format!("{name}: value {i} read as {g:e}, numpy astype('<f8') gives {:e}", f64::from_bits(*e)),
                        case,
                    ));
                }
            }
            None
        }
        Err(e) => Some((
            format!("C15|{layer}|corpus-rejected|{}", &name[name.find("_v").map_or(0, |i| i + 1)..name.find("_v").map_or(0, |i| i + 3)]),
            format!("numpy-written {name} was not read: {e}"),
            case,
        )),
    }
}

pub fn run(tier: Tier) -> i32 {
    let mut rep = Report::new("C15", tier, "exploration");
    rep.rule = "writer: Array::write_npy for a shape family sweeping every header length modulo 64 (k unit axes + one axis of 1..4 digits, k=1..64) and all shapes with <=4 axes/lengths <=4, judged by a strict NEP-1 parser; reader: full matrix dtype(10) x byte order x version(3) x header spelling (quotes, spacing, 6 key orders, trailing commas, 1-D/2-D) with boundary values, expected bits from the decimal meaning, plus the committed numpy-written corpus against numpy's own astype('<f8'); rejections. Non-trivial = non-default spelling, big-endian, version >1, or header residue 0.".into();

    // writer
    let mut fam = writer_family();
    fam.extend(shapes(4, 1, 4, usize::MAX));
    let res = par_each(&fam, |s| check_writer(s));
    let mut residues = BTreeSet::new();
    for (r, v) in res {
        if r != usize::MAX {
            residues.insert(r);
        }
        for (k, w, j) in v {
            rep.violation(k, w, j);
        }
    }
    // around the largest header format 1.0 can describe (a 16-bit length): k axes of length one (and
    // with a first axis of length 3) for every k from 21 800 to 21 840 - either a valid file or an error
    {
        let near: Vec<Vec<usize>> = (21_800..=21_840usize).flat_map(|k| { let mut b = vec![1usize; k]; b[0] = 3; [vec![1usize; k], b] }).collect();
        let res = par_each(&near, |shape| {
            let values = values_for(shape);
            let case = J::obj([("kind", J::s("c15-writer")), ("shape", J::usizes(shape))]);
            let r = catch(|| {
                let arr = Array::new(values.clone(), shape.to_vec()).expect("shape fits");
                let mut out = Vec::new();
                arr.write_npy(&mut out).map(|_| out).map_err(|e| e.to_string())
            });
            match r {
                Ok(Ok(bytes)) => match check_written(&bytes, shape, &values) {
                    Ok(()) => (true, None),
                    Err(e) => (true, Some((format!("C15|lib|writer-nonconforming-near-header-limit|{}", norm_msg(&e)), format!("write_npy of {} axes (first axis {}) reports success but the file is not a valid NPY 1.0 file: {e}; {} bytes, length field {:?}", shape.len(), shape[0], bytes.len(), bytes.get(8..10)), case))),
                },
                Ok(Err(_)) => (false, None),
                Err(p) => (false, Some((format!("C15|lib|writer-panic|{}", norm_msg(&p)), format!("write_npy of {} axes panicked: {p}", shape.len()), case))),
            }
        });
        let written = res.iter().filter(|r| r.0).count();
        for (_, v) in res {
            if let Some((k, w, j)) = v {
                rep.violation(k, w, j);
            }
        }
        rep.part(Part {
            name: "lib: writer around the 16-bit header limit".into(),
            evaluations: near.len() as u64,
            nontrivial: near.len() as u64,
            note: format!("{} shapes of 21 800 .. 21 840 unit axes (and with a first axis of length 3): {written} are written - each a valid file whose length field describes its header -, the others are refused with an error", near.len()),
            exhaustive: true,
            extra: vec![("written".into(), J::u(written))],
        });
    }
    // mostly-zero arrays (zero tails, zero fronts, long zero runs, all zeros): the file holds exactly
    // the declared number of values
    {
        let mut sj: Vec<(Vec<usize>, usize)> = Vec::new();
        for shape in [vec![70usize], vec![129], vec![600], vec![1100], vec![23, 23], vec![9, 9, 9], vec![64], vec![3, 5]] {
            for kind in 0..5usize {
                sj.push((shape.clone(), kind));
            }
        }
        let res = par_each(&sj, |(shape, kind)| {
            let cells: usize = shape.iter().product();
            let values: Vec<f64> = (0..cells)
                .map(|f| match kind {
                    0 => if f < 3 { f as f64 + 1.0 } else { 0.0 },
                    1 => if f + 1 == cells { 2.5 } else { 0.0 },
                    2 => if f % 600 == 599 || f == 0 { f as f64 + 0.5 } else { 0.0 },
                    3 => 0.0,
                    _ => if f % 2 == 0 { 0.0 } else { -0.0 },
                })
                .collect();
            let case = J::obj([("kind", J::s("c15-sparse-writer")), ("shape", J::usizes(shape)), ("filling", J::u(*kind))]);
            let r = catch(|| {
                let arr = Array::new(values.clone(), shape.to_vec()).expect("shape fits");
                let mut out = Vec::new();
                arr.write_npy(&mut out).map(|_| out).map_err(|e| e.to_string())
            });
            match r {
                Ok(Ok(bytes)) => check_written(&bytes, shape, &values).err().map(|e| (format!("C15|lib|writer-nonconforming-on-sparse-array|{}", norm_msg(&e)), format!("write_npy of a mostly-zero array of shape {shape:?} (filling {kind}): {e}; {} bytes written", bytes.len()), case)),
                Ok(Err(e)) => Some(("C15|lib|writer-error".into(), format!("write_npy of shape {shape:?} failed: {e}"), case)),
                Err(p) => Some((format!("C15|lib|writer-panic|{}", norm_msg(&p)), format!("write_npy of shape {shape:?} panicked: {p}"), case)),
            }
        });
        for v in res.into_iter().flatten() {
            rep.violation(v.0, v.1, v.2);
        }
        rep.part(Part {
            name: "lib: writer on mostly-zero arrays".into(),
            evaluations: sj.len() as u64,
            nontrivial: sj.len() as u64,
            note: "eight shapes of 15 .. 1 100 values x five fillings (a zero tail, a zero front, long zero runs, all zeros, alternating +0 / -0): a valid file holding exactly the declared values, bit for bit".into(),
            exhaustive: true,
            extra: vec![],
        });
    }
    rep.part(Part {
        name: "lib: writer conformance".into(),
        evaluations: fam.len() as u64,
        nontrivial: fam.len() as u64,
        note: format!("{} shapes; unpadded header length residues mod 64 covered: {}/64", fam.len(), residues.len()),
        exhaustive: residues.len() == 64,
        extra: vec![("header_residues_covered".into(), J::Int(residues.len() as i64))],
    });
    if residues.len() != 64 {
        rep.cap(format!("only {} of 64 header-length residues were produced", residues.len()));
    }
    rep.sample(J::obj([
        ("writer_shape", J::usizes(&[1, 1, 1, 1, 1, 1, 1, 1, 1, 1, 1, 1, 1, 1, 1, 1, 1, 1, 7])),
        ("checked", J::s("magic, version (1,0), LE u16 header length, data offset % 64 == 0, trailing newline, ASCII, dict keys descr '<f8'/fortran_order False/exact shape tuple, prod(shape) LE doubles bit-identical, no trailing bytes")),
    ]));

    // reader matrix
    let sp = spellings(tier);
    let mut cases: Vec<ReadCase> = Vec::new();
    for ty in TYPES {
        let one_byte = ty.ends_with('1');
        let orders: &[char] = if one_byte { &['<', '>', '|'] } else { &['<', '>'] };
        for &order in orders {
            for version in [1u8, 2, 3] {
                for s in &sp {
                    for two_d in [false, true] {
                        if !two_d && s.shape_trailing_comma {
                            continue;
                        }
                        cases.push(ReadCase { ty, order, version, spelling: s.clone(), two_d, align: 64 });
                        // headers that do not end at a multiple of 64 bytes, under the default spelling
                        // and one other
                        if spelling_class(s) == "numpy-default" || (s.quote == '"' && !s.trailing_comma && s.colon_spaces == (1, 1) && s.comma_spaces == (1, 1) && s.key_order == [2, 0, 1]) {
                            for align in [16, 1] {
                                cases.push(ReadCase { ty, order, version, spelling: s.clone(), two_d, align });
                            }
                        }
                    }
                }
            }
        }
    }
    let res = par_map(cases.len(), |i| eval_read(&cases[i]));
    let mut nt = 0u64;
    for (c, v) in cases.iter().zip(res) {
        if c.order == '>' || c.version > 1 || c.align != 64 || spelling_class(&c.spelling) != "numpy-default" {
            nt += 1;
        }
        if let Some((k, w, j)) = v {
            rep.violation(k, w, j);
        }
    }
    rep.part(Part {
        name: "lib: reader matrix".into(),
        evaluations: cases.len() as u64,
        nontrivial: nt,
        note: format!("10 dtypes x byte orders x 3 versions x {} spellings x 1-D/2-D, boundary values; every file also read in 1-, 7- and 13-byte chunks", sp.len()),
        exhaustive: true,
        extra: vec![],
    });
    {
        let c = ReadCase { ty: "i2", order: '>', version: 2, spelling: sp[sp.len() / 3].clone(), two_d: true, align: 64 };
        let (bytes, shape, expect) = build_read_case(&c);
        rep.sample(J::obj([
            ("descr", J::s(">i2")),
            ("version", J::Int(2)),
            ("spelling", J::s(c.spelling.describe())),
            ("shape", J::usizes(&shape)),
            ("file_hex", J::s(hex(&bytes))),
            ("expected", J::f64s(&expect.iter().map(|b| f64::from_bits(*b)).collect::<Vec<_>>())),
        ]));
    }

    // rejections
    let mut rejects: Vec<(String, Vec<u8>)> = Vec::new();
    let np = Spelling::numpy();
    for ty in TYPES {
        let d = dict_text(&format!("<{ty}"), true, &[2, 2], &np);
        let size: usize = ty[1..].parse().unwrap();
        rejects.push((format!("fortran:{ty}"), synth(1, &d, &vec![0u8; 4 * size])));
    }
    for descr in ["<f2", "<c8", "|b1", "<U3", "|S1", "<i3", "<M8", "<f16", "f8", "=f8", "<F8"] {
        let d = dict_text(descr, false, &[2], &np);
        rejects.push((format!("dtype:{descr}"), synth(1, &d, &[0u8; 32])));
    }
    for (name, d) in [
        ("missing:descr", "{'fortran_order': False, 'shape': (2,), }".to_string()),
        ("missing:fortran_order", "{'descr': '<f8', 'shape': (2,), }".to_string()),
        ("missing:shape", "{'descr': '<f8', 'fortran_order': False, }".to_string()),
        ("missing:all", "{}".to_string()),
    ] {
        rejects.push((name.to_string(), synth(1, &d, &[0u8; 16])));
    }
    {
        let d = dict_text("<f8", false, &[2], &np);
        let good = synth(1, &d, &[0u8; 16]);
        let mut bad = good.clone();
        bad[0] = 0x92;
        rejects.push(("magic:first-byte".into(), bad));
        let mut bad = good.clone();
        bad[5] = b'X';
        rejects.push(("magic:last-byte".into(), bad));
        for v in [0u8, 4, 255] {
            let mut bad = good.clone();
            bad[6] = v;
            rejects.push((format!("version:{v}"), bad));
        }
    }
    let res = par_map(rejects.len(), |i| eval_reject(&rejects[i].0, &rejects[i].1));
    for v in res.into_iter().flatten() {
        rep.violation(v.0, v.1, v.2);
    }
    // arrays without elements (numpy saves them too): read as an empty array of the declared shape
    for (sh, ty, version) in [(vec![0usize], "<f8", 1u8), (vec![0, 3], "<i4", 1), (vec![2, 0], ">u2", 2), (vec![2, 0, 5], "|u1", 3), (vec![0, 0], "<f4", 1)] {
        let bytes = synth(version, &dict_text(ty, false, &sh, &np), &[]);
        match catch(|| Array::read_npy(&bytes[..]).map(|a| (a.shape().to_vec(), a.as_slice().len()))) {
            Ok(Ok((s, 0))) if s == sh => {}
            other => rep.violation(
                "C15|lib|empty-array-not-read".to_string(),
                format!("an npy file of dtype {ty} (version {version}) declaring shape {sh:?} without values: {other:?}, expected an empty array of that shape"),
                J::obj([("kind", J::s("c15-empty")), ("shape", J::usizes(&sh)), ("file_hex", J::s(hex(&bytes)))]),
            ),
        }
    }
    // fortran_order files of every shape with 1..3 axes of lengths 1..3 (unit axes included)
    let fshapes = crate::enumerate::shapes(3, 1, 3, usize::MAX);
    for v in par_map(fshapes.len(), |i| eval_fortran(&fshapes[i])).into_iter().flatten() {
        rep.violation(v.0, v.1, v.2);
    }
    rep.part(Part {
        name: "lib: rejections".into(),
        evaluations: (rejects.len() + fshapes.len()) as u64,
        nontrivial: (rejects.len() + fshapes.len()) as u64,
        note: format!("fortran_order True per dtype, unsupported dtypes, missing keys, bad magic/version; five files declaring zero-length axes (read as empty arrays); fortran_order files of all {} shapes with 1..3 axes of lengths 1..3: rejected, or read with numpy's column-major meaning", fshapes.len()),
        exhaustive: true,
        extra: vec![],
    });

    // numpy corpus
    let files = corpus_files();
    if files.len() < 100 {
        eprintln!("ENGINE: numpy corpus missing under {CORPUS}");
        return 2;
    }
    let res = par_map(files.len(), |i| eval_corpus(&files[i], None));
    for v in res.into_iter().flatten() {
        rep.violation(v.0, v.1, v.2);
    }
    rep.part(Part {
        name: "lib: numpy-written corpus".into(),
        evaluations: files.len() as u64,
        nontrivial: files.len() as u64,
        note: "10 dtypes x native/swapped x 3 versions x 1-D/2-D written by numpy 2.4.6, compared with numpy's astype('<f8') bytes; 7 numpy-written files that must be rejected".into(),
        exhaustive: true,
        extra: vec![],
    });

    // L2
    let scratch = Scratch::new("c15");
    let mut cli_shapes: Vec<Vec<usize>> = writer_family()
        .into_iter()
        .filter(|s| s[s.len() - 1] == 7 && (s.len() % 4 == 0 || (17..=23).contains(&s.len())))
        .collect();
    cli_shapes.extend([vec![3], vec![2, 3], vec![2, 2, 2], vec![1], vec![4, 1, 2, 3]]);
    if tier.thorough() {
        cli_shapes = writer_family();
        cli_shapes.retain(|s| s[s.len() - 1] <= 123);
        cli_shapes.extend(shapes(4, 1, 3, usize::MAX));
    }
    let res = par_map(cli_shapes.len(), |i| check_writer_cli(&cli_shapes[i], &scratch));
    for v in res.into_iter().flatten() {
        rep.violation(v.0, v.1, v.2);
    }
    rep.part(Part {
        name: "cli: view -O npy conformance".into(),
        evaluations: cli_shapes.len() as u64,
        nontrivial: cli_shapes.len() as u64,
        note: format!("{} shapes incl. the 19-21-axis shapes whose header ends on a 64-byte boundary", cli_shapes.len()),
        exhaustive: true,
        extra: vec![],
    });
    {
        // the same conversions written and routed in every other way
        let mut sp: Vec<(Vec<String>, Vec<u8>)> = Vec::new();
        for shape in [vec![5usize], vec![2, 3], vec![3, 2, 2]] {
            let vals = values_for(&shape);
            let text = format!("#SHAPE=<{}>\n{}\n", shape.iter().map(|n| n.to_string()).collect::<Vec<_>>().join("/"), vals.iter().map(|v| format!("{v:?}")).collect::<Vec<_>>().join(" "));
            let strs = |a: &[&str]| -> Vec<String> { a.iter().map(|x| x.to_string()).collect() };
            sp.push((strs(&["view", "-O", "npy"]), text.clone().into_bytes()));
            sp.push((strs(&["view", "--output-format", "npy", "--precision", "3"]), text.clone().into_bytes()));
            let npy = run_sfs(&["view", "-O", "npy"], Stdin::Bytes(text.as_bytes()), &scratch).stdout;
            sp.push((strs(&["view", "--precision", "17"]), npy.clone()));
            sp.push((strs(&["view", "-O", "npy"]), npy.clone()));
            sp.push((strs(&["fold", "--precision", "17"]), npy));
        }
        super::spelling_part(&mut rep, "C15", "text -> npy, npy -> text, npy -> npy and fold of an npy file for three shapes", &sp, &scratch);
    }
    {
        let (n, v) = check_large_arrays();
        for (k, w, j) in v {
            rep.violation(k, w, j);
        }
        rep.part(Part {
            name: "lib: arrays beyond 4 096 values and axes of 65 536+ entries".into(),
            evaluations: n,
            nontrivial: n,
            note: "write_npy of 8 shapes with 4 097 .. 100 001 values (65x65, 21^3, 2x65 537, ...) through the strict parser; numpy-layout files in 6 dtypes x 6 shapes with 8 193 .. 196 611 values (v1/v2/v3) read back exactly".into(),
            exhaustive: true,
            extra: vec![],
        });
    }
    {
        let (n, v) = check_cli_whitespace_tail_and_output_file(&scratch);
        for (k, w, j) in v {
            rep.violation(k, w, j);
        }
        rep.part(Part {
            name: "cli: whitespace bytes at the end of binary data; -o onto an existing file; -o under seven file-name extensions".into(),
            evaluations: n,
            nontrivial: n,
            note: "|u1, >u2, >i4 and <f8 files whose last data byte is 0x20/0x0a/0x0d/0x09/0x0c through `sfs view -O npy`; `view -O npy -o FILE` onto a longer existing FILE must leave exactly the bytes it prints to stdout".into(),
            exhaustive: true,
            extra: vec![],
        });
    }
    // the library's writers and readers on plain streams (writers that take a few bytes per call and
    // implement only write / flush, a writer that is full, buffered readers of small capacities)
    {
        let spectra: Vec<RefArray> = vec![RefArray::from_fn(&[3], |f, _| f as f64 - 1.0), RefArray::from_fn(&[2, 3], |f, _| f as f64 * 0.5), RefArray::from_fn(&[1, 1, 4], |f, _| f as f64), RefArray::from_fn(&[33, 33], |f, _| (f % 13) as f64)];
        let mut n = 0u64;
        for x in &spectra {
            for precision in [0usize, 6] {
                n += 1;
                let scs = crate::subject::scs_from_ref(x);
                let r = crate::verdict::catch(|| crate::subject::io_through_plain_streams(&scs, precision));
                let problem = match r {
                    Ok(p) => p,
                    Err(p) => Some(format!("panic: {p}")),
                };
                if let Some(why) = problem {
                    rep.violation("C15|lib|plain-streams".to_string(), format!("spectrum of shape {:?} at precision {precision}: {why}", x.shape), J::obj([("kind", J::s("plain-streams")), ("shape", J::usizes(&x.shape))]));
                }
            }
        }
        rep.part(Part {
            name: "lib: npy writer and reader on plain streams".into(),
            evaluations: n,
            nontrivial: n,
            note: "each spectrum in text and npy through writers accepting 1 / 7 / 64 bytes per call (only write and flush implemented): the bytes a Vec receives; into a writer that is full (Ok(0)) after 0, 1, half, all but one byte: not a success; the npy bytes read back through buffered readers of capacity 1, 3, 7, 8, 12, 20, 100, 127, 129".into(),
            exhaustive: true,
            extra: vec![],
        });
    }
    let res = par_map(4, |i| check_writer_cli_newline_bytes(i, &scratch));
    for v in res.into_iter().flatten() {
        rep.violation(v.0, v.1, v.2);
    }
    rep.part(Part {
        name: "cli: view -O npy to a pipe, values containing 0x0A bytes".into(),
        evaluations: 4,
        nontrivial: 4,
        note: "400..3000 entries whose little-endian bytes contain newline bytes at the start, everywhere, periodically, and once followed by > 1 KiB of data".into(),
        exhaustive: true,
        extra: vec![],
    });
    let res = par_map(files.len(), |i| eval_corpus(&files[i], Some(&scratch)));
    for v in res.into_iter().flatten() {
        rep.violation(v.0, v.1, v.2);
    }
    rep.part(Part {
        name: "cli: numpy corpus through sfs view -O npy".into(),
        evaluations: files.len() as u64,
        nontrivial: files.len() as u64,
        note: "npy in (through stdin for half of the files, by path under a .npy name for the other half), npy out: a conforming NPY 1.0 <f8 file whose values are bit-identical to numpy's float64 conversion; reject_* files must fail".into(),
        exhaustive: true,
        extra: vec![],
    });

    rep.assumptions = vec![
        "strict NPY parser written from NEP-1 (harness/src/npyref.rs)".into(),
        "committed corpus written by numpy 2.4.6 (tools/gen_numpy_corpus.py)".into(),
        "'|' byte order is only exercised for 1-byte dtypes (numpy never writes it for wider types); 0-dimensional arrays are outside the alphabet".into(),
    ];
    rep.finish()
}

pub fn replay(case: &J) -> Option<Vec<String>> {
    let fmt = |v: Vec<Viol>| v.into_iter().map(|(k, w, _)| format!("{k} :: {w}")).collect::<Vec<_>>();
    match case.get("kind")?.as_str()? {
        "c15-writer" => Some(fmt(check_writer(&case.get("shape")?.as_usizes()?).1)),
        "c15-writer-cli" => {
            let scratch = Scratch::new("c15r");
            Some(fmt(check_writer_cli(&case.get("shape")?.as_usizes()?, &scratch)))
        }
        "c15-writer-cli-nl" => {
            let scratch = Scratch::new("c15r");
            Some(fmt(check_writer_cli_newline_bytes(case.get("which")?.as_i64()? as usize, &scratch)))
        }
        "c15-corpus" => {
            let name = case.get("name")?.as_str()?;
            let scratch = Scratch::new("c15r");
            let mut v: Vec<Viol> = eval_corpus(name, None).into_iter().collect();
            v.extend(eval_corpus(name, Some(&scratch)));
            Some(fmt(v))
        }
        "c15-reject" => {
            let bytes = crate::json::unhex(case.get("file_hex")?.as_str()?)?;
            let r = catch(|| Array::read_npy(&bytes[..]).map(|a| (a.shape().to_vec(), a.as_slice().to_vec())));
            Some(match r {
                Ok(Err(_)) => vec![],
                other => vec![format!("C15|lib|reject :: read_npy returned {other:?}, expected an error")],
            })
        }
        "c15-read" => {
            let bytes = crate::json::unhex(case.get("file_hex")?.as_str()?)?;
            let ty = case.get("ty")?.as_str()?.to_string();
            let shape = case.get("expect_shape")?.as_usizes()?;
            let bits: Vec<u64> = case.get("expect_bits")?.as_arr()?.iter().filter_map(|b| b.as_str().and_then(|h| u64::from_str_radix(h, 16).ok())).collect();
            let shared = std::sync::Arc::new(bytes.clone());
            let mut out = Vec::new();
            let mut readers: Vec<(String, Result<(Vec<usize>, Vec<f64>), String>)> = Vec::new();
            readers.push(("one piece".into(), catch(|| Array::read_npy(&bytes[..]).map(|a| (a.shape().to_vec(), a.as_slice().to_vec())).map_err(|e| e.to_string())).unwrap_or_else(|p| Err(format!("panic: {p}")))));
            for k in [1usize, 7, 13] {
                let (reader, _log) = crate::seam::ChunkedReader::new(shared.clone(), crate::seam::Schedule::periodic(k));
                readers.push((format!("{k}-byte chunks"), catch(move || Array::read_npy(reader).map(|a| (a.shape().to_vec(), a.as_slice().to_vec())).map_err(|e| e.to_string())).unwrap_or_else(|p| Err(format!("panic: {p}")))));
            }
            for (how, r) in readers {
                match r {
                    Ok((s, v)) if s == shape && v.len() == bits.len() && v.iter().zip(&bits).all(|(g, e)| bits_match(&ty, *g, *e)) => {}
                    other => out.push(format!("C15|lib|read :: read in {how}: {other:?}, expected shape {shape:?} bits {bits:x?}")),
                }
            }
            Some(out)
        }
        _ => None,
    }
}
