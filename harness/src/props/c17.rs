//! C17 — every invocation ends in success or a diagnosed error, never a panic.

use std::sync::Arc;

use crate::{
    cli::{run_sfs_env, Limits, Out, Scratch, Stdin},
    createmodel::Cls,
    enumerate::{sequences, shapes},
    gen::{render, CallSet, Container, Layout},
    json::{bytes_j, J},
    npyref::{dict_text, synth, Spelling},
    par::par_map,
    refmodel::RefArray,
    statref::ALL_STATS,
    subject::text_of,
    verdict::{Part, Report, Tier},
};

#[derive(Clone)]
struct Case {
    argv: Vec<String>,
    stdin: Arc<Vec<u8>>,
    /// coarse input class, part of the failure key
    class: String,
    what: String,
}

fn case(argv: &[&str], stdin: &Arc<Vec<u8>>, class: &str, what: String) -> Case {
    Case {
        argv: argv.iter().map(|s| s.to_string()).collect(),
        stdin: stdin.clone(),
        class: class.to_string(),
        what,
    }
}

enum Verdict {
    Ok,
    Inconclusive,
    Violation(String, String),
}

fn judge(o: &Out, c: &Case) -> Verdict {
    let sub = c.argv.first().map(|s| s.as_str()).unwrap_or("?");
    if o.timed_out() {
        return Verdict::Violation(format!("C17|cli|no-termination|{sub}|{}", c.class), format!("{}: did not terminate within the cap", c.what));
    }
    if o.signal == Some(libc::SIGABRT) && o.stderr_str().contains("memory allocation of") {
        // allocation failure: a verdict only if the request is absurd on any machine (> 64 GiB)
        let bytes: u128 = o
            .stderr_str()
            .split("memory allocation of ")
            .nth(1)
            .and_then(|r| r.split(' ').next())
            .and_then(|n| n.parse().ok())
            .unwrap_or(0);
        if bytes > (64u128 << 30) {
            return Verdict::Violation(
                format!("C17|cli|abort-on-absurd-allocation|{sub}|{}", c.class),
                format!("{}: aborted trying to allocate {bytes} bytes", c.what),
            );
        }
        return Verdict::Inconclusive;
    }
    if o.stderr_str().contains("failed to spawn thread") {
        // thread creation refused under the harness's own address-space cap (4096 worker stacks):
        // resource exhaustion caused by the harness, never a verdict
        return Verdict::Inconclusive;
    }
    if o.panicked() {
        return Verdict::Violation(
            format!("C17|cli|panic@{}|{sub}|{}", o.panic_site(), c.class),
            format!("{}: {} — {}", c.what, o.status_str(), o.stderr_str().lines().filter(|l| !l.starts_with("note:")).collect::<Vec<_>>().join(" | ")),
        );
    }
    if o.code.is_none() {
        return Verdict::Violation(format!("C17|cli|killed-by-signal-{}|{sub}|{}", o.signal.unwrap_or(0), c.class), format!("{}: {}", c.what, o.status_str()));
    }
    if o.code != Some(0) && o.stderr.is_empty() {
        return Verdict::Violation(format!("C17|cli|failure-without-diagnostic|{sub}|{}", c.class), format!("{}: {} with empty stderr", c.what, o.status_str()));
    }
    Verdict::Ok
}

fn spectrum_text(shape: &[usize]) -> Arc<Vec<u8>> {
    if shape.iter().any(|n| *n == 0) {
        let s: Vec<String> = shape.iter().map(|n| n.to_string()).collect();
        return Arc::new(format!("#SHAPE=<{}>\n\n", s.join("/")).into_bytes());
    }
    Arc::new(text_of(&RefArray::from_fn(shape, |f, _| (f % 5) as f64 + 1.0)).into_bytes())
}

fn shape_class(shape: &[usize]) -> String {
    if shape.iter().any(|n| *n == 0) {
        return "zero-length-axis".into();
    }
    let min = shape.iter().min().unwrap();
    format!("{}d,minlen{}", shape.len(), min.min(&3))
}

fn small_callset() -> CallSet {
    let mut cs = CallSet::new(3);
    let rows = [["0/0", "0/1", "1/1"], ["0|1", "./.", "0/0"], ["1/1", "1/2", "0/1"], ["0/0", "0/0", "1|0"]];
    for r in rows {
        cs.push_gts(&r);
    }
    cs.records[2].alts = vec!["C", "G"];
    cs.records[3].chrom = 1;
    cs
}

fn build_cases(tier: Tier) -> Vec<(String, Vec<Case>)> {
    let mut groups: Vec<(String, Vec<Case>)> = Vec::new();
    let mut all_shapes = shapes(4, 1, 4, usize::MAX);
    all_shapes.extend([vec![0], vec![0, 3], vec![3, 0], vec![2, 0, 2]]);

    // (i) statistic x shape
    let mut g = Vec::new();
    for s in &all_shapes {
        let input = spectrum_text(s);
        for st in ALL_STATS {
            g.push(case(&["stat", "-s", st], &input, &format!("stat={st},{}", shape_class(s)), format!("stat -s {st} on shape {s:?}")));
        }
    }
    groups.push(("(i) statistic x shape grid".into(), g));

    // (i-b) size ladder: the same statistics and options on spectra whose axis lengths and entry
    // counts sit at and around powers of two and the limits of the look-up tables in the code
    let mut g = Vec::new();
    let mut ladder: Vec<Vec<usize>> = Vec::new();
    for c in [64usize, 128, 171, 256, 512, 1024, 2048, 4096, 8192, 16_384, 32_768, 65_536, 131_072] {
        for n in [c - 1, c, c + 1, c + 2] {
            ladder.push(vec![n]);
        }
    }
    ladder.extend([vec![170], vec![174], vec![175], vec![341], vec![343], vec![1000], vec![100_000]]);
    if tier.thorough() {
        for c in [262_144usize, 524_288, 1_048_576, 4_194_304] {
            for n in [c, c + 1, c + 2] {
                ladder.push(vec![n]);
            }
        }
    }
    for s in &ladder {
        let input = spectrum_text(s);
        let n = s[0];
        let cls = format!("ladder-1d,{}", if n <= 175 { "n<=175" } else if n <= 4098 { "n<=4098" } else { "n>4098" });
        for st in ["sum", "s", "pi", "theta", "d-tajima", "d-fu-li", "f2", "sum,s,pi,theta,d-tajima,d-fu-li", "sum,s,pi"] {
            // Watterson's estimator (and with it both D statistics) is quadratic in the axis length
            // (21 s at 131 071 entries): slow is not a violation, so it stays below 20 000 entries
            if n > 20_000 && (st.contains("theta") || st.contains("d-")) {
                continue;
            }
            g.push(case(&["stat", "-s", st], &input, &cls, format!("stat -s {st} on shape {s:?}")));
        }
        let half = ((n - 1) / 4).max(1).to_string();
        let full = ((n - 1) / 2).to_string();
        let same = n.to_string();
        let opts: Vec<Vec<&str>> = vec![
            vec!["view"],
            vec!["view", "-O", "npy"],
            vec!["view", "--mask-monomorphic", "--normalize"],
            vec!["view", "-p", "1"],
            vec!["view", "-p", "5"],
            vec!["view", "-p", &half],
            vec!["view", "-p", &full],
            vec!["view", "--project-shape", &same],
            vec!["view", "--project-shape", "172"],
            vec!["fold"],
            vec!["fold", "--fill", "nan", "-O", "npy"],
        ];
        for o in opts {
            // projections to half the size of a very long axis are quadratic: keep them to the
            // ladder below 4 100 (thorough 10 000) entries
            if n > tier.pick(4_100, 10_000) && (o.contains(&half.as_str()) || o.contains(&full.as_str()) || o.contains(&same.as_str())) && o.len() > 1 && o[1] != "-O" && o[1] != "--mask-monomorphic" {
                continue;
            }
            // a projection evaluates (entries x target entries) coefficients: beyond 1e8 of them a
            // run takes minutes (slow is not a violation, and the cap would call it a hang)
            if o.contains(&"172") && n * 172 > 100_000_000 {
                continue;
            }
            g.push(case(&o, &input, &cls, format!("{} on shape {s:?}", o.join(" "))));
        }
    }
    let mut ladder2: Vec<Vec<usize>> = vec![
        vec![32, 32], vec![25, 41], vec![33, 33], vec![2, 512], vec![2, 513], vec![513, 2], vec![172, 2], vec![2, 172], vec![171, 171], vec![172, 172], vec![173, 3],
        vec![64, 64], vec![65, 65], vec![255, 257], vec![3, 4097], vec![4097, 3], vec![2, 65_537], vec![65_537, 2], vec![16, 16, 4], vec![11, 11, 9], vec![17, 17, 17], vec![6, 6, 6, 6], vec![173, 2, 3],
    ];
    if tier.thorough() {
        ladder2.extend([vec![1025, 1025], vec![2, 1_048_577], vec![101, 101, 101], vec![33, 33, 33, 33]]);
    }
    for s in &ladder2 {
        let input = spectrum_text(s);
        let d = s.len();
        let cls = format!("ladder-{d}d");
        let stats: &[&str] = match d {
            2 => &["sum", "s", "f2", "fst", "pi-xy", "king", "r0", "r1", "sum,f2,fst,pi-xy"],
            3 => &["sum", "s", "f3"],
            _ => &["sum", "s", "f4"],
        };
        for st in stats {
            g.push(case(&["stat", "-s", st], &input, &cls, format!("stat -s {st} on shape {s:?}")));
        }
        let ones = vec!["1"; d].join(",");
        let fives = s.iter().map(|n| ((n - 1) / 2).min(5).to_string()).collect::<Vec<_>>().join(",");
        let halves = s.iter().map(|n| ((n - 1) / 4).max(1).min(tier.pick(8, 40)).to_string()).collect::<Vec<_>>().join(",");
        // (entries x target entries) coefficients per projection: targets beyond 1e8 are left out
        let cells: usize = s.iter().product();
        let work = |targets: &str| -> usize { cells.saturating_mul(targets.split(',').map(|t| 2 * t.parse::<usize>().unwrap_or(0) + 1).product::<usize>()) };
        let too_slow = |targets: &str| work(targets) > 100_000_000;
        let ones_ok = !too_slow(&ones);
        let opts: Vec<Vec<&str>> = vec![
            vec!["view"],
            vec!["view", "-O", "npy"],
            vec!["view", "--mask-monomorphic", "--normalize"],
            if ones_ok { vec!["view", "-p", &ones] } else { vec!["view"] },
            if too_slow(&fives) { vec!["view"] } else { vec!["view", "-p", &fives] },
            if too_slow(&halves) { vec!["view"] } else { vec!["view", "-p", &halves] },
            vec!["view", "-m", "0"],
            vec!["view", "-M", "0"],
            vec!["view", "-m", "0", "-p", "1", "-O", "npy"],
            vec!["fold"],
            vec!["fold", "-O", "npy"],
        ];
        for o in opts {
            g.push(case(&o, &input, &cls, format!("{} on shape {s:?}", o.join(" "))));
        }
    }
    groups.push(("(i-b) size ladder".into(), g));

    // (i-c) values: spectra holding NaN, infinities, negative, huge, subnormal and long-digit entries,
    // through every statistic and option (the tool itself writes `nan` and `inf` when folding)
    let mut g = Vec::new();
    let value_sets: Vec<(&str, Vec<&str>)> = vec![
        ("nan", vec!["nan", "1", "2", "3", "4", "NaN", "5", "6", "7"]),
        ("one-nan", vec!["1", "2", "3", "4", "5", "6", "7", "8", "nan"]),
        ("inf", vec!["inf", "1", "2", "3", "4", "5", "6", "7", "-inf"]),
        ("inf-middle", vec!["1", "inf", "2", "3", "inf", "5", "6", "7", "8"]),
        ("negative", vec!["-1", "2", "-3", "4", "-5", "6", "-7", "8", "-9"]),
        ("cancelling", vec!["1", "-1", "2", "-2", "0", "3", "-3", "4", "-4"]),
        ("zeros", vec!["0", "0", "0", "0", "0", "0", "0", "0", "0"]),
        ("huge", vec!["1e300", "1e308", "2e307", "1e19", "18446744073709551616", "9223372036854775808", "1e20", "1e100", "1.7976931348623157e308"]),
        ("long-digits", vec!["100000000000000000000", "18446744073709551615", "18446744073709551616", "00000000000000000000007", "123456789012345678901234567890", "1", "2", "3", "4"]),
        ("tiny", vec!["1e-310", "2e-310", "5e-324", "1e-300", "0", "1e-320", "3e-310", "1e-315", "4e-310"]),
        ("spellings", vec!["+1", "1.", ".5", "1e3", "1E+03", "Infinity", "-0", "-0.0", "1e-0"]),
    ];
    for (name, vals) in &value_sets {
        for shape in [vec![9usize], vec![3, 3]] {
            let sh: Vec<String> = shape.iter().map(|n| n.to_string()).collect();
            let input = Arc::new(format!("#SHAPE=<{}>\n{}\n", sh.join("/"), vals.join(" ")).into_bytes());
            let cls = format!("values={name}");
            for st in ALL_STATS {
                g.push(case(&["stat", "-s", st], &input, &cls, format!("stat -s {st} on a {}-axis spectrum with {name} values", shape.len())));
            }
            let ones = vec!["1"; shape.len()].join(",");
            for o in [
                vec!["view"], vec!["view", "--precision", "0"], vec!["view", "--precision", "17"], vec!["view", "-O", "npy"], vec!["view", "--normalize"], vec!["view", "--mask-monomorphic", "--normalize"],
                vec!["view", "-p", &ones], vec!["view", "-m", "0"], vec!["fold"], vec!["fold", "--precision", "0"], vec!["fold", "--fill", "inf", "--precision", "0"], vec!["fold", "--fill", "zero"],
            ] {
                g.push(case(&o, &input, &cls, format!("{} on a {}-axis spectrum with {name} values", o.join(" "), shape.len())));
            }
        }
    }
    groups.push(("(i-c) unusual values".into(), g));

    // (ii) view / fold single options x shape
    let mut g = Vec::new();
    for s in &all_shapes {
        let input = spectrum_text(s);
        let d = s.len();
        let ones = vec!["1"; d].join(",");
        let twos = vec!["2"; d].join(",");
        let opts: Vec<Vec<&str>> = vec![
            vec!["view"],
            vec!["view", "--mask-monomorphic"],
            vec!["view", "--normalize"],
            vec!["view", "-m", "0"],
            vec!["view", "-M", "0"],
            vec!["view", "--project-shape", &ones],
            vec!["view", "--project-shape", &twos],
            vec!["view", "-p", &ones],
            vec!["view", "-O", "npy"],
            vec!["view", "--mask-monomorphic", "--normalize", "-m", "0"],
            vec!["fold"],
            vec!["fold", "--fill", "zero"],
            vec!["fold", "--fill", "minus-one"],
        ];
        for o in opts {
            let opt_name = if o.len() > 1 { o[1].trim_start_matches('-') } else { "plain" };
            g.push(case(&o, &input, &format!("{opt_name},{}", shape_class(s)), format!("{} on shape {s:?}", o.join(" "))));
        }
    }
    // npy output for a shape family whose header length sweeps every residue modulo 64 (k unit axes
    // followed by one axis of 1..4 digits)
    for k in 1..=64usize {
        for last in [7usize, 42, 123, 1000] {
            let mut sh = vec![1usize; k];
            sh.push(last);
            let input = spectrum_text(&sh);
            g.push(case(&["view", "-O", "npy"], &input, "npy-header-residue", format!("view -O npy on {k} unit axes + one of length {last}")));
        }
    }
    groups.push(("(ii) view/fold options x shape grid".into(), g));

    // (iii) option values at and beyond bounds
    let mut g = Vec::new();
    let sp1 = spectrum_text(&[5]);
    let sp2 = spectrum_text(&[3, 4]);
    let vcf = Arc::new(render(&small_callset(), Container::Vcf, &Layout::Single));
    for p in ["0", "17", "100", "65535", "65536", "1000000", "18446744073709551615"] {
        let cls = format!("precision={}", if p.len() > 3 { "huge" } else { "small" });
        g.push(case(&["view", "--precision", p], &sp1, &cls, format!("view --precision {p}")));
        g.push(case(&["fold", "--precision", p], &sp2, &cls, format!("fold --precision {p}")));
        g.push(case(&["stat", "-s", "sum,pi", "--precision", p], &sp1, &cls, format!("stat --precision {p}")));
        g.push(case(&["create", "--precision", p, "-p", "1"], &vcf, &cls, format!("create -p 1 --precision {p}")));
    }
    for v in ["0", "1", "2", "3", "4", "5", "9223372036854775807", "9223372036854775808", "18446744073709551615"] {
        let cls = format!("project={}", if v.len() > 3 { "huge" } else { "small" });
        g.push(case(&["view", "-p", v], &sp1, &cls, format!("view -p {v} on shape [5]")));
        g.push(case(&["view", "--project-shape", v], &sp1, &cls, format!("view --project-shape {v} on shape [5]")));
        g.push(case(&["create", "-p", v], &vcf, &cls, format!("create -p {v}")));
        g.push(case(&["create", "--project-shape", v], &vcf, &cls, format!("create --project-shape {v}")));
        g.push(case(&["view", "-p", &format!("1,{v}")], &sp2, &cls, format!("view -p 1,{v} on shape [3,4]")));
    }
    for m in ["0", "1", "2", "18446744073709551615", "0,0", "1,1", "0,1", "1,0,1", "0,2"] {
        g.push(case(&["view", "-m", m], &sp2, "marginalize-values", format!("view -m {m} on shape [3,4]")));
        g.push(case(&["view", "-M", m], &sp2, "marginalize-values", format!("view -M {m} on shape [3,4]")));
        g.push(case(&["view", "-m", m], &sp1, "marginalize-values", format!("view -m {m} on shape [5]")));
    }
    // every axis list of length 1..4 over axes 0..=d (repeats anywhere in the list, out-of-range
    // entries, all axes) on a 4-axis and a 3-axis spectrum, as -m and as -M
    for sh in [vec![2usize, 2, 2, 3], vec![2, 3, 2]] {
        let input = spectrum_text(&sh);
        let d = sh.len();
        for l in sequences(d + 1, 1, 4) {
            let m = l.iter().map(|a| a.to_string()).collect::<Vec<_>>().join(",");
            g.push(case(&["view", "-m", &m], &input, "marginalize-lists", format!("view -m {m} on shape {sh:?}")));
            g.push(case(&["view", "-M", &m], &input, "marginalize-lists", format!("view -M {m} on shape {sh:?}")));
        }
    }
    for t in ["1", "16", "4096", "0", "18446744073709551615"] {
        g.push(case(&["create", "--threads", t], &vcf, "threads", format!("create --threads {t}")));
        let gz = Arc::new(render(&small_callset(), Container::Bcf, &Layout::Fixed(64)));
        g.push(case(&["create", "--threads", t], &gz, "threads", format!("create --threads {t} on bcf")));
    }
    // delimiters of 1..4 UTF-8 bytes (and illegal ones) x header x number of statistics x precision
    for d in [",", "\t", "", "ab", " ", ";", "\u{e9}", "\u{2192}", "\u{2502}", "\u{1f600}", "\n"] {
        for header in [false, true] {
            for stats in ["sum", "sum,s", "sum,s,pi,theta"] {
                for prec in [None, Some("2"), Some("0,1,2,3")] {
                    if prec == Some("0,1,2,3") && stats != "sum,s,pi,theta" {
                        continue;
                    }
                    let mut a = vec!["stat", "-s", stats, "-d", d];
                    if header {
                        a.push("-H");
                    }
                    if let Some(p) = prec {
                        a.extend(["-p", p]);
                    }
                    g.push(case(&a, &sp1, "delimiter", format!("{} (delimiter {d:?})", a.join(" "))));
                }
            }
        }
    }
    // repeated verbosity flags, clustered and separate, short and long, in front of and behind the
    // subcommand, for every subcommand
    let vcf_plain = Arc::new(render(&small_callset(), Container::Vcf, &Layout::Single));
    for (sub, input) in [(vec!["view"], &sp2), (vec!["fold"], &sp2), (vec!["stat", "-s", "sum"], &sp2), (vec!["create"], &vcf_plain)] {
        for flags in [
            vec!["-q"], vec!["-qq"], vec!["-qqq"], vec!["-qqqq"], vec!["-qqqqqqqq"], vec!["-q", "-q", "-q"], vec!["--quiet", "--quiet", "--quiet"], vec!["-v"], vec!["-vv"], vec!["-vvv"], vec!["-vvvv"],
            vec!["-vvvvvvvv"], vec!["-v", "-v", "-v", "-v"], vec!["--verbose", "--verbose", "--verbose", "--verbose"], vec!["-q", "-v"], vec!["-qqq", "-v"], vec!["-vvv", "-qq"],
        ] {
            let mut behind: Vec<&str> = sub.clone();
            behind.extend(flags.iter().copied());
            g.push(case(&behind, input, "verbosity-repeated", format!("{}", behind.join(" "))));
        }
    }
    // samples files with blank, whitespace-only and oddly separated lines
    for (k, content) in ["", "\n", " \n", "\t\n", "s0\n \n", "s0\n\t\n", "s0\r\n \r\n", "s0\tA\n\ns1\tB\n", "s0 A\n", "s0\t\n", "\ts0\n", "s0\tA\tB\n", "\u{feff}s0\n", "s0\n\n\n", "   s0   \n", "s0\ts0\n"].iter().enumerate() {
        let path = format!("{}/c17-samples-{k}.txt", crate::cli::SCRATCH_ROOT);
        let _ = std::fs::create_dir_all(crate::cli::SCRATCH_ROOT);
        let _ = std::fs::write(&path, content);
        g.push(case(&["create", "-S", &path], &vcf_plain, "samples-file-odd-lines", format!("create -S <file holding {content:?}>")));
        g.push(case(&["create", "-S", &path, "-p", "1"], &vcf_plain, "samples-file-odd-lines", format!("create -p 1 -S <file holding {content:?}>")));
    }
    groups.push(("(iii) option values at and beyond bounds".into(), g));

    // (iii-b) what stdin is while the input is named by path, without SFS_ALLOW_STDIN
    let mut g = Vec::new();
    for kind in ["directory", "null", "closed", "empty-file", "file-with-data", "terminal"] {
        let class = format!("stdin={kind}");
        g.push(case(&["view"], &sp2, &class, format!("view PATH with stdin = {kind}")));
        g.push(case(&["fold"], &sp2, &class, format!("fold PATH with stdin = {kind}")));
        g.push(case(&["stat", "-s", "sum"], &sp2, &class, format!("stat -s sum PATH with stdin = {kind}")));
        g.push(case(&["create"], &vcf_plain, &class, format!("create PATH with stdin = {kind}")));
        g.push(case(&["create", "-S", "/nonexistent.samples"], &vcf_plain, &class, format!("create -S missing PATH with stdin = {kind}")));
    }
    groups.push(("(iii-b) the kind of stdin while the input is named by path".into(), g));

    // (iv) absurd declared shapes
    let mut g = Vec::new();
    for sh in ["4294967296", "4294967296/4294967296", "18446744073709551615", "9999999999999999999", "99999999999999999999", "0", "1/0", "3/3/3/3/3/3/3/3/3/3/3/3/3/3/3/3/3/3/3/3/3/3/3/3/3/3/3/3/3/3/3/3/3/3/3/3/3/3/3/3/3", "-1", "", "2/", "a"] {
        let input = Arc::new(format!("#SHAPE=<{sh}>\n1 2 3\n").into_bytes());
        for argv in [vec!["view"], vec!["fold"], vec!["stat", "-s", "sum"], vec!["stat", "-s", "s"], vec!["view", "--mask-monomorphic"]] {
            g.push(case(&argv, &input, "absurd-text-shape", format!("{} on text header #SHAPE=<{sh}>", argv.join(" "))));
        }
    }
    // a zero-length axis next to absurd ones (the value count, 0, matches the product; everything derived from the shape must still not overflow)
    for sh in ["0/8589934592/8589934592", "8589934592/0/8589934592", "8589934592/8589934592/0", "0/18446744073709551615", "18446744073709551615/0/3", "0/0/4294967296/4294967296/4294967296"] {
        let input = Arc::new(format!("#SHAPE=<{sh}>\n\n").into_bytes());
        for argv in [vec!["view"], vec!["fold"], vec!["stat", "-s", "sum"], vec!["view", "-O", "npy"], vec!["view", "-m", "0"]] {
            g.push(case(&argv, &input, "zero-axis-next-to-absurd-axes", format!("{} on text header #SHAPE=<{sh}> without values", argv.join(" "))));
        }
    }
    // every number of unit axes around the point where the npy 1.0 header no longer fits its 16-bit
    // length field (the padded length, not the dict, has to fit)
    for d in 21_790usize..=21_860 {
        let sh = vec!["1"; d].join("/");
        let input = Arc::new(format!("#SHAPE=<{sh}>\n7\n").into_bytes());
        g.push(case(&["view", "-O", "npy"], &input, "thousands-of-axes", format!("view -O npy on a spectrum with {d} axes of length 1")));
    }
    // thousands of axes: the npy 1.0 header length field holds at most 65 535 bytes (about 21 800 unit axes)
    for d in [1000usize, 21_000, 21_800, 21_840, 21_900, 22_000, 30_000] {
        let sh = vec!["1"; d].join("/");
        let input = Arc::new(format!("#SHAPE=<{sh}>\n7\n").into_bytes());
        for argv in [vec!["view"], vec!["view", "-O", "npy"], vec!["fold"], vec!["stat", "-s", "sum"]] {
            g.push(case(&argv, &input, "thousands-of-axes", format!("{} on a spectrum with {d} axes of length 1", argv.join(" "))));
        }
    }
    let np = Spelling::numpy();
    for shape in [vec![4294967296usize], vec![4294967296, 4294967296], vec![usize::MAX], vec![1usize << 61], vec![1_000_000_000_000_000], vec![0], vec![2, 0], vec![1usize << 32, 1 << 31]] {
        for version in [1u8, 2] {
            let bytes = Arc::new(synth(version, &dict_text("<f8", false, &shape, &np), &[0u8; 24]));
            for argv in [vec!["view"], vec!["fold"], vec!["stat", "-s", "sum"]] {
                g.push(case(&argv, &bytes, "absurd-npy-shape", format!("{} on npy v{version} declaring shape {shape:?}", argv.join(" "))));
            }
        }
    }
    // degenerate but well-formed npy shapes, among them the 0-dimensional `()` numpy writes for a
    // saved scalar, with one value too few, the right number, and one too many: every statistic and option
    for shape in [vec![], vec![1usize], vec![1, 1], vec![1, 1, 1], vec![2], vec![1, 2], vec![3]] {
        let n: usize = shape.iter().product();
        for extra in [-1i64, 0, 1] {
            let count = (n as i64 + extra).max(0) as usize;
            let data: Vec<u8> = (0..count).flat_map(|i| (i as f64 + 1.0).to_le_bytes()).collect();
            let bytes = Arc::new(synth(1, &dict_text("<f8", false, &shape, &np), &data));
            for st in ALL_STATS {
                g.push(case(&["stat", "-s", st], &bytes, "degenerate-npy-shape", format!("stat -s {st} on npy shape {shape:?} with {count} values")));
            }
            for argv in [vec!["view"], vec!["fold"], vec!["view", "--mask-monomorphic", "--normalize"], vec!["view", "-p", "0"], vec!["view", "-m", "0"], vec!["view", "-O", "npy"]] {
                g.push(case(&argv, &bytes, "degenerate-npy-shape", format!("{} on npy shape {shape:?} with {count} values", argv.join(" "))));
            }
        }
    }
    // absurd header length fields
    for hl in [0xffffu32, 0xffff_ffff, 0x7fff_ffff] {
        let mut bytes = b"\x93NUMPY\x02\x00".to_vec();
        bytes.extend_from_slice(&hl.to_le_bytes());
        bytes.extend_from_slice(b"{'descr': '<f8', 'fortran_order': False, 'shape': (3,), }\n");
        let bytes = Arc::new(bytes);
        g.push(case(&["view"], &bytes, "absurd-npy-header-length", format!("view on npy v2 declaring header length {hl}")));
    }
    groups.push(("(iv) absurd declared shapes".into(), g));

    // (iv-b) failing sinks: every subcommand and output option with stdout on a full device and on a
    // pipe whose reader is gone - the write error must be a diagnosed error, not a panic
    let mut g = Vec::new();
    let sp_small = spectrum_text(&[3, 3]);
    let sp_1d = spectrum_text(&[6]);
    for sink in ["sink=full", "sink=closed-pipe"] {
        for argv in [
            vec!["view"], vec!["view", "-O", "npy"], vec!["view", "--precision", "12"], vec!["fold"], vec!["fold", "--fill", "zero"],
            vec!["stat", "-s", "sum"], vec!["stat", "-s", "sum,f2", "--header"], vec!["stat", "-s", "king,r0,r1", "-H", "--delimiter", ";"],
        ] {
            g.push(case(&argv, &sp_small, sink, format!("{} with stdout on {sink}", argv.join(" "))));
        }
        for argv in [vec!["stat", "-s", "pi,theta,d-tajima,d-fu-li,s", "--header"], vec!["view", "-p", "2"]] {
            g.push(case(&argv, &sp_1d, sink, format!("{} with stdout on {sink}", argv.join(" "))));
        }
        for argv in [vec!["create"], vec!["create", "-p", "1"], vec!["create", "-vv"]] {
            g.push(case(&argv, &vcf, sink, format!("{} with stdout on {sink}", argv.join(" "))));
        }
    }
    groups.push(("(iv-b) failing sinks".into(), g));

    // (v) contradictory sample lists
    let mut g = Vec::new();
    let entries = ["s0", "s1", "s0=A", "s1=A", "s0=B", "s1=B"];
    for seq in sequences(entries.len(), 1, 3) {
        let list: Vec<&str> = seq.iter().map(|&i| entries[i]).collect();
        let arg = list.join(",");
        let names: Vec<&str> = list.iter().map(|e| e.split('=').next().unwrap()).collect();
        let dup = (0..names.len()).any(|i| names[i + 1..].contains(&names[i]));
        let cls = if dup { "sample-list-with-duplicate" } else { "sample-list" };
        g.push(case(&["create", "-s", &arg], &vcf, cls, format!("create -s {arg}")));
        if dup {
            g.push(case(&["create", "-s", &arg, "-p", "1"], &vcf, cls, format!("create -s {arg} -p 1")));
        }
    }
    for arg in ["", "=", "=A", "s0=", ",", "s0,,s1", "s0=A=B", " ", "s0 ", "s9"] {
        g.push(case(&["create", "-s", arg], &vcf, "sample-list-odd", format!("create -s {arg:?}")));
    }
    groups.push(("(v) contradictory sample lists".into(), g));

    // (vi) empty and short inputs
    let mut g = Vec::new();
    let files: Vec<(&str, Vec<u8>)> = vec![
        ("text", text_of(&RefArray::from_fn(&[2, 3], |f, _| f as f64)).into_bytes()),
        ("npy", synth(1, &dict_text("<f8", false, &[3], &np), &[0u8; 24])),
        ("vcf", render(&small_callset(), Container::Vcf, &Layout::Single)),
        ("vcf.gz", render(&small_callset(), Container::VcfGz, &Layout::Single)),
        ("bcf", render(&small_callset(), Container::Bcf, &Layout::Single)),
        ("raw-bcf", render(&small_callset(), Container::RawBcf, &Layout::Single)),
    ];
    for (name, bytes) in &files {
        for len in 0..=12usize.min(bytes.len()) {
            let input = Arc::new(bytes[..len].to_vec());
            for argv in [vec!["create"], vec!["view"], vec!["fold"], vec!["stat", "-s", "sum"]] {
                g.push(case(&argv, &input, &format!("short-input,{}", if len < 6 { "len<6" } else { "len>=6" }), format!("{} on the first {len} bytes of a {name} file", argv.join(" "))));
            }
        }
    }
    groups.push(("(vi) empty and short inputs".into(), g));

    // (vii) single-fault neighbourhoods
    let formats: Vec<&str> = if tier.thorough() { vec!["text", "npy", "vcf", "raw-bcf", "vcf.gz", "bcf"] } else { vec!["text", "npy", "vcf-sampled", "raw-bcf-sampled"] };
    for f in formats {
        let name = f.trim_end_matches("-sampled");
        let sampled = f.ends_with("-sampled");
        let bytes = &files.iter().find(|x| x.0 == name).unwrap().1;
        let consumers: Vec<Vec<&str>> = if name == "text" || name == "npy" {
            vec![vec!["view"], vec!["fold"], vec!["stat", "-s", "sum"]]
        } else {
            vec![vec!["create"], vec!["create", "-p", "1"]]
        };
        let mut g = Vec::new();
        let mut mutated: Vec<(Vec<u8>, String)> = Vec::new();
        for i in 0..bytes.len() {
            if sampled && i % 5 != 0 {
                continue;
            }
            for bit in 0..8 {
                let mut b = bytes.clone();
                b[i] ^= 1 << bit;
                mutated.push((b, format!("bit {bit} of byte {i} flipped")));
            }
            let mut b = bytes.clone();
            b.remove(i);
            mutated.push((b, format!("byte {i} deleted")));
            mutated.push((bytes[..i].to_vec(), format!("truncated at {i}")));
        }
        if name == "text" || name == "vcf" {
            // huge-number substitution at every numeric token
            let text = String::from_utf8_lossy(bytes).to_string();
            let mut i = 0;
            let tb = text.as_bytes();
            while i < tb.len() {
                if tb[i].is_ascii_digit() {
                    let mut j = i;
                    while j < tb.len() && tb[j].is_ascii_digit() {
                        j += 1;
                    }
                    for huge in ["99999999999999999999", "18446744073709551616", "1e400", "-1"] {
                        let s = format!("{}{}{}", &text[..i], huge, &text[j..]);
                        mutated.push((s.into_bytes(), format!("numeric token at {i} replaced by {huge}")));
                    }
                    i = j;
                } else {
                    i += 1;
                }
            }
        }
        for (b, what) in mutated {
            let input = Arc::new(b);
            for argv in &consumers {
                g.push(case(argv, &input, &format!("single-fault,{name}"), format!("{} on a {name} file with {what}", argv.join(" "))));
            }
        }
        groups.push((format!("(vii) single-fault neighbourhood of a {name} file{}", if sampled { " (every 5th byte)" } else { "" }), g));
    }
    let _ = Cls::G0;
    groups
}

fn case_j(c: &Case, o: &Out) -> J {
    J::obj([
        ("kind", J::s("c17")),
        ("argv", J::strs(&c.argv)),
        ("stdin", bytes_j(&c.stdin)),
        ("class", J::s(c.class.clone())),
        ("observed", o.to_j()),
    ])
}

fn run_case(c: &Case, scratch: &Scratch) -> Out {
    let a: Vec<&str> = c.argv.iter().map(|s| s.as_str()).collect();
    // cases of the failing-sink group carry the sink in their class
    if c.class.starts_with("sink=full") {
        return crate::cli::run_sfs_stdout_to(&a, &c.stdin, std::path::Path::new(crate::cli::private_device(true)), scratch);
    }
    // cases of the stdin group name their input by path (the case's bytes in a scratch file) and say
    // what stdin is
    if let Some(kind) = c.class.strip_prefix("stdin=") {
        let path = scratch.file(".input", &c.stdin);
        let mut b: Vec<&str> = a.clone();
        b.push(path.to_str().unwrap());
        let o = crate::cli::run_sfs_stdin_kind(&b, kind, scratch);
        let _ = std::fs::remove_file(&path);
        return o;
    }
    if c.class.starts_with("sink=closed-pipe") {
        return crate::cli::run_sfs_stdout_closed_pipe(&a, &c.stdin, scratch);
    }
    run_sfs_env(&a, Stdin::Bytes(&c.stdin), scratch, &[], &Limits { wall_s: 60, mem_bytes: 16 << 30 })
}

pub fn run(tier: Tier) -> i32 {
    let mut rep = Report::new("C17", tier, "exploration");
    rep.rule = "invocations of the real binary, all enumerated: (i) 14 statistics x every shape with 1..4 axes and lengths 1..4 (+ zero-length-axis shapes); (ii) 13 view/fold option sets x the same shapes; (iii) option values at and beyond bounds (precision, projection, marginalization axes, threads, delimiter); (iv) absurd declared shapes / header lengths in text and npy, degenerate npy shapes incl. the 0-dimensional (), and every subcommand with stdout on /dev/full and on a closed pipe; (v) every sample list of <=3 entries over 2 samples x {unlabelled, A, B} with repetition, and odd spellings; (vi) every prefix of length 0..12 of a text/npy/vcf/vcf.gz/bcf/raw-bcf file to each subcommand; (vii) the single-fault neighbourhood (every bit flip, byte deletion, truncation, huge-number substitution) of one valid text and npy file (thorough: also vcf, vcf.gz, bcf, raw bcf completely; quick samples every 5th byte of vcf and raw bcf). Oracle: exit 0, or non-zero exit with a diagnostic; never exit 101 / 'panicked at' / a signal / a timeout. Non-trivial = an input that is not a plain valid file with default options (all but the sanity rows).".into();
    let scratch = Scratch::new("c17");
    let groups = build_cases(tier);
    let mut total_incon = 0u64;
    for (name, cases) in &groups {
        let group_start = std::time::Instant::now();
        let timed = par_map(cases.len(), |i| {
            let t = std::time::Instant::now();
            let o = run_case(&cases[i], &scratch);
            (o, t.elapsed().as_secs_f64())
        });
        let group_wall = group_start.elapsed().as_secs_f64();
        let mut slowest: Vec<(f64, usize)> = timed.iter().enumerate().map(|(i, (_, t))| (*t, i)).collect();
        slowest.sort_by(|a, b| b.0.partial_cmp(&a.0).unwrap());
        let slowest: Vec<String> = slowest.iter().take(3).map(|(t, i)| format!("{:.1}s {}", t, cases[*i].what)).collect();
        let outs: Vec<Out> = timed.into_iter().map(|(o, _)| o).collect();
        let mut n_ok0 = 0u64;
        let mut n_err = 0u64;
        let mut n_viol = 0u64;
        let mut n_incon = 0u64;
        for (c, o) in cases.iter().zip(&outs) {
            match judge(o, c) {
                Verdict::Ok => {
                    if o.ok() {
                        n_ok0 += 1
                    } else {
                        n_err += 1
                    }
                }
                Verdict::Inconclusive => n_incon += 1,
                Verdict::Violation(k, w) => {
                    n_viol += 1;
                    rep.violation(k, w, case_j(c, o));
                }
            }
        }
        total_incon += n_incon;
        rep.outcome_n("exit 0", n_ok0);
        rep.outcome_n("diagnosed error", n_err);
        rep.outcome_n("panic / signal / timeout", n_viol);
        rep.part(Part {
            name: format!("cli: {name}"),
            evaluations: cases.len() as u64,
            nontrivial: cases.len() as u64,
            note: format!("{n_ok0} exit 0, {n_err} diagnosed errors, {n_viol} violations, {n_incon} inconclusive (allocation / thread-creation failure under the harness's own memory cap); {group_wall:.1}s, slowest: {}", slowest.join("; ")),
            exhaustive: true,
            extra: vec![],
        });
    }
    rep.inconclusive = total_incon;
    rep.sample(J::obj([
        ("argv", J::strs(&["stat", "-s", "fst"])),
        ("stdin", J::s("#SHAPE=<1/3>\n1 2 3\n")),
        ("expected", J::s("exit 0 or a diagnosed error; never a panic")),
    ]));
    rep.sample(J::obj([
        ("argv", J::strs(&["create", "-s", "s0=A,s0=B"])),
        ("expected", J::s("exit 0 or a diagnosed error; never a panic")),
    ]));
    rep.assumptions = vec![
        "'arbitrary input bytes' is replaced by complete single-fault neighbourhoods, all short prefixes and enumerated absurd numbers; two-fault combinations are outside the bound".into(),
        "the binary is built with overflow checks on, so silent release-mode wrap-around shows up as the arithmetic-overflow panic the statement names".into(),
        "allocation failures below 64 GiB under the harness's 16 GiB address-space cap are counted as inconclusive".into(),
    ];
    rep.finish()
}

pub fn replay(case: &J) -> Option<Vec<String>> {
    let argv: Vec<String> = case.get("argv")?.as_arr()?.iter().filter_map(|x| x.as_str().map(|s| s.to_string())).collect();
    let stdin = crate::json::j_bytes(case.get("stdin")?)?;
    let c = Case { argv, stdin: Arc::new(stdin), class: case.get("class")?.as_str()?.to_string(), what: "replayed case".into() };
    let scratch = Scratch::new("c17r");
    let o = run_case(&c, &scratch);
    println!("replay: {} stderr {:?}", o.status_str(), o.stderr_str());
    match judge(&o, &c) {
        Verdict::Violation(k, w) => Some(vec![format!("{k} :: {w}")]),
        _ => Some(vec![]),
    }
}
