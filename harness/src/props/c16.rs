//! C16 — damaged spectrum files are rejected, never read as a different spectrum.
//!
//! Fault enumeration: every truncation offset and every extension 1..16 of valid npy files;
//! every single-token deletion / insertion and every single-axis shape edit of text files.

use sfs_core::Array;

use crate::{
    cli::{run_sfs, Out, Scratch, Stdin},
    json::{bytes_j, hex, J},
    npyref::{dict_text, synth, Spelling},
    par::par_map,
    refmodel::RefArray,
    subject::text_of,
    verdict::{catch, norm_msg, Part, Report, Tier},
};

type Viol = (String, String, J);

#[derive(Clone)]
struct NpyBase {
    name: String,
    bytes: Vec<u8>,
    itemsize: usize,
}

fn npy_bases(tier: Tier) -> Vec<NpyBase> {
    let mut v = Vec::new();
    let np = Spelling::numpy();
    let shapes: Vec<Vec<usize>> = vec![
        vec![1], vec![2], vec![5], vec![9], vec![1, 1], vec![2, 3], vec![3, 3], vec![5, 1], vec![2, 2, 2],
        vec![3, 1, 2], vec![2, 3, 2, 2], vec![1, 1, 1, 1], vec![0], vec![2, 0], vec![0, 3], vec![4, 4],
    ];
    for (i, s) in shapes.iter().enumerate() {
        let n: usize = s.iter().product();
        // numpy-layout files in several dtypes / versions
        let (descr, size): (&str, usize) = [("<f8", 8), ("|u1", 1), (">i2", 2), ("<f4", 4), (">f8", 8), ("<i8", 8)][i % 6];
        let version = [1u8, 2, 3][i % 3];
        let data: Vec<u8> = (0..n * size).map(|b| (b * 7 + 1) as u8 & 0x3f).collect();
        let d = dict_text(descr, false, s, &np);
        v.push(NpyBase {
            name: format!("numpy-layout {descr} v{version} shape {s:?}"),
            bytes: synth(version, &d, &data),
            itemsize: size,
        });
        // sfs-written file of the same shape
        if n > 0 || tier.thorough() {
            let arr = Array::new((0..n).map(|x| x as f64 + 0.5).collect::<Vec<_>>(), s.clone());
            if let Ok(arr) = arr {
                let mut out = Vec::new();
                if catch(|| arr.write_npy(&mut out)).map_or(false, |r| r.is_ok()) {
                    v.push(NpyBase {
                        name: format!("sfs-written <f8 shape {s:?}"),
                        bytes: out,
                        itemsize: 8,
                    });
                }
            }
        }
    }
    // headers aligned to 16 bytes as numpy before 1.14 wrote them (preamble + header = 112 or 80
    // bytes, not a multiple of 64)
    for (i, s) in [vec![5usize], vec![2, 3], vec![7]].iter().enumerate() {
        let n: usize = s.iter().product();
        let d = dict_text("<f8", false, s, &np);
        let unpadded = 10 + d.len() + 1;
        let pad = (16 - unpadded % 16) % 16 + if (unpadded + (16 - unpadded % 16) % 16) % 64 == 0 { 16 } else { 0 };
        let header_len = d.len() + pad + 1;
        let mut bytes = b"\x93NUMPY\x01\x00".to_vec();
        bytes.extend_from_slice(&(header_len as u16).to_le_bytes());
        bytes.extend_from_slice(d.as_bytes());
        bytes.extend(std::iter::repeat(b' ').take(pad));
        bytes.push(b'\n');
        bytes.extend((0..n * 8).map(|b| (b * 3 + i) as u8 & 0x3f));
        v.push(NpyBase { name: format!("numpy-layout <f8 v1 shape {s:?} with a 16-aligned header of {} bytes", 10 + header_len), bytes, itemsize: 8 });
    }
    // unsigned and narrower integer types in both byte orders (a reader that takes the wrong item
    // size accepts some strict prefix or extension of such a file)
    for (i, (descr, size, s)) in [("<u8", 8usize, vec![5usize]), (">u8", 8, vec![2, 3]), ("<u4", 4, vec![2, 3]), (">u4", 4, vec![7]), ("<u2", 2, vec![3, 3]), ("<i4", 4, vec![2, 2, 2]), (">f4", 4, vec![5]), ("|i1", 1, vec![2, 3])].into_iter().enumerate() {
        let n: usize = s.iter().product();
        let data: Vec<u8> = (0..n * size).map(|b| (b * 11 + i) as u8 & 0x3f).collect();
        v.push(NpyBase { name: format!("numpy-layout {descr} v1 shape {s:?}"), bytes: synth(1, &dict_text(descr, false, &s, &np), &data), itemsize: size });
    }
    // column-major files of shapes for which the layout coincides with row-major (one axis, or all
    // axes but one of length one): whether or not such a file is accepted undamaged, a damaged one
    // has the wrong number of values and is invalid under every reading
    for (i, s) in [vec![5usize], vec![3], vec![1, 4], vec![4, 1], vec![1, 3, 1]].iter().enumerate() {
        let n: usize = s.iter().product();
        let (descr, size): (&str, usize) = [("<f8", 8), (">i2", 2), ("<f8", 8), ("<f4", 4), ("<i8", 8)][i];
        let data: Vec<u8> = (0..n * size).map(|b| (b * 5 + 3) as u8 & 0x3f).collect();
        v.push(NpyBase { name: format!("numpy-layout fortran-order {descr} v1 shape {s:?}"), bytes: synth(1, &dict_text(descr, true, s, &np), &data), itemsize: size });
    }
    v
}

#[derive(Clone, Copy, Debug, PartialEq)]
enum Damage {
    Truncate(usize),
    /// extension by n bytes taken from filler alphabet entry f
    Extend(usize, usize),
}

/// What the extra trailing bytes are: a byte pattern, zeros, 0xff, and the ASCII whitespace a text
/// tool would append (`echo >> file`), which a reader must not mistake for "nothing".
const FILLERS: [&str; 8] = ["pattern", "zeros", "ff", "spaces", "newlines", "crlf", "tabs", "letters"];

fn filler_byte(f: usize, i: usize) -> u8 {
    match FILLERS[f] {
        "pattern" => (i as u8).wrapping_mul(37).wrapping_add(1),
        "zeros" => 0,
        "ff" => 0xff,
        "spaces" => b' ',
        "newlines" => b'\n',
        "crlf" => [b'\r', b'\n'][i % 2],
        "tabs" => b'\t',
        _ => b'A',
    }
}

const EXT_LENGTHS: [usize; 22] = [1, 2, 3, 4, 5, 6, 7, 8, 9, 10, 11, 12, 13, 14, 15, 16, 24, 32, 40, 48, 64, 72];

fn damaged(base: &[u8], d: Damage) -> Vec<u8> {
    match d {
        Damage::Truncate(at) => base[..at].to_vec(),
        Damage::Extend(n, f) => {
            let mut v = base.to_vec();
            v.extend((0..n).map(|i| filler_byte(f, i)));
            v
        }
    }
}

fn damage_class(base: &NpyBase, d: Damage) -> String {
    match d {
        Damage::Truncate(at) => {
            let hdr = crate::npyref::strict_parse_header(&base.bytes).map(|p| p.data_offset).unwrap_or(0);
            if at < 6 {
                "truncate-in-magic".into()
            } else if at < hdr {
                "truncate-in-header".into()
            } else if (at - hdr) % base.itemsize == 0 {
                "truncate-at-value-boundary".into()
            } else {
                "truncate-inside-value".into()
            }
        }
        Damage::Extend(n, f) => {
            let ws = if matches!(FILLERS[f], "spaces" | "newlines" | "crlf" | "tabs") { ",whitespace" } else { "" };
            if n % base.itemsize == 0 {
                format!("extend-whole-values{ws}")
            } else {
                format!("extend-partial-value{ws}")
            }
        }
    }
}

fn eval_npy_lib(base: &NpyBase, d: Damage) -> Option<Viol> {
    let bytes = damaged(&base.bytes, d);
    let case = || {
        J::obj([
            ("kind", J::s("c16-npy")),
            ("base", J::s(base.name.clone())),
            ("damage", J::s(format!("{d:?}"))),
            ("file_hex", J::s(hex(&bytes))),
        ])
    };
    // an extended file whose reader fails exactly where the undamaged file would have ended (alone,
    // and behind a chunk boundary there): damaged and faulty, certainly not a spectrum
    if let Damage::Extend(..) = d {
        let end = base.bytes.len();
        let shared = std::sync::Arc::new(bytes.clone());
        for sched in [crate::seam::Schedule::whole().with_fault(end), crate::seam::Schedule::cuts(&[end]).with_fault(end), crate::seam::Schedule::periodic(7).with_fault(end)] {
            let (reader, _log) = crate::seam::ChunkedReader::new(shared.clone(), sched.clone());
            if let Ok(Ok((s, v))) = catch(move || Array::read_npy(reader).map(|a| (a.shape().to_vec(), a.as_slice().to_vec()))) {
                return Some((
                    format!("C16|lib|damaged-npy-accepted-behind-a-read-fault|{}", damage_class(base, d)),
                    format!("{} with {d:?}, read through a reader that fails at offset {end} ({}), was read as shape {s:?} values {:?}", base.name, sched.describe(), &v[..v.len().min(6)]),
                    J::obj([("kind", J::s("c16-npy")), ("base", J::s(base.name.clone())), ("damage", J::s(format!("{d:?}"))), ("file_hex", J::s(hex(&bytes))), ("fault_at", J::u(end))]),
                ));
            }
        }
    }
    match catch(|| Array::read_npy(&bytes[..]).map(|a| (a.shape().to_vec(), a.as_slice().to_vec()))) {
        Ok(Err(_)) => None,
        Ok(Ok((s, v))) => Some((
            format!("C16|lib|damaged-npy-accepted|{}", damage_class(base, d)),
            format!("{} with {d:?} was read as shape {s:?} values {:?}", base.name, &v[..v.len().min(6)]),
            case(),
        )),
        Err(p) => Some((
            format!("C16|lib|damaged-npy-panic|{}", norm_msg(&p)),
            format!("{} with {d:?} panicked: {p}", base.name),
            case(),
        )),
    }
}

const CONSUMERS: [&[&str]; 3] = [&["view"], &["fold"], &["stat", "-s", "sum"]];

fn judge_rejected(o: &Out) -> Result<(), String> {
    if o.ok() {
        return Err(format!("accepted (exit 0), stdout ({} bytes) starts {:?}", o.stdout.len(), String::from_utf8_lossy(&o.stdout[..o.stdout.len().min(200)])));
    }
    if !o.stdout.is_empty() {
        return Err(format!("{} but wrote stdout ({} bytes) starting {:?}", o.status_str(), o.stdout.len(), String::from_utf8_lossy(&o.stdout[..o.stdout.len().min(200)])));
    }
    if o.panicked() {
        return Err(format!("panicked: {}", o.panic_site()));
    }
    if !o.diagnosed_error() {
        return Err(format!("{} without a diagnostic", o.status_str()));
    }
    Ok(())
}

/// The consumers of the npy part: the three of `CONSUMERS` reading stdin, and three that are given
/// the file by path (`{PATH}`), among them the conversion that could copy its input through unread.
const ALL_CONSUMERS: [&[&str]; 6] = [&["view"], &["fold"], &["stat", "-s", "sum"], &["view", "-O", "npy", "{PATH}"], &["view", "{PATH}"], &["fold", "{PATH}"]];

/// Runs a consumer on `input`: on stdin, or - where the command line holds `{PATH}` - from a file.
fn run_consumer(consumer: &[&str], input: &[u8], scratch: &Scratch) -> Out {
    if consumer.contains(&"{PATH}") {
        let path = scratch.file(".input", input);
        let a: Vec<&str> = consumer.iter().map(|x| if *x == "{PATH}" { path.to_str().unwrap() } else { *x }).collect();
        let o = run_sfs(&a, Stdin::Null, scratch);
        let _ = std::fs::remove_file(&path);
        o
    } else {
        run_sfs(consumer, Stdin::Bytes(input), scratch)
    }
}

fn eval_cli(input: &[u8], consumer: &[&str], what: &str, class: &str, scratch: &Scratch) -> Option<Viol> {
    let o = run_consumer(consumer, input, scratch);
    match judge_rejected(&o) {
        Ok(()) => None,
        Err(e) => {
            let kind = if o.ok() || !o.stdout.is_empty() {
                "damaged-accepted".to_string()
            } else if o.panicked() {
                format!("damaged-panic|{}", o.panic_site())
            } else {
                "damaged-undiagnosed".to_string()
            };
            Some((
                format!("C16|cli|{kind}|{}{}|{class}", consumer[0], if consumer.contains(&"{PATH}") { ",by-path" } else { "" }),
                format!("sfs {} on {what}: {e}", consumer.join(" ")),
                J::obj([
                    ("kind", J::s("c16-cli")),
                    ("argv", J::strs(consumer)),
                    ("stdin", bytes_j(input)),
                    ("what", J::s(what)),
                    ("class", J::s(class)),
                ]),
            ))
        }
    }
}

/// A 1-D npy file as sfs writes it whose total length is `total` bytes (`total` = 128 mod 8 header
/// plus values), then damaged: `delta` > 0 appends that many filler bytes, `delta` < 0 cuts.
fn sized_npy(total: usize, delta: i64) -> Vec<u8> {
    let n_vals = (total - 128) / 8;
    let arr = Array::new((0..n_vals).map(|x| (x % 1000) as f64 + 0.5).collect::<Vec<_>>(), vec![n_vals]).expect("shape");
    let mut v = Vec::with_capacity(total + 64);
    arr.write_npy(&mut v).expect("write");
    drop(arr);
    assert_eq!(v.len(), 128 + 8 * n_vals, "header of a 1-D npy file is 128 bytes");
    if delta >= 0 {
        v.extend((0..delta as usize).map(|i| filler_byte(0, i)));
    } else {
        v.truncate(v.len() - (-delta) as usize);
    }
    v
}

fn eval_sized(total: usize, delta: i64, consumer: usize, scratch: &Scratch) -> Option<Viol> {
    let v = sized_npy(total, delta);
    let what = format!("a {}-byte npy file {} {} bytes", 128 + 8 * ((total - 128) / 8), if delta >= 0 { "followed by" } else { "cut short by" }, delta.abs());
    eval_cli(&v, CONSUMERS[consumer], &what, "size-ladder", scratch).map(|(k, w, _)| {
        (k, w, J::obj([("kind", J::s("c16-sized")), ("total", J::u(total)), ("delta", J::Int(delta)), ("consumer", J::u(consumer))]))
    })
}

// ---- text damage ----------------------------------------------------------------------------

#[derive(Clone, Debug)]
struct TextCase {
    text: String,
    what: String,
    class: &'static str,
    /// token count == product of the (edited) shape: the edit is consistent and legitimately accepted
    consistent: bool,
}

fn text_cases(shapes: &[Vec<usize>]) -> Vec<TextCase> {
    let mut out = Vec::new();
    for s in shapes {
        let x = RefArray::from_fn(s, |f, _| f as f64 + 1.0);
        let toks: Vec<String> = x.data.iter().map(|v| format!("{v:.2}")).collect();
        let header = |sh: &[usize]| format!("#SHAPE=<{}>", sh.iter().map(|n| n.to_string()).collect::<Vec<_>>().join("/"));
        let render = |sh: &[usize], t: &[String]| format!("{}\n{}\n", header(sh), t.join(" "));
        let prod = |sh: &[usize]| sh.iter().product::<usize>();
        // deletion of one token
        for i in 0..toks.len() {
            let mut t = toks.clone();
            t.remove(i);
            out.push(TextCase {
                text: render(s, &t),
                what: format!("shape {s:?}: value token {i} deleted"),
                class: "token-deleted",
                consistent: t.len() == prod(s),
            });
        }
        // insertion of one token at every position
        for i in 0..=toks.len() {
            let mut t = toks.clone();
            t.insert(i, "7.00".to_string());
            out.push(TextCase {
                text: render(s, &t),
                what: format!("shape {s:?}: value token inserted at {i}"),
                class: "token-inserted",
                consistent: false,
            });
        }
        // a surplus of k values for every k up to twice the declared count (whole surplus rows and
        // multiples of every axis length among them)
        for k in 2..=2 * toks.len() {
            let mut t = toks.clone();
            t.extend((0..k).map(|i| format!("{}.00", 7 + i % 3)));
            out.push(TextCase { text: render(s, &t), what: format!("shape {s:?}: {k} surplus value tokens appended"), class: "surplus-tokens", consistent: false });
        }
        // surplus or missing values that sit on a later line than the first value line
        let line = toks.join(" ");
        let later: Vec<(String, String)> = vec![
            (format!("{}\n{line}\n7.00\n", header(s)), "one surplus token on a third line".into()),
            (format!("{}\n{line}\n7.00", header(s)), "one surplus token on a third line, no final newline".into()),
            (format!("{}\n{line}\n\n7.00 8.00\n", header(s)), "two surplus tokens after a blank line".into()),
            (format!("{}\n{line}\n{line}\n", header(s)), "value line duplicated".into()),
            (format!("{}\n{line}\n{}\n{line}\n", header(s), header(s)), "whole spectrum concatenated twice".into()),
            (format!("{}\n{}\n{}\n", header(s), toks[..toks.len() / 2].join(" "), toks[toks.len() / 2..].iter().skip(1).cloned().collect::<Vec<_>>().join(" ")), "values over two lines, one of them deleted".into()),
        ];
        for (text, desc) in later {
            out.push(TextCase { text, what: format!("shape {s:?}: {desc}"), class: "surplus-on-later-line", consistent: false });
        }
        // values laid out over several lines (one line per index of the first axis; a single axis
        // split in two) with surplus tokens at line ends: 1..rows of them, with LF and CRLF line ends
        {
            let rows = if s.len() >= 2 { s[0] } else { 2 };
            let per = (toks.len() + rows - 1) / rows.max(1);
            if rows >= 2 && per >= 1 && toks.len() >= 2 {
                let lines: Vec<Vec<String>> = toks.chunks(per).map(|c| c.to_vec()).collect();
                for k in 1..=lines.len() {
                    for first in 0..lines.len() {
                        if k > 1 && first > 0 {
                            continue;
                        }
                        let mut l = lines.clone();
                        for j in 0..k {
                            let at = (first + j) % lines.len();
                            l[at].push(format!("{}", 7 + j));
                        }
                        for (nl, nl_name) in [("\n", "LF"), ("\r\n", "CRLF")] {
                            let body: Vec<String> = l.iter().map(|t| t.join(" ")).collect();
                            out.push(TextCase {
                                text: format!("{}{nl}{}{nl}", header(s), body.join(nl)),
                                what: format!("shape {s:?}: values over {} lines ({nl_name}), {k} surplus token(s) at line ends starting with line {first}", lines.len()),
                                class: "surplus-at-line-ends",
                                consistent: false,
                            });
                        }
                    }
                }
            }
        }
        // shape edits: +-1 per axis, axis appended / prepended / removed
        let mut edits: Vec<(Vec<usize>, String)> = Vec::new();
        for a in 0..s.len() {
            let mut e = s.clone();
            e[a] += 1;
            edits.push((e, format!("axis {a} +1")));
            if s[a] > 1 {
                let mut e = s.clone();
                e[a] -= 1;
                edits.push((e, format!("axis {a} -1")));
            }
            if s.len() > 1 {
                let mut e = s.clone();
                e.remove(a);
                edits.push((e, format!("axis {a} removed")));
            }
            // zeros typed behind an axis length
            for f in [10usize, 100] {
                let mut e = s.clone();
                e[a] *= f;
                edits.push((e, format!("axis {a} x{f}")));
            }
        }
        for extra in [1usize, 2, 3] {
            let mut e = s.clone();
            e.push(extra);
            edits.push((e, format!("axis of length {extra} appended")));
            let mut e = s.clone();
            e.insert(0, extra);
            edits.push((e, format!("axis of length {extra} prepended")));
        }
        if s.len() == 2 {
            edits.push((vec![s[1], s[0]], "axes swapped".into()));
        }
        // an axis spelled so that it is not an unsigned integer - appended, prepended, or in place of an
        // axis: the header is damaged whatever the remaining axes multiply to
        // (only spellings that contain digits and stay unparsable after the reader has trimmed the
        // non-numeric characters around the list: `+`, a word or a trailing dot are trimmed away with the
        // brackets, which leaves the original shape - not a different spectrum)
        for bad in ["2.0", "1e1", "0x2", "18446744073709551616", "1_0", "3.0", "2e1"] {
            let axes: Vec<String> = s.iter().map(|n| n.to_string()).collect();
            let mut variants: Vec<(Vec<String>, String)> = Vec::new();
            let mut v = axes.clone();
            v.push(bad.to_string());
            variants.push((v, format!("axis '{bad}' appended")));
            let mut v = axes.clone();
            v.insert(0, bad.to_string());
            variants.push((v, format!("axis '{bad}' prepended")));
            for a in 0..axes.len() {
                let mut v = axes.clone();
                v[a] = bad.to_string();
                variants.push((v, format!("axis {a} replaced by '{bad}'")));
            }
            for (v, desc) in variants {
                out.push(TextCase { text: format!("#SHAPE=<{}>\n{}\n", v.join("/"), toks.join(" ")), what: format!("shape {s:?}: {desc}"), class: "shape-unparsable-axis", consistent: false });
            }
        }
        for (e, desc) in edits {
            out.push(TextCase {
                text: render(&e, &toks),
                what: format!("shape {s:?}: header edited to {e:?} ({desc})"),
                class: "shape-edited",
                consistent: toks.len() == prod(&e),
            });
        }
    }
    out
}

pub fn run(tier: Tier) -> i32 {
    let mut rep = Report::new("C16", tier, "fault_enumeration");
    rep.rule = "npy: for every base file (numpy-layout files in 6 dtypes / 3 versions and sfs-written files, 16 shapes incl. 1-cell and 0-cell) every strict prefix (offset 0..len-1) and every extension by 1..16, 24..72 bytes (whole surplus values and rows) of 8 byte kinds incl. ASCII whitespace must be rejected by Array::read_npy; through the binary, every such damage of selected files for view/fold/stat must exit non-zero by a diagnosed error with empty stdout. text: every single-token deletion, every single-token insertion and every single-axis header edit; rejected iff the token count differs from the product of the declared shape (consistent edits are counted separately). Non-trivial = damage that leaves a well-formed header (truncation in the data, extension, token edits).".into();

    let bases = npy_bases(tier);
    let mut cases: Vec<(usize, Damage)> = Vec::new();
    for (bi, b) in bases.iter().enumerate() {
        for at in 0..b.bytes.len() {
            cases.push((bi, Damage::Truncate(at)));
        }
        for n in EXT_LENGTHS {
            for f in 0..FILLERS.len() {
                cases.push((bi, Damage::Extend(n, f)));
            }
        }
    }
    let res = par_map(cases.len(), |i| eval_npy_lib(&bases[cases[i].0], cases[i].1));
    let mut nt = 0u64;
    for ((bi, d), v) in cases.iter().zip(res) {
        let cls = damage_class(&bases[*bi], *d);
        if !cls.contains("header") && !cls.contains("magic") {
            nt += 1;
        }
        rep.outcome(format!("npy {cls}: {}", if v.is_none() { "rejected" } else { "NOT rejected" }));
        if let Some((k, w, j)) = v {
            rep.violation(k, w, j);
        }
    }
    rep.part(Part {
        name: "lib: npy truncations and extensions".into(),
        evaluations: cases.len() as u64,
        nontrivial: nt,
        note: format!("{} base files, every prefix and every extension by 1..16, 24, 32, 40, 48, 64, 72 bytes of 8 kinds (byte pattern, zeros, 0xff, spaces, newlines, CRLF, tabs, letters)", bases.len()),
        exhaustive: true,
        extra: vec![],
    });
    rep.sample(J::obj([
        ("base", J::s(bases[3].name.clone())),
        ("damage", J::s("Truncate(137)")),
        ("expected", J::s("Array::read_npy returns Err")),
    ]));

    // L2 npy
    let scratch = Scratch::new("c16");
    let pick: Vec<usize> = if tier.thorough() {
        (0..bases.len()).collect()
    } else {
        let names = ["sfs-written <f8 shape [5]", "sfs-written <f8 shape [2, 3]", "numpy-layout |u1 v2 shape [2]", "numpy-layout <f4 v1 shape [9]"];
        (0..bases.len()).filter(|i| names.contains(&bases[*i].name.as_str())).collect()
    };
    let mut cli_cases: Vec<(usize, Damage, usize)> = Vec::new();
    for &bi in &pick {
        for at in 0..bases[bi].bytes.len() {
            for c in 0..ALL_CONSUMERS.len() {
                cli_cases.push((bi, Damage::Truncate(at), c));
            }
        }
        for n in EXT_LENGTHS {
            for f in 0..FILLERS.len() {
                for c in 0..ALL_CONSUMERS.len() {
                    if tier.thorough() || n <= 16 || f == 0 || (n + f + c) % 3 == 0 {
                        cli_cases.push((bi, Damage::Extend(n, f), c));
                    }
                }
            }
        }
    }
    let res = par_map(cli_cases.len(), |i| {
        let (bi, d, c) = cli_cases[i];
        let bytes = damaged(&bases[bi].bytes, d);
        eval_cli(&bytes, ALL_CONSUMERS[c], &format!("{} with {d:?}", bases[bi].name), &damage_class(&bases[bi], d), &scratch)
    });
    let mut nt = 0;
    for ((bi, d, _), v) in cli_cases.iter().zip(res) {
        let cls = damage_class(&bases[*bi], *d);
        if !cls.contains("header") && !cls.contains("magic") {
            nt += 1;
        }
        if let Some((k, w, j)) = v {
            rep.violation(k, w, j);
        }
    }
    rep.part(Part {
        name: "cli: damaged npy through view/fold/stat".into(),
        evaluations: cli_cases.len() as u64,
        nontrivial: nt,
        note: format!("{} base files x every prefix / extension x 3 consumers", pick.len()),
        exhaustive: true,
        extra: vec![],
    });

    // a file of 160 KiB (beyond the 64 KiB block sizes of readers): truncations and extensions around every
    // multiple of 4 096 and 65 536 bytes from both ends, every value boundary near them, and a coarse grid
    {
        let n_vals = 20_000usize;
        let arr = Array::new((0..n_vals).map(|x| x as f64 + 0.5).collect::<Vec<_>>(), vec![n_vals]).expect("shape");
        let mut big = Vec::new();
        arr.write_npy(&mut big).expect("write");
        let len = big.len();
        let mut offs: std::collections::BTreeSet<usize> = Default::default();
        for k in 0..=len / 4096 {
            for base in [k * 4096, len.saturating_sub(k * 4096), 128 + k * 4096, 128 + k * 65_536, len.saturating_sub(k * 65_536)] {
                for d in 0..=9usize {
                    for o in [base.saturating_sub(d), base + d] {
                        if o < len {
                            offs.insert(o);
                        }
                    }
                }
            }
        }
        for o in (0..len).step_by(997) {
            offs.insert(o);
        }
        // the prefix that keeps exactly N - 8192 values, N - 16384 values, ...
        for k in 1..=2usize {
            offs.insert(len - k * 65_536);
        }
        let offs: Vec<usize> = offs.into_iter().collect();
        let res = par_map(offs.len(), |i| {
            let at = offs[i];
            let r = catch(|| Array::read_npy(&big[..at]).map(|a| a.shape().to_vec()));
            match r {
                Ok(Err(_)) => None,
                other => Some((
                    "C16|lib|damaged-accepted|big-file-truncated".to_string(),
                    format!("the first {at} of {len} bytes of a 20 000-value npy file: read_npy returned {other:?}, expected an error"),
                    J::obj([("kind", J::s("c16-big")), ("truncate_at", J::u(at))]),
                )),
            }
        });
        for v in res.into_iter().flatten() {
            rep.violation(v.0, v.1, v.2);
        }
        let mut n_ext = 0u64;
        for n in EXT_LENGTHS {
            for f in [0usize, 1, 4] {
                n_ext += 1;
                let mut v = big.clone();
                v.extend((0..n).map(|i| filler_byte(f, i)));
                if !matches!(catch(|| Array::read_npy(&v[..]).map(|a| a.shape().to_vec())), Ok(Err(_))) {
                    rep.violation("C16|lib|damaged-accepted|big-file-extended", format!("a 20 000-value npy file followed by {n} bytes ({}) is accepted", FILLERS[f]), J::obj([("kind", J::s("c16-big")), ("extend", J::u(n)), ("filler", J::u(f))]));
                }
            }
        }
        // through the binary: a few of the truncations and all extension lengths
        let mut cj: Vec<(Vec<u8>, usize, String)> = Vec::new();
        for at in [len - 1, len - 8, len - 65_536, len - 65_536 - 8, 128 + 65_536, 128 + 65_535, 128 + 8192 * 8, 4096, 129] {
            for c in 0..3 {
                cj.push((big[..at].to_vec(), c, format!("20 000-value npy file truncated to {at} bytes")));
            }
        }
        for n in [1usize, 7, 8, 16, 4096] {
            let mut v = big.clone();
            v.extend((0..n).map(|i| filler_byte(0, i)));
            for c in 0..3 {
                cj.push((v.clone(), c, format!("20 000-value npy file + {n} bytes")));
            }
        }
        let res = par_map(cj.len(), |i| eval_cli(&cj[i].0, CONSUMERS[cj[i].1], &cj[i].2, "big-file", &scratch));
        for v in res.into_iter().flatten() {
            // keep replay records small
            rep.violation(v.0, v.1, J::obj([("kind", J::s("c16-big-cli"))]));
        }
        rep.part(Part {
            name: "lib+cli: a 160 KiB npy file".into(),
            evaluations: offs.len() as u64 + n_ext + cj.len() as u64,
            nontrivial: offs.len() as u64 + n_ext + cj.len() as u64,
            note: format!("20 000 values: {} truncation offsets (within 9 bytes of every multiple of 4 096 / 65 536 from both ends and from the data start, plus every 997th), {} extensions, {} runs of view/fold/stat", offs.len(), n_ext, cj.len()),
            exhaustive: true,
            extra: vec![],
        });
    }

    // the constructors behind the readers: a value count that is not the product of the shape is an
    // error for every one of them, whatever way the values arrive
    {
        use sfs_core::Scs;
        let mut shapes_c: Vec<Vec<usize>> = crate::enumerate::shapes(3, 1, 4, usize::MAX);
        shapes_c.extend([vec![], vec![0], vec![2, 0], vec![0, 3], vec![1, 1, 1, 1]]);
        let mut n = 0u64;
        for sh in &shapes_c {
            let product: usize = sh.iter().product();
            let mut counts = vec![product, product + 1, product + 7, 2 * product + 1, product.saturating_sub(1), 0];
            counts.sort();
            counts.dedup();
            for count in counts {
                n += 1;
                let want_ok = count == product;
                let r = catch(|| {
                    let a = Array::new(vec![0.5f64; count], sh.clone()).is_ok();
                    let b = Array::from_iter((0..count).map(|i| i as f64), sh.clone()).is_ok();
                    let c = Scs::new(vec![0.5f64; count], sh.clone()).is_ok();
                    let d = Scs::from_range(0..count, sh.clone()).is_ok();
                    (a, b, c, d)
                });
                if !matches!(r, Ok((a, b, c, d)) if a == want_ok && b == want_ok && c == want_ok && d == want_ok) {
                    rep.violation(
                        format!("C16|lib|constructor-count|{}", if sh.is_empty() { "no-axes" } else if count > product { "surplus" } else { "other" }),
                        format!("{count} values for shape {sh:?} (product {product}): Array::new / Array::from_iter / Scs::new / Scs::from_range accepted = {r:?}, expected all {want_ok}"),
                        J::obj([("kind", J::s("c16-constructor")), ("shape", J::usizes(sh)), ("count", J::u(count))]),
                    );
                }
            }
        }
        rep.part(Part {
            name: "lib: constructors count their values".into(),
            evaluations: n,
            nontrivial: n,
            note: format!("{} shapes (1..3 axes of lengths 1..4, no axes, zero-length axes) x value counts {{product, +1, +7, 2x+1, -1, 0}}: Array::new, Array::from_iter, Scs::new and Scs::from_range accept exactly the product", shapes_c.len()),
            exhaustive: true,
            extra: vec![],
        });
    }
    // file-size ladder: valid files whose length sits at, just below and just above a power of two
    // (buffer sizes, read limits), each with bytes appended or cut off
    {
        let exps: Vec<u32> = if tier.thorough() { vec![13, 16, 17, 20, 22, 24, 25, 26, 27, 28] } else { vec![13, 16, 20, 24, 26] };
        let mut jobs: Vec<(usize, i64, usize)> = Vec::new();
        for &e in &exps {
            let c = 1usize << e;
            for total in [c - 8, c, c + 8] {
                for delta in [1i64, 8, 16, -1, -8] {
                    // all three consumers up to 16 MiB; above that `stat` for every damage and all three
                    // for the appended value
                    for consumer in 0..3 {
                        if e > 24 && consumer != 2 && delta != 8 {
                            continue;
                        }
                        jobs.push((total, delta, consumer));
                    }
                }
            }
        }
        if !tier.thorough() {
            // beyond the quick ladder: the appended value at 128 and 256 MiB through `stat`
            jobs.push((1 << 27, 8, 2));
            jobs.push((1 << 28, 8, 2));
        }
        // the largest files run four at a time (each holds the file and the child's copy of it)
        let (small, large): (Vec<_>, Vec<_>) = jobs.iter().cloned().partition(|j| j.0 < (1 << 25));
        let mut res: Vec<Option<Viol>> = par_map(small.len(), |i| eval_sized(small[i].0, small[i].1, small[i].2, &scratch));
        for chunk in large.chunks(4) {
            res.extend(par_map(chunk.len(), |i| eval_sized(chunk[i].0, chunk[i].1, chunk[i].2, &scratch)));
        }
        for v in res.into_iter().flatten() {
            rep.violation(v.0, v.1, v.2);
        }
        rep.part(Part {
            name: "cli: file-size ladder".into(),
            evaluations: jobs.len() as u64,
            nontrivial: jobs.len() as u64,
            note: format!("1-D npy files of 2^e - 8, 2^e and 2^e + 8 bytes for e in {exps:?}, each followed by 1 / 8 / 16 bytes or cut short by 1 / 8 bytes, through view / fold / stat (above 16 MiB: stat for every damage, all three for the appended value; quick also 128 and 256 MiB files with 8 bytes appended through stat): all rejected without output"),
            exhaustive: true,
            extra: vec![],
        });
    }

    // declared shapes whose product overflows 64 bits and is congruent to the number of values modulo 2^64
    {
        let np = Spelling::numpy();
        let mut oj: Vec<(Vec<u8>, String)> = vec![
            (b"#SHAPE=<4294967296/4294967296>\n\n".to_vec(), "text shape 2^32 x 2^32 with no values".into()),
            (b"#SHAPE=<3689348814741910325/5>\n1 2 3 4 5 6 7 8 9\n".to_vec(), "text shape with product 2^64 + 9 and 9 values".into()),
            (b"#SHAPE=<6148914691236517206/3>\n1 2\n".to_vec(), "text shape with product 2^64 + 2 and 2 values".into()),
            (b"#SHAPE=<18446744073709551615/18446744073709551615>\n1\n".to_vec(), "text shape (2^64-1)^2 with 1 value".into()),
        ];
        oj.push((synth(1, &dict_text("<f8", false, &[4_294_967_296, 4_294_967_296], &np), &[]), "npy shape 2^32 x 2^32 without data".into()));
        oj.push((synth(1, &dict_text("<f8", false, &[6_148_914_691_236_517_206, 3], &np), &[0u8; 16]), "npy shape with product 2^64 + 2 and 2 values".into()));
        let mut n = 0u64;
        for (bytes, what) in &oj {
            for c in 0..3 {
                n += 1;
                if let Some((k, w, j)) = eval_cli(bytes, CONSUMERS[c], what, "overflowing-shape", &scratch) {
                    rep.violation(k, w, j);
                }
            }
        }
        rep.part(Part {
            name: "cli: shapes whose product overflows to the value count".into(),
            evaluations: n,
            nontrivial: n,
            note: "text and npy headers whose shape product is 2^64 + (number of values): rejected by view, fold and stat".into(),
            exhaustive: true,
            extra: vec![],
        });
    }

    // the same damage arriving through a pipe in two writes (the valid file first, the surplus after a
    // pause), and with verbosity flags: rejection must not depend on either
    {
        use crate::cli::run_sfs_piped;
        let mut xj: Vec<(usize, usize, usize, usize)> = Vec::new(); // base, ext len, filler, consumer
        for &bi in &pick {
            if bases[bi].bytes.is_empty() {
                continue;
            }
            for n in [1usize, 3, 8, 16] {
                for f in [0usize, 4] {
                    for c in 0..3 {
                        xj.push((bi, n, f, c));
                    }
                }
            }
        }
        let res = par_map(xj.len(), |i| {
            let (bi, n, f, c) = xj[i];
            let whole = damaged(&bases[bi].bytes, Damage::Extend(n, f));
            let cut = bases[bi].bytes.len();
            let o = run_sfs_piped(CONSUMERS[c], &[&whole[..cut], &whole[cut..]], 40, &scratch);
            judge_rejected(&o).err().map(|e| {
                (
                    format!("C16|cli|damaged-accepted-from-pipe|{}", CONSUMERS[c][0]),
                    format!("sfs {} reading {} + {n} surplus bytes ({}) from a pipe in two writes: {e}", CONSUMERS[c].join(" "), bases[bi].name, FILLERS[f]),
                    J::obj([("kind", J::s("c16-pipe")), ("argv", J::strs(CONSUMERS[c])), ("stdin", bytes_j(&whole)), ("cut", J::u(cut))]),
                )
            })
        });
        for v in res.into_iter().flatten() {
            rep.violation(v.0, v.1, v.2);
        }
        let flags = ["-q", "-qq", "-v", "-vv"];
        let mut fj: Vec<(usize, Damage, usize, usize)> = Vec::new();
        for &bi in pick.iter().take(2) {
            let len = bases[bi].bytes.len();
            for d in [Damage::Truncate(len - 1), Damage::Truncate(len / 2), Damage::Truncate(7), Damage::Extend(8, 0), Damage::Extend(3, 4)] {
                for c in 0..3 {
                    for f in 0..flags.len() {
                        fj.push((bi, d, c, f));
                    }
                }
            }
        }
        let res2 = par_map(fj.len(), |i| {
            let (bi, d, c, f) = fj[i];
            let bytes = damaged(&bases[bi].bytes, d);
            let mut args: Vec<&str> = CONSUMERS[c].to_vec();
            args.push(flags[f]);
            let o = run_sfs(&args, Stdin::Bytes(&bytes), &scratch);
            // (a quiet flag may silence the message; the exit status and the empty stdout may not change)
            if !o.ok() && o.stdout.is_empty() && !o.panicked() && o.code.is_some() {
                None
            } else {
                Some((
                    format!("C16|cli|damaged-accepted-with-flag|{}|{}", CONSUMERS[c][0], flags[f]),
                    format!("sfs {} on {} with {d:?}: {} stdout {:?}", args.join(" "), bases[bi].name, o.status_str(), o.stdout_str()),
                    J::obj([("kind", J::s("c16-flag")), ("argv", J::strs(&args)), ("stdin", bytes_j(&bytes))]),
                ))
            }
        });
        for v in res2.into_iter().flatten() {
            rep.violation(v.0, v.1, v.2);
        }
        rep.part(Part {
            name: "cli: damaged files with verbosity flags".into(),
            evaluations: fj.len() as u64,
            nontrivial: fj.len() as u64,
            note: "truncations and extensions of two files x view/fold/stat x {-q,-qq,-v,-vv}: the run must still fail with empty stdout".into(),
            exhaustive: true,
            extra: vec![],
        });
        let was_exhaustive = rep.exhaustive;
        rep.part(Part {
            name: "cli: surplus bytes arriving through a pipe in a second write".into(),
            evaluations: xj.len() as u64,
            nontrivial: xj.len() as u64,
            note: "the valid npy file written first, 1/3/8/16 surplus bytes (pattern, newlines) after a 40 ms pause: still rejected (end-to-end confirmation; arrival timing is OS-dependent)".into(),
            exhaustive: false,
            extra: vec![],
        });
        rep.exhaustive = was_exhaustive; // the pipe runs are a confirmation; the deciding enumerations are complete
    }

    // text
    let tshapes: Vec<Vec<usize>> = if tier.thorough() {
        vec![vec![1], vec![2], vec![5], vec![2, 2], vec![2, 3], vec![3, 3], vec![3, 5], vec![1, 4], vec![2, 3, 2], vec![3, 2, 2], vec![2, 2, 2, 2], vec![3, 1, 2, 2]]
    } else {
        vec![vec![1], vec![5], vec![2, 3], vec![3, 3], vec![3, 5], vec![2, 3, 2], vec![2, 2, 2, 2]]
    };
    let tcases = text_cases(&tshapes);
    let consumers_for = |i: usize| -> Vec<usize> {
        if tier.thorough() || i % 3 == 0 {
            vec![0, 1, 2]
        } else {
            vec![0, 2]
        }
    };
    let mut jobs: Vec<(usize, usize)> = Vec::new();
    for i in 0..tcases.len() {
        for c in consumers_for(i) {
            jobs.push((i, c));
        }
    }
    let res = par_map(jobs.len(), |j| {
        let (i, c) = jobs[j];
        let t = &tcases[i];
        if t.consistent {
            // legitimately accepted: only require "no panic"
            let o = run_sfs(CONSUMERS[c], Stdin::Bytes(t.text.as_bytes()), &scratch);
            if o.panicked() {
                return (true, Some((
                    format!("C16|cli|consistent-edit-panic|{}|{}", CONSUMERS[c][0], o.panic_site()),
                    format!("sfs {} on {}: panicked", CONSUMERS[c].join(" "), t.what),
                    J::obj([("kind", J::s("c16-cli")), ("argv", J::strs(CONSUMERS[c])), ("stdin", J::s(t.text.clone())), ("class", J::s("consistent"))]),
                )));
            }
            (true, None)
        } else {
            (false, eval_cli(t.text.as_bytes(), CONSUMERS[c], &t.what, t.class, &scratch))
        }
    });
    let mut consistent = 0u64;
    let mut n_inconsistent = 0u64;
    for ((i, _), (cons, v)) in jobs.iter().zip(res) {
        if cons {
            consistent += 1;
        } else {
            n_inconsistent += 1;
        }
        rep.outcome(format!("text {}: {}", tcases[*i].class, if cons { "consistent edit (accepted legitimately)" } else if v.is_none() { "rejected" } else { "NOT rejected" }));
        if let Some((k, w, j)) = v {
            rep.violation(k, w, j);
        }
    }
    rep.part(Part {
        name: "cli: damaged text files".into(),
        evaluations: jobs.len() as u64,
        nontrivial: n_inconsistent,
        note: format!("{} shapes: every token deletion / insertion / header edit, every surplus of 2..2n tokens, surplus values on later lines (third line, duplicated value line, concatenated spectra); {} runs were consistent edits excluded from the rejection oracle", tshapes.len(), consistent),
        exhaustive: true,
        extra: vec![("consistent_edits".into(), J::Int(consistent as i64))],
    });
    rep.sample(J::obj([
        ("text", J::s(tcases[tcases.len() / 2].text.clone())),
        ("what", J::s(tcases[tcases.len() / 2].what.clone())),
        ("expected", J::s("non-zero exit, diagnostic on stderr, empty stdout")),
    ]));
    rep.assumptions = vec!["numpy file layout reproduced by harness/src/npyref.rs::synth".into()];
    rep.finish()
}

pub fn replay(case: &J) -> Option<Vec<String>> {
    match case.get("kind")?.as_str()? {
        "c16-npy" => {
            let bytes = crate::json::unhex(case.get("file_hex")?.as_str()?)?;
            if let Some(end) = case.get("fault_at").and_then(|x| x.as_i64()).map(|x| x as usize) {
                let shared = std::sync::Arc::new(bytes.clone());
                let mut out = Vec::new();
                for sched in [crate::seam::Schedule::whole().with_fault(end), crate::seam::Schedule::cuts(&[end]).with_fault(end), crate::seam::Schedule::periodic(7).with_fault(end)] {
                    let (reader, _log) = crate::seam::ChunkedReader::new(shared.clone(), sched.clone());
                    if let Ok(Ok(s)) = catch(move || Array::read_npy(reader).map(|a| a.shape().to_vec())) {
                        out.push(format!("C16|lib|damaged-npy-accepted-behind-a-read-fault :: {} gives shape {s:?}", sched.describe()));
                    }
                }
                return Some(out);
            }
            let r = catch(|| Array::read_npy(&bytes[..]).map(|a| a.shape().to_vec()));
            match r {
                Ok(Err(_)) => Some(vec![]),
                other => Some(vec![format!("C16|lib|damaged-npy :: read_npy returned {other:?}, expected Err")]),
            }
        }
        "c16-sized" => {
            let scratch = Scratch::new("c16r");
            Some(eval_sized(case.get("total")?.as_i64()? as usize, case.get("delta")?.as_i64()?, case.get("consumer")?.as_i64()? as usize, &scratch).into_iter().map(|(k, w, _)| format!("{k} :: {w}")).collect())
        }
        "c16-pipe" => {
            let argv: Vec<String> = case.get("argv")?.as_arr()?.iter().filter_map(|x| x.as_str().map(|s| s.to_string())).collect();
            let a: Vec<&str> = argv.iter().map(|s| s.as_str()).collect();
            let whole = crate::json::j_bytes(case.get("stdin")?)?;
            let cut = (case.get("cut")?.as_i64()? as usize).min(whole.len());
            let scratch = Scratch::new("c16r");
            let o = crate::cli::run_sfs_piped(&a, &[&whole[..cut], &whole[cut..]], 40, &scratch);
            Some(judge_rejected(&o).err().map(|e| format!("C16|cli|damaged-accepted-from-pipe :: {e}")).into_iter().collect())
        }
        "c16-flag" => {
            let argv: Vec<String> = case.get("argv")?.as_arr()?.iter().filter_map(|x| x.as_str().map(|s| s.to_string())).collect();
            let a: Vec<&str> = argv.iter().map(|s| s.as_str()).collect();
            let bytes = crate::json::j_bytes(case.get("stdin")?)?;
            let scratch = Scratch::new("c16r");
            let o = run_sfs(&a, Stdin::Bytes(&bytes), &scratch);
            Some(if !o.ok() && o.stdout.is_empty() && !o.panicked() { vec![] } else { vec![format!("C16|cli|damaged-accepted-with-flag :: {} {:?}", o.status_str(), o.stdout_str())] })
        }
        "c16-cli" => {
            let argv: Vec<String> = case.get("argv")?.as_arr()?.iter().filter_map(|x| x.as_str().map(|s| s.to_string())).collect();
            let a: Vec<&str> = argv.iter().map(|s| s.as_str()).collect();
            let stdin = crate::json::j_bytes(case.get("stdin")?).or_else(|| case.get("stdin")?.as_str().map(|s| s.as_bytes().to_vec()))?;
            let scratch = Scratch::new("c16r");
            let consistent = case.get("class").and_then(|c| c.as_str()) == Some("consistent");
            let o = run_consumer(&a, &stdin, &scratch);
            if consistent {
                return Some(if o.panicked() { vec![format!("panicked: {}", o.panic_site())] } else { vec![] });
            }
            match judge_rejected(&o) {
                Ok(()) => Some(vec![]),
                Err(e) => Some(vec![format!("C16|cli :: {e}")]),
            }
        }
        _ => None,
    }
}
