//! C12 — output depends only on call data, not container, transport, threads or run.

use std::{
    collections::BTreeSet,
    io::Cursor,
    num::NonZeroUsize,
};

use sfs_core::input::{genotype, sample, sample::Population};

use crate::{
    cli::{run_sfs, run_sfs_piped, Out, Scratch, Stdin},
    createmodel::{build_site_reader, run_reader, Cls},
    gen::{all_layouts, render, CallSet, Container, Layout},
    json::J,
    par::par_map,
    verdict::{catch, Part, Report, Tier},
};

type Viol = (String, String, J);

fn small_call_sets() -> Vec<(&'static str, CallSet)> {
    let mut out = Vec::new();
    // (a) complete data, 3 samples
    let mut a = CallSet::new(3);
    for i in 0..12usize {
        let gts: Vec<&str> = (0..3).map(|j| [Cls::G0, Cls::G1, Cls::G2][(i + j * 2 + i / 3) % 3].spell(i + j)).collect();
        a.push_gts(&gts);
    }
    out.push(("complete-3-samples", a));
    // (b) missing / multiallelic / two contigs / decorated, 5 samples
    let mut b = CallSet::new(5);
    let classes = [Cls::G0, Cls::G1, Cls::G2, Cls::Missing, Cls::Multi];
    for i in 0..25usize {
        let gts: Vec<&str> = (0..5).map(|j| classes[(i * 7 + j * 3 + i / 5) % if i % 4 == 0 { 5 } else { 3 }].spell(i + j)).collect();
        b.push_gts(&gts);
        let last = b.records.len() - 1;
        b.records[last].alts = vec!["C", "G", "T"];
        if i >= 12 {
            b.records[last].chrom = 1;
            b.records[last].pos = i - 11;
        }
        if i % 5 == 0 {
            b.records[last].decorated = true;
        }
    }
    out.push(("missing-multicontig-5-samples", b));
    // (c) a single record
    let mut c = CallSet::new(2);
    c.push_gts(&["0/1", "1|1"]);
    out.push(("single-record", c));
    // (d) legal but unusual records: monomorphic (ALT=.) with and without missing calls, a record
    // without any FORMAT field, a record whose FORMAT has no GT key, between ordinary records
    let mut d = CallSet::new(3);
    d.push_gts(&["0/1", "0/0", "1|1"]);
    d.push_gts(&["0/0", "./.", "0|0"]);
    d.records[1].alts = vec![];
    d.push_gts(&["0/0", "0|0", "0/0"]);
    d.records[2].alts = vec![];
    d.push_gts(&[crate::gen::NO_FORMAT; 3]);
    d.push_gts(&["1/1", "0/1", "0/0"]);
    d.push_gts(&[crate::gen::NO_GT_KEY; 3]);
    d.push_gts(&["0/1", ".|.", "1/1"]);
    d.push_gts(&[crate::gen::NO_FORMAT; 3]);
    d.records[7].alts = vec![];
    d.records[7].chrom = 1;
    d.push_gts(&["0|1", "1/1", "1|0"]);
    out.push(("unusual-records-3-samples", d));
    // (f) the call data of (b) under a header with 140 further INFO definitions in front of GT (its
    // dictionary index no longer fits one byte in BCF) and with a stale `AN=0` on the decorated records
    let mut f = out[1].1.clone();
    f.extra_info_defs = 140;
    f.stale_an = true;
    // neighbouring records that differ only in the last allele of the last sample
    for k in [3usize, 9, 14, 20] {
        let mut gts = f.records[k].gts.clone();
        let last = gts.len() - 1;
        gts[last] = "0/0".to_string();
        f.records[k].gts = gts.clone();
        gts[last] = "0/1".to_string();
        f.records[k + 1].gts = gts;
    }
    out.push(("annotated-140-info-definitions", f));
    // (e) wide and long names: 300 samples (more than 255), 300 contigs, a sample name and a contig
    // name of 300 bytes, positions beyond 2^31 are not legal VCF, so up to 2^31 - 1
    let mut e = CallSet::new(300);
    e.samples[7] = "S".repeat(300);
    e.contigs = (0..300).map(|i| if i == 290 { "c".repeat(300) } else { format!("ctg{i}") }).collect();
    for r in 0..24usize {
        let gts: Vec<String> = (0..300).map(|j| ["0/0", "0/1", "1|1", "1/0", "./.", "0|0"][(j * (r + 1) + r) % if r % 6 == 0 { 6 } else { 4 }].to_string()).collect();
        e.push_gts(&gts);
        let last = e.records.len() - 1;
        e.records[last].chrom = (r * 13) % 300;
        e.records[last].pos = [1usize, 255, 256, 65_536, 16_777_217, 2_147_483_647][r % 6];
    }
    out.push(("wide-300-samples-300-contigs", e));
    out
}

fn big_call_set() -> CallSet {
    let mut cs = CallSet::new(8);
    let classes = [Cls::G0, Cls::G1, Cls::G2, Cls::G0, Cls::G1, Cls::Missing, Cls::G0];
    for i in 0..2600usize {
        let gts: Vec<&str> = (0..8).map(|j| classes[(i * 5 + j * 11 + i / 7) % 7].spell(i + j)).collect();
        cs.push_gts(&gts);
    }
    cs
}

#[derive(Clone)]
struct Variant {
    set: usize,
    container: Container,
    layout: Layout,
    stdin: bool,
    threads: usize,
    config: usize,
    rep: usize,
}

/// Option sets of a run: 0 default, 1 a subset in two populations (order unlike the column order),
/// 2 --strict, 3 projection of everybody, 4 subset + projection, 5 subset + --strict, 6 and 7 the two
/// projections printed with 17 decimals (every bit of the sums shows), 8 the subset with one of its
/// entries given twice (accepted or refused, but the same way by every variant and repetition).
const N_CONFIGS: usize = 9;

fn config_args(config: usize, n_samples: usize) -> Vec<String> {
    let list = if n_samples >= 5 {
        "s3=B,s0=A,s4=B"
    } else if n_samples >= 3 {
        "s2=B,s0=A"
    } else {
        "s1=B,s0=A"
    };
    let subset = || -> Vec<String> { vec!["-s".into(), list.into()] };
    match config {
        0 => vec![],
        1 => subset(),
        2 => vec!["--strict".into()],
        3 => vec!["-p".into(), (n_samples / 3).max(1).to_string()],
        4 => {
            let mut a = subset();
            a.extend(["-p".to_string(), "1,1".to_string()]);
            a
        }
        5 => {
            let mut a = subset();
            a.push("--strict".into());
            a
        }
        6 => vec!["-p".into(), (n_samples / 3).max(1).to_string(), "--precision".into(), "17".into()],
        8 => {
            let first = list.split(',').next().unwrap();
            vec!["-s".into(), format!("{list},{first}")]
        }
        _ => {
            let mut a = subset();
            a.extend(["-p".to_string(), "1,1".to_string(), "--precision".to_string(), "17".to_string()]);
            a
        }
    }
}

/// One run of `create` on `cs` (by path, three threads) in environment `e` of `cli::ENVIRONMENTS`,
/// confined to CPU 0 (`e` = len) or started in a directory that no longer exists (`e` = len + 1).
fn eval_environment(set_name: &str, cs: &CallSet, config: usize, e: usize, c: Container, canon: &Out, scratch: &Scratch) -> Option<(String, String, J)> {
    let bytes = render(cs, c, &Layout::Fixed(4096));
    let path = scratch.file(c.suffix(), &bytes);
    let mut args: Vec<String> = vec!["create".into(), "--threads".into(), "3".into()];
    args.extend(config_args(config, cs.samples.len()));
    args.push(path.to_str().unwrap().to_string());
    let a: Vec<&str> = args.iter().map(|s| s.as_str()).collect();
    let n_env = crate::cli::ENVIRONMENTS.len();
    let (name, o) = if e < n_env {
        let (name, env) = crate::cli::ENVIRONMENTS[e];
        (name.to_string(), crate::cli::run_sfs_env(&a, Stdin::Null, scratch, env, &crate::cli::Limits::default()))
    } else if e == n_env {
        ("one-cpu".to_string(), crate::cli::run_sfs_env(&a, Stdin::Null, scratch, &[("__SFSMC_ONE_CPU", "1")], &crate::cli::Limits::default()))
    } else {
        ("deleted-working-directory".to_string(), crate::cli::run_sfs_env(&a, Stdin::Null, scratch, &[("__SFSMC_DELETED_CWD", "1")], &crate::cli::Limits::default()))
    };
    let _ = std::fs::remove_file(&path);
    if o.code == canon.code && o.signal == canon.signal && o.stdout == canon.stdout {
        return None;
    }
    Some((
        format!("C12|cli|depends-on-environment|{name}|{}", c.name()),
        format!("{set_name} as {} (config {config}) under {name}: {} stdout {:?} stderr {:?}; canonical: {} stdout {:?}", c.name(), o.status_str(), &o.stdout_str()[..o.stdout.len().min(200)], o.stderr_str().trim(), canon.status_str(), &canon.stdout_str()[..canon.stdout.len().min(200)]),
        J::obj([("kind", J::s("c12-environment")), ("call_set", J::s(set_name)), ("config", J::u(config)), ("environment", J::u(e)), ("container", J::s(c.name()))]),
    ))
}

/// The file name as bytes: `\xe9` in the listed name is the single byte 0xE9.
fn name_on_disk(listed: &str) -> std::ffi::OsString {
    use std::os::unix::ffi::OsStringExt;
    let mut out = Vec::new();
    let b = listed.as_bytes();
    let mut i = 0;
    while i < b.len() {
        if b[i..].starts_with(b"\\xe9") {
            out.push(0xe9);
            i += 4;
        } else {
            out.push(b[i]);
            i += 1;
        }
    }
    std::ffi::OsString::from_vec(out)
}

fn run_variant(v: &Variant, bytes: &[u8], n_samples: usize, scratch: &Scratch) -> Out {
    let mut args: Vec<String> = vec!["create".into(), "--threads".into(), v.threads.to_string()];
    args.extend(config_args(v.config, n_samples));
    if v.stdin {
        let a: Vec<&str> = args.iter().map(|s| s.as_str()).collect();
        run_sfs(&a, Stdin::Bytes(bytes), scratch)
    } else {
        let path = scratch.file(v.container.suffix(), bytes);
        args.push(path.to_str().unwrap().to_string());
        let a: Vec<&str> = args.iter().map(|s| s.as_str()).collect();
        let o = run_sfs(&a, Stdin::Null, scratch);
        let _ = std::fs::remove_file(path);
        o
    }
}

fn variant_j(v: &Variant, set_name: &str) -> J {
    J::obj([
        ("kind", J::s("c12")),
        ("call_set", J::s(set_name)),
        ("container", J::s(v.container.name())),
        ("layout", J::s(v.layout.name())),
        ("transport", J::s(if v.stdin { "stdin" } else { "path" })),
        ("threads", J::u(v.threads)),
        ("config", J::u(v.config)),
    ])
}

fn observe_orders(d: usize) -> (usize, usize, bool) {
    // population ids in the iteration order of the HashMap that population_sizes() builds afresh
    let list: Vec<(String, Population)> = (0..d).flat_map(|p| (0..=p).map(move |k| (format!("x{p}_{k}"), Population::from(Some(format!("pop{p}")))))).collect();
    let map = sample::Map::from_iter(list);
    let mut orders: BTreeSet<Vec<usize>> = BTreeSet::new();
    let total: usize = (1..=d).product();
    let mut calls = 0;
    let mut sizes_ok = true;
    while orders.len() < total && calls < 20_000 {
        calls += 1;
        let sizes = map.population_sizes();
        let order: Vec<usize> = sizes.keys().map(|id| id.0).collect();
        for (id, n) in &sizes {
            if *n != id.0 + 1 {
                sizes_ok = false;
            }
        }
        orders.insert(order);
    }
    (orders.len(), calls, sizes_ok)
}

pub fn run(tier: Tier) -> i32 {
    let mut rep = Report::new("C12", tier, "exploration");
    rep.rule = "configuration grid, enumerated completely: call sets {5 small incl. one with 300 samples, 300 contigs, 300-byte names and positions up to 2^31-1, missing / multiallelic / two contigs / extra fields / monomorphic records / records without FORMAT or without a GT key, one of 2 600 records (~150 KiB, several 64 KiB BGZF blocks)} x container {vcf, vcf.gz, bcf, raw bcf} x BGZF layout (12: single block, one record per block, 1/7/64/4096/65280-byte blocks, empty block in front/middle/end, stored blocks - for the large call set with first blocks of 8, 16, 32 and 64 KiB compressed size and one of exactly 65 536 bytes on disk -, no EOF marker) x transport {path, stdin} (small call sets also: real pipe, FIFO by path, /dev/stdin; and ten file names) x --threads 1..16 x 2 repetitions (fresh process = fresh hash seeds) x 2 sample configurations, and six further option sets (--strict, projection, subset + projection, subset + --strict, the two projections at --precision 17) x every layout and transport x --threads 1 and 3 (thorough: every count); every run's stdout and exit status must equal the canonical run (plain VCF by path, 1 thread). L1: the same containers through the real reader construction with set_threads, and the hash-order observer. Non-trivial = compressed multi-block container with >=2 threads, or stdin transport.".into();
    let scratch = Scratch::new("c12");
    let smalls = small_call_sets();
    let big = big_call_set();
    let mut sets: Vec<(&str, &CallSet)> = smalls.iter().map(|(n, c)| (*n, c)).collect();
    sets.push(("big-2600-records", &big));
    let big_idx = sets.len() - 1;

    let mut variants: Vec<Variant> = Vec::new();
    for (si, _) in sets.iter().enumerate() {
        let is_big = si == big_idx;
        for container in Container::all_with_versions() {
            if is_big && matches!(container, Container::BcfMinor1 | Container::RawBcfMinor1) {
                continue;
            }
            let layouts: Vec<Layout> = if !container.compressed() {
                vec![Layout::Single]
            } else if is_big {
                if tier.thorough() {
                    vec![Layout::Single, Layout::Fixed(65280), Layout::Fixed(4096), Layout::PerUnit, Layout::EmptyMiddle(4096), Layout::NoEof(65280), Layout::Stored(8200), Layout::Stored(16400), Layout::Stored(32800), Layout::Stored(65280), Layout::MaxFirst]
                } else {
                    // stored (incompressible) blocks make the *compressed* size of the first block cross 8, 16, 32 and 64 KiB
                    vec![Layout::Single, Layout::Fixed(65280), Layout::Fixed(4096), Layout::PerUnit, Layout::Stored(8200), Layout::Stored(16400), Layout::Stored(32800), Layout::Stored(65280), Layout::MaxFirst]
                }
            } else {
                all_layouts()
            };
            for layout in layouts {
                let threads: Vec<usize> = if !container.compressed() {
                    vec![1, 4]
                } else if is_big {
                    if tier.thorough() { (1..=16).collect() } else { vec![1, 2, 4, 16] }
                } else {
                    (1..=16).collect()
                };
                for &t in &threads {
                    for stdin in [false, true] {
                        for config in [0, 1] {
                            let reps = if is_big && !tier.thorough() { 1 } else { 2 };
                            for rep_i in 0..reps {
                                variants.push(Variant { set: si, container, layout: layout.clone(), stdin, threads: t, config, rep: rep_i });
                            }
                        }
                        // the other option sets (strict mode, projection, and both with a subset):
                        // every layout and transport, thread counts 1 and 3 (thorough: every count)
                        if tier.thorough() || t == 1 || t == 3 || (!container.compressed() && t == 4) {
                            for config in 2..N_CONFIGS {
                                variants.push(Variant { set: si, container, layout: layout.clone(), stdin, threads: t, config, rep: 0 });
                            }
                        }
                    }
                }
            }
        }
    }
    // canonical outputs
    let canon: Vec<Vec<Out>> = sets
        .iter()
        .enumerate()
        .map(|(si, (_, cs))| {
            (0..N_CONFIGS)
                .map(|config| {
                    let v = Variant { set: si, container: Container::Vcf, layout: Layout::Single, stdin: false, threads: 1, config, rep: 0 };
                    run_variant(&v, &render(cs, Container::Vcf, &Layout::Single), cs.samples.len(), &scratch)
                })
                .collect()
        })
        .collect();
    for (si, outs) in canon.iter().enumerate() {
        for (config, o) in outs.iter().enumerate() {
            // a strict run fails on a call set with skipped sites; every variant must then fail alike
            // a canonical run may fail (a strict run on a call set with skipped sites; a list with a
            // repeated entry; or a subject that refuses this container): every variant must then fail
            // alike - the canonical run is one of the runs under comparison, not an oracle
            let strict = config == 2 || config == 5 || config == 8;
            if !o.ok() && !strict {
                eprintln!("note: the canonical run (plain VCF by path, one thread) for {} with option set {config} fails: {} {}", sets[si].0, o.status_str(), o.stderr_str().lines().last().unwrap_or(""));
            }
        }
    }
    // render each (set, container, layout) once
    let mut rendered: std::collections::BTreeMap<(usize, &'static str, String), Vec<u8>> = Default::default();
    for v in &variants {
        rendered
            .entry((v.set, v.container.name(), v.layout.name()))
            .or_insert_with(|| render(sets[v.set].1, v.container, &v.layout));
    }
    let res = par_map(variants.len(), |i| {
        let v = &variants[i];
        let bytes = &rendered[&(v.set, v.container.name(), v.layout.name())];
        let o = run_variant(v, bytes, sets[v.set].1.samples.len(), &scratch);
        let c = &canon[v.set][v.config];
        if o.code == c.code && o.signal == c.signal && o.stdout == c.stdout {
            None
        } else {
            let threads_class = if v.threads == 1 { "threads=1" } else { "threads>1" };
            Some((
                format!("C12|cli|differs-from-canonical|{}|{}|{}|{threads_class}", v.container.name(), v.layout.name(), if v.stdin { "stdin" } else { "path" }),
                format!(
                    "{} as {} ({}; {}; --threads {}; config {}): {} stdout {:?} stderr {:?}; canonical: {} stdout {:?}",
                    sets[v.set].0,
                    v.container.name(),
                    v.layout.name(),
                    if v.stdin { "stdin" } else { "path" },
                    v.threads,
                    v.config,
                    o.status_str(),
                    &o.stdout_str()[..o.stdout.len().min(200)],
                    o.stderr_str().trim(),
                    c.status_str(),
                    &c.stdout_str()[..c.stdout.len().min(200)]
                ),
                variant_j(v, sets[v.set].0),
            ))
        }
    });
    let mut nt = 0u64;
    for (v, r) in variants.iter().zip(res) {
        if (v.container.compressed() && v.threads >= 2 && v.layout != Layout::Single) || v.stdin {
            nt += 1;
        }
        rep.outcome(format!("{}: {}", v.container.name(), if r.is_none() { "identical to canonical" } else { "DIFFERS" }));
        if let Some((k, w, j)) = r {
            rep.violation(k, w, j);
        }
    }
    let _ = variants.iter().map(|v| v.rep).max();
    rep.part(Part {
        name: "cli: container x layout x transport x threads x repetition x samples".into(),
        evaluations: variants.len() as u64,
        nontrivial: nt,
        note: format!("{} call sets; {} distinct renderings", sets.len(), rendered.len()),
        exhaustive: true,
        extra: vec![("schedules_controlled".into(), J::Bool(false))],
    });
    // the environment: what is logged, colours, the locale, temporary directories and the CPUs the
    // process may use are no call data either
    {
        let mut ej: Vec<(usize, usize, usize, Container)> = Vec::new();
        for si in 0..sets.len() - 1 {
            for config in [0usize, 1, 3, 4] {
                for e in 0..crate::cli::ENVIRONMENTS.len() + 2 {
                    for c in [Container::Vcf, Container::Bcf] {
                        ej.push((si, config, e, c));
                    }
                }
            }
        }
        let res = par_map(ej.len(), |i| eval_environment(sets[ej[i].0].0, sets[ej[i].0].1, ej[i].1, ej[i].2, ej[i].3, &canon[ej[i].0][ej[i].1], &scratch));
        for v in res.into_iter().flatten() {
            rep.violation(v.0, v.1, v.2);
        }
        rep.part(Part {
            name: "cli: the environment of the process".into(),
            evaluations: ej.len() as u64,
            nontrivial: ej.len() as u64,
            note: format!("{} small call sets x 4 option sets x {{vcf, bcf}} (path, --threads 3) x {} environments (RUST_LOG, RUST_BACKTRACE, locale, colour and terminal variables, TMPDIR / HOME pointing nowhere, thread-pool variables; the process confined to one CPU; the current directory deleted while the input is named by an absolute path): stdout and exit status as in the canonical run", sets.len() - 1, crate::cli::ENVIRONMENTS.len() + 2),
            exhaustive: true,
            extra: vec![],
        });
    }
    rep.sample(J::obj([
        ("call_set", J::s("missing-multicontig-5-samples")),
        ("container", J::s("bcf")),
        ("layout", J::s("empty-front64")),
        ("transport", J::s("stdin")),
        ("argv", J::strs(&["create", "--threads", "7", "-s", "s3=B,s0=A,s4=B"])),
        ("expected", J::s("stdout and exit status byte-identical to the plain-VCF-by-path run with 1 thread")),
    ]));

    // thread counts beyond the 1..16 grid, around 32 and 256 (one layout, second small call set)
    {
        let counts = [17usize, 31, 32, 33, 64, 255, 256, 257, 512];
        let mut tj: Vec<(Container, usize, bool)> = Vec::new();
        for c in Container::all() {
            for &t in &counts {
                for stdin in [false, true] {
                    tj.push((c, t, stdin));
                }
            }
        }
        // run one after the other: hundreds of inflater threads per process, times a 16-way pool, would
        // exhaust the sandbox's thread limit (a refusal to spawn a thread is the harness's doing and is
        // counted as inconclusive, never as a verdict)
        let res: Vec<Option<Viol>> = tj.iter().map(|&(c, t, stdin)| {
            let v = Variant { set: 1, container: c, layout: Layout::Fixed(64), stdin, threads: t, config: 0, rep: 0 };
            // (hundreds of thread stacks need more address space than the default cap of the driver)
            let bytes = render(sets[1].1, c, &Layout::Fixed(64));
            let ts = t.to_string();
            let limits = crate::cli::Limits { wall_s: 60, mem_bytes: 48 << 30 };
            let o = if stdin {
                crate::cli::run_sfs_env(&["create", "--threads", &ts], Stdin::Bytes(&bytes), &scratch, &[], &limits)
            } else {
                let path = scratch.file(c.suffix(), &bytes);
                let o = crate::cli::run_sfs_env(&["create", "--threads", &ts, path.to_str().unwrap()], Stdin::Null, &scratch, &[], &limits);
                let _ = std::fs::remove_file(path);
                o
            };
            let can = &canon[1][0];
            if o.stderr_str().contains("failed to spawn thread") {
                rep.inconclusive += 1;
                return None;
            }
            if o.code == can.code && o.signal == can.signal && o.stdout == can.stdout {
                None
            } else {
                Some((
                    format!("C12|cli|differs-from-canonical|{}|threads-{}", c.name(), if t % 256 == 0 { "multiple-of-256" } else { "beyond-16" }),
                    format!("{} as {} with --threads {t} ({}): {} {:?}", sets[1].0, c.name(), if stdin { "stdin" } else { "path" }, o.status_str(), o.stderr_str().trim()),
                    variant_j(&v, sets[1].0),
                ))
            }
        }).collect();
        for v in res.into_iter().flatten() {
            rep.violation(v.0, v.1, v.2);
        }
        rep.part(Part {
            name: "cli: thread counts beyond 16".into(),
            evaluations: tj.len() as u64,
            nontrivial: tj.len() as u64,
            note: format!("--threads in {counts:?} x 4 containers x {{path, stdin}}: identical to the canonical run"),
            exhaustive: true,
            extra: vec![],
        });
    }

    // file names: the container is decided by content, whatever the path is called
    // (`\xe9` stands for the single byte 0xE9: a Latin-1 name, not valid UTF-8)
    const NAMES: [&str; 14] = ["in", "in.dat", "in.vcf", "in.vcf.gz", "in.bcf", "in.gz", "in.bgz", "IN.VCF", "in.txt", "in.bcf.vcf", "r\\xe9gion.vcf", "r\u{e9}gion.bcf", "two words.vcf", "\\xe9"];
    let mut nj: Vec<(usize, Container, usize, usize)> = Vec::new();
    for si in 0..sets.len() - 1 {
        for c in Container::all() {
            for ni in 0..NAMES.len() {
                for t in [1usize, 4] {
                    nj.push((si, c, ni, t));
                }
            }
        }
    }
    let res = par_map(nj.len(), |i| {
        let (si, c, ni, t) = nj[i];
        let cs = sets[si].1;
        let bytes = render(cs, c, &Layout::Fixed(64));
        let dir = scratch.path(".d");
        std::fs::create_dir_all(&dir).expect("scratch dir");
        let path = dir.join(name_on_disk(NAMES[ni]));
        std::fs::write(&path, &bytes).expect("scratch write");
        let ts = t.to_string();
        let o = crate::cli::run_sfs_with_path(&["create", "--threads", &ts], &path, &scratch);
        let _ = std::fs::remove_dir_all(&dir);
        let can = &canon[si][0];
        if o.code == can.code && o.signal == can.signal && o.stdout == can.stdout {
            None
        } else {
            Some((
                format!("C12|cli|result-depends-on-file-name|{}|{}", c.name(), NAMES[ni]),
                format!("{} as {} stored under the name '{}' (--threads {t}): {} {:?} {:?}", sets[si].0, c.name(), NAMES[ni], o.status_str(), &o.stdout_str()[..o.stdout.len().min(200)], o.stderr_str().trim()),
                J::obj([("kind", J::s("c12-name")), ("call_set", J::s(sets[si].0)), ("container", J::s(c.name())), ("name", J::s(NAMES[ni])), ("threads", J::u(t))]),
            ))
        }
    });
    for v in res.into_iter().flatten() {
        rep.violation(v.0, v.1, v.2);
    }
    rep.part(Part {
        name: "cli: file names".into(),
        evaluations: nj.len() as u64,
        nontrivial: nj.len() as u64,
        note: format!("{} small call sets x 4 containers x {} file names (no extension, neutral, matching and misleading extensions, a blank, non-ASCII characters, and names that are not valid UTF-8) x threads {{1,4}}: identical to the canonical run", sets.len() - 1, NAMES.len()),
        exhaustive: true,
        extra: vec![],
    });

    // transports beyond "regular file by path" and "regular file on fd 0": real pipes and named pipes
    {
        use crate::cli::{run_sfs_transport, Transport};
        let mut tj: Vec<(usize, Container, Transport, usize)> = Vec::new();
        for si in 0..sets.len() - 1 {
            for c in Container::all() {
                for tr in [Transport::StdinPipe, Transport::PathFifo, Transport::PathDevStdin] {
                    for t in [1usize, 4] {
                        tj.push((si, c, tr, t));
                    }
                }
            }
        }
        let res = par_map(tj.len(), |i| {
            let (si, c, tr, t) = tj[i];
            let cs = sets[si].1;
            let bytes = render(cs, c, &Layout::Fixed(4096));
            let ts = t.to_string();
            let o = run_sfs_transport(&["create", "--threads", &ts], &bytes, tr, c.suffix(), &scratch);
            let can = &canon[si][0];
            if o.code == can.code && o.signal == can.signal && o.stdout == can.stdout {
                None
            } else {
                Some((
                    format!("C12|cli|result-depends-on-transport|{}|{}", c.name(), tr.name()),
                    format!("{} as {} through {} (--threads {t}): {} {:?} {:?}", sets[si].0, c.name(), tr.name(), o.status_str(), &o.stdout_str()[..o.stdout.len().min(200)], o.stderr_str().trim()),
                    J::obj([("kind", J::s("c12-transport")), ("call_set", J::s(sets[si].0)), ("container", J::s(c.name())), ("transport", J::s(tr.name())), ("threads", J::u(t))]),
                ))
            }
        });
        for v in res.into_iter().flatten() {
            rep.violation(v.0, v.1, v.2);
        }
        rep.part(Part {
            name: "cli: pipes and named pipes".into(),
            evaluations: tj.len() as u64,
            nontrivial: tj.len() as u64,
            note: format!("{} small call sets x 4 containers x {{real pipe on stdin, FIFO named on the command line, /dev/stdin over a pipe}} x threads {{1,4}}: identical to the canonical run", sets.len() - 1),
            exhaustive: true,
            extra: vec![],
        });
    }

    // real pipes (arrival in two writes) for each container of the second call set
    let cs = sets[1].1;
    let mut pj: Vec<(Container, usize)> = Vec::new();
    for c in Container::all() {
        for first in [1usize, 2, 3, 17, 200] {
            pj.push((c, first));
        }
    }
    let res = par_map(pj.len(), |i| {
        let (c, first) = pj[i];
        let bytes = render(cs, c, &Layout::PerUnit);
        let f = first.min(bytes.len());
        let o = run_sfs_piped(&["create", "--threads", "3"], &[&bytes[..f], &bytes[f..]], 30, &scratch);
        let can = &canon[1][0];
        if o.code == can.code && o.stdout == can.stdout {
            None
        } else {
            Some((
                format!("C12|cli|pipe-differs-from-canonical|{}", c.name()),
                format!("{} through a real pipe (first write {f} bytes): {} {:?} {:?}", c.name(), o.status_str(), o.stdout_str(), o.stderr_str().trim()),
                J::obj([("kind", J::s("c12-pipe")), ("container", J::s(c.name())), ("first", J::u(f))]),
            ))
        }
    });
    for v in res.into_iter().flatten() {
        rep.violation(v.0, v.1, v.2);
    }
    rep.part(Part {
        name: "cli: real pipes".into(),
        evaluations: pj.len() as u64,
        nontrivial: pj.len() as u64,
        note: "4 containers x 5 first-write lengths (OS-timed; confirmation only)".into(),
        exhaustive: false,
        extra: vec![],
    });

    // L1: reader construction with set_threads over in-memory containers
    let mut lj: Vec<(usize, Container, Layout, usize)> = Vec::new();
    for si in 0..sets.len() - 1 {
        // (the in-memory site reader of the harness addresses samples by their default names)
        if !sets[si].1.samples.iter().enumerate().all(|(i, n)| *n == format!("s{i}")) {
            continue;
        }
        for c in Container::all() {
            let layouts = if c.compressed() { all_layouts() } else { vec![Layout::Single] };
            for l in layouts {
                for t in [1usize, 2, 3, 4, 8, 16] {
                    lj.push((si, c, l.clone(), t));
                }
            }
        }
    }
    let lib_obs = |si: usize, c: Container, l: &Layout, t: usize| {
        let cs = sets[si].1;
        let bytes = render(cs, c, l);
        let n = cs.samples.len();
        let r = catch(move || {
            let g = genotype::reader::Builder::default()
                .set_threads(NonZeroUsize::new(t).unwrap())
                .verif_build_from_reader(Cursor::new(bytes))
                .map_err(|e| e.to_string())?;
            let map: Vec<Option<usize>> = (0..n).map(|i| Some(i % 2)).collect();
            let mut site = build_site_reader(g, &map, None)?;
            run_reader(&mut site)
        });
        match r {
            Ok(x) => x,
            Err(p) => Err(format!("panic: {p}")),
        }
    };
    let lib_canon: Vec<_> = (0..sets.len() - 1).map(|si| lib_obs(si, Container::Vcf, &Layout::Single, 1)).collect();
    let res = par_map(lj.len(), |i| {
        let (si, c, l, t) = &lj[i];
        let o = lib_obs(*si, *c, l, *t);
        if o.is_ok() && o == lib_canon[*si] {
            None
        } else {
            Some((
                format!("C12|lib|differs-from-canonical|{}|{}|{}", c.name(), l.name(), if *t == 1 { "threads=1" } else { "threads>1" }),
                format!("{} as {} ({}) with {t} threads: {:?}, canonical {:?}", sets[*si].0, c.name(), l.name(), o.as_ref().map(|x| &x.spectrum.data), lib_canon[*si].as_ref().map(|x| &x.spectrum.data)),
                J::obj([("kind", J::s("c12-lib")), ("call_set", J::s(sets[*si].0)), ("container", J::s(c.name())), ("layout", J::s(l.name())), ("threads", J::u(*t))]),
            ))
        }
    });
    for v in res.into_iter().flatten() {
        rep.violation(v.0, v.1, v.2);
    }
    rep.part(Part {
        name: "lib: reader construction with set_threads".into(),
        evaluations: lj.len() as u64,
        nontrivial: lj.iter().filter(|j| j.1.compressed() && j.3 > 1).count() as u64,
        note: "3 call sets x containers x 12 layouts x threads {1,2,3,4,8,16}, two populations".into(),
        exhaustive: true,
        extra: vec![],
    });

    // the builder's other setters: a format and a compression method that are stated instead of
    // detected, in every order of the calls, must give what detection gives when they are right
    {
        use genotype::reader::builder::{CompressionMethod, Format};
        let cs = sets[0].1;
        let n = cs.samples.len();
        let mut bj: Vec<(Container, usize, usize, bool)> = Vec::new();
        for c in Container::all() {
            for fmt in 0..3usize {
                for comp in 0..3usize {
                    for format_first in [false, true] {
                        bj.push((c, fmt, comp, format_first));
                    }
                }
            }
        }
        let res = par_map(bj.len(), |i| {
            let (c, fmt, comp, format_first) = bj[i];
            let is_bcf = matches!(c, Container::Bcf | Container::RawBcf);
            // the statement must be true for the container (a wrong one may fail or misread: not checked)
            let right_format = if is_bcf { Format::Bcf } else { Format::Vcf };
            let right_comp = if c.compressed() { Some(CompressionMethod::Bgzf) } else { None };
            let bytes = render(cs, c, &Layout::Single);
            let r = catch(move || {
                let mut b = genotype::reader::Builder::default();
                let set_f = |b: genotype::reader::Builder| match fmt { 0 => b, 1 => b.set_format(right_format), _ => b.set_format(right_format).set_format(right_format) };
                let set_c = |b: genotype::reader::Builder| match comp { 0 => b, 1 => b.set_compression_method(right_comp), _ => b.set_compression_method(None).set_compression_method(right_comp) };
                b = if format_first { set_c(set_f(b)) } else { set_f(set_c(b)) };
                let g = b.verif_build_from_reader(Cursor::new(bytes)).map_err(|e| e.to_string())?;
                let map: Vec<Option<usize>> = (0..n).map(|i| Some(i % 2)).collect();
                let mut site = build_site_reader(g, &map, None)?;
                run_reader(&mut site)
            });
            let o = match r {
                Ok(x) => x,
                Err(p) => Err(format!("panic: {p}")),
            };
            if o.is_ok() && o == lib_canon[0] {
                None
            } else {
                Some((
                    format!("C12|lib|stated-format-or-compression|{}", c.name()),
                    format!("{} read with format {} and compression {} ({} first): {:?}, canonical {:?}", c.name(), ["detected", "stated", "stated twice"][fmt], ["detected", "stated", "stated after None"][comp], if format_first { "format" } else { "compression" }, o.as_ref().map(|x| &x.spectrum.data), lib_canon[0].as_ref().map(|x| &x.spectrum.data)),
                    J::obj([("kind", J::s("c12-builder"))]),
                ))
            }
        });
        for v in res.into_iter().flatten() {
            rep.violation(v.0, v.1, v.2);
        }
        rep.part(Part {
            name: "lib: stated format and compression method".into(),
            evaluations: bj.len() as u64,
            nontrivial: bj.len() as u64,
            note: "4 containers x format {detected, stated, stated twice} x compression {detected, stated, stated after None} x both orders of the calls, the statements being true for the container: the canonical spectrum".into(),
            exhaustive: true,
            extra: vec![],
        });
    }
    // a failing run is deterministic too: a list with two and three unknown samples names the same one
    // in every run (fresh process = fresh hash seeds)
    {
        let cs = sets[0].1;
        let mut n = 0u64;
        for list in ["nobody_b,s0,nobody_a", "s1,zz_unknown,aa_unknown,s0,mm_unknown"] {
            for c in [Container::Vcf, Container::Bcf] {
                let bytes = render(cs, c, &Layout::Single);
                let outs: Vec<Out> = (0..8).map(|_| run_sfs(&["create", "-s", list], Stdin::Bytes(&bytes), &scratch)).collect();
                n += outs.len() as u64;
                let same = outs.iter().all(|o| o.code == outs[0].code && o.stdout == outs[0].stdout && o.stderr == outs[0].stderr);
                if !same || outs[0].ok() {
                    let mut seen: Vec<String> = outs.iter().map(|o| format!("{} {}", o.status_str(), o.stderr_str().trim())).collect();
                    seen.sort();
                    seen.dedup();
                    rep.violation(
                        "C12|cli|failing-run-differs-between-runs".to_string(),
                        format!("create -s {list} on {} run 8 times gives {} different outcomes: {seen:?}", c.name(), seen.len()),
                        J::obj([("kind", J::s("c12-unknown-samples")), ("list", J::s(list)), ("container", J::s(c.name()))]),
                    );
                }
            }
        }
        rep.part(Part {
            name: "cli: failing runs are deterministic".into(),
            evaluations: n,
            nontrivial: n,
            note: "lists naming two and three samples that are not in the input, vcf and bcf, 8 fresh processes each: the same exit status and the same message every time".into(),
            exhaustive: true,
            extra: vec![],
        });
    }

    // hash-order observer
    let mut order_notes = Vec::new();
    let mut ev = 0u64;
    for d in 2..=4usize {
        let (seen, calls, sizes_ok) = observe_orders(d);
        let total: usize = (1..=d).product();
        ev += calls as u64;
        order_notes.push(format!("d={d}: {seen}/{total} iteration orders in {calls} calls"));
        if seen < total {
            rep.cap(format!("only {seen} of {total} hash iteration orders observed for {d} populations"));
        }
        if !sizes_ok {
            rep.violation("C12|lib|population-sizes-wrong", format!("population_sizes() returned wrong sizes for {d} populations"), J::Null);
        }
        // the shape reported by the real reader must be the same on every call
        let map: Vec<Option<usize>> = (0..d).flat_map(|p| std::iter::repeat(Some(p)).take(p + 1)).collect();
        let rows: Vec<Vec<Cls>> = vec![vec![Cls::G1; map.len()]];
        if let Ok(reader) = build_site_reader(Box::new(crate::createmodel::MemReader::from_classes(map.len(), &rows)), &map, None) {
            let expect: Vec<usize> = (0..d).map(|p| 2 * (p + 1) + 1).collect();
            for _ in 0..2000 {
                ev += 1;
                let s = reader.create_zero_scs().shape().to_vec();
                if s != expect {
                    rep.violation(
                        "C12|lib|shape-depends-on-hash-order",
                        format!("create_zero_scs() reported shape {s:?} for population sizes 1..{d}, expected {expect:?}"),
                        J::obj([("kind", J::s("c12-hash")), ("populations", J::u(d))]),
                    );
                    break;
                }
            }
        }
    }
    rep.part(Part {
        name: "lib: hash-order observer".into(),
        evaluations: ev,
        nontrivial: ev,
        note: order_notes.join("; "),
        exhaustive: true,
        extra: vec![],
    });
    // the configuration grid is enumerated completely; the pipe runs are OS-timed confirmations
    rep.exhaustive = rep.caps_hit.is_empty();
    rep.assumptions = vec![
        "the interleaving of noodles-bgzf inflater threads within one run is OS-scheduled, i.e. sampled, not enumerated (DESIGN section 4); everything sfs controls (worker count, layout, transport) is enumerated".into(),
        "hash seeds are covered through their only observable effect, the iteration order of the population-size map".into(),
    ];
    rep.finish()
}

fn layout_by_name(name: &str) -> Option<Layout> {
    let mut all = all_layouts();
    all.extend([Layout::EmptyMiddle(4096), Layout::NoEof(65280), Layout::Stored(8200), Layout::Stored(16400), Layout::Stored(32800), Layout::Stored(65280), Layout::MaxFirst]);
    all.into_iter().find(|l| l.name() == name)
}

pub fn replay(case: &J) -> Option<Vec<String>> {
    let kind = case.get("kind")?.as_str()?.to_string();
    let scratch = Scratch::new("c12r");
    let smalls = small_call_sets();
    let big = big_call_set();
    let set_name = case.get("call_set").and_then(|s| s.as_str()).unwrap_or(smalls[1].0).to_string();
    let cs: &CallSet = if set_name == "big-2600-records" { &big } else { &smalls.iter().find(|(n, _)| *n == set_name)?.1 };
    let cname = case.get("container")?.as_str()?;
    let container = Container::all_with_versions().into_iter().find(|c| c.name() == cname)?;
    let canon = |config: usize| {
        let v = Variant { set: 0, container: Container::Vcf, layout: Layout::Single, stdin: false, threads: 1, config, rep: 0 };
        run_variant(&v, &render(cs, Container::Vcf, &Layout::Single), cs.samples.len(), &scratch)
    };
    if kind == "c12-environment" {
        let config = case.get("config")?.as_i64()? as usize;
        let e = case.get("environment")?.as_i64()? as usize;
        return Some(eval_environment(&set_name, cs, config, e, container, &canon(config), &scratch).into_iter().map(|(k, w, _)| format!("{k} :: {w}")).collect());
    }
    let judge = |o: &Out, c: &Out, what: String| -> Vec<String> {
        if o.code == c.code && o.signal == c.signal && o.stdout == c.stdout {
            vec![]
        } else {
            vec![format!("{what}: {} stdout {:?} stderr {:?}; canonical {} stdout {:?}", o.status_str(), &o.stdout_str()[..o.stdout.len().min(200)], o.stderr_str().trim(), c.status_str(), &c.stdout_str()[..c.stdout.len().min(200)])]
        }
    };
    match kind.as_str() {
        "c12" => {
            let layout = layout_by_name(case.get("layout")?.as_str()?)?;
            let config = case.get("config")?.as_i64()? as usize;
            let v = Variant { set: 0, container, layout: layout.clone(), stdin: case.get("transport")?.as_str()? == "stdin", threads: case.get("threads")?.as_i64()? as usize, config, rep: 0 };
            let o = run_variant(&v, &render(cs, container, &layout), cs.samples.len(), &scratch);
            Some(judge(&o, &canon(config), format!("C12|cli|differs-from-canonical :: {set_name} as {cname} ({})", layout.name())))
        }
        "c12-name" => {
            let name = case.get("name")?.as_str()?.to_string();
            let t = case.get("threads")?.as_i64()?.to_string();
            let dir = scratch.path(".d");
            std::fs::create_dir_all(&dir).ok()?;
            let path = dir.join(name_on_disk(&name));
            std::fs::write(&path, render(cs, container, &Layout::Fixed(64))).ok()?;
            let o = crate::cli::run_sfs_with_path(&["create", "--threads", &t], &path, &scratch);
            Some(judge(&o, &canon(0), format!("C12|cli|result-depends-on-file-name :: {set_name} as {cname} named '{name}'")))
        }
        "c12-transport" => {
            let tr = crate::cli::Transport::from_name(case.get("transport")?.as_str()?)?;
            let t = case.get("threads")?.as_i64()?.to_string();
            let bytes = render(cs, container, &Layout::Fixed(4096));
            let o = crate::cli::run_sfs_transport(&["create", "--threads", &t], &bytes, tr, container.suffix(), &scratch);
            Some(judge(&o, &canon(0), format!("C12|cli|result-depends-on-transport :: {set_name} as {cname} through {}", tr.name())))
        }
        "c12-pipe" => {
            let bytes = render(cs, container, &Layout::PerUnit);
            let f = (case.get("first")?.as_i64()? as usize).min(bytes.len());
            let o = run_sfs_piped(&["create", "--threads", "3"], &[&bytes[..f], &bytes[f..]], 30, &scratch);
            Some(judge(&o, &canon(0), format!("C12|cli|pipe-differs-from-canonical :: {cname} first write {f}")))
        }
        _ => None,
    }
}
