//! C14 — statistics are invariant under the transformations that must not matter.
//!
//! Every relation compares two evaluations of the implementation (no reference values needed).

use sfs_core::array::Axis;

use crate::{
    cli::{run_sfs, Scratch, Stdin},
    enumerate::{indices, shapes},
    json::J,
    par::par_map,
    refmodel::RefArray,
    statref::{admissible, real_stat, ALL_STATS},
    subject::{ref_from_spectrum, scs_from_ref, text_of},
    verdict::{catch, Part, Report, Tier},
};

type Viol = (String, String, J);

const FOLD_INVARIANT: [&str; 12] = ["pi", "theta", "s", "d-tajima", "pi-xy", "f2", "f3", "f4", "fst", "king", "r0", "r1"];
const MONO_INDEPENDENT: [&str; 10] = ["pi", "theta", "s", "d-tajima", "d-fu-li", "pi-xy", "fst", "king", "r0", "r1"];
const SWAP_INVARIANT: [&str; 6] = ["f2", "fst", "pi-xy", "king", "r0", "r1"];
const SCALE_INVARIANT: [&str; 7] = ["f2", "f3", "f4", "fst", "king", "r0", "r1"];
const SCALE_LINEAR: [&str; 5] = ["sum", "s", "pi", "pi-xy", "theta"];
/// totals a spectrum is scaled to in addition to `SCALES`: next to one on both sides
const NEAR_ONE: [f64; 5] = [1.00001, 0.999992, 1.0000001, 1.001, 0.9999999];
const SCALES: [f64; 12] = [2.0, 0.5, 3.0, 1e-3, 1e6, 1e10, 1e15, 1e-12, 1e-18, 1e-30, 1e30, 0.75];

fn stat(name: &str, x: &RefArray) -> Result<f64, String> {
    let scs = scs_from_ref(x);
    match catch(|| real_stat(name, &scs)) {
        Ok(r) => r,
        Err(p) => Err(format!("panic: {p}")),
    }
}

fn same(a: f64, b: f64) -> bool {
    if a.is_nan() || b.is_nan() {
        return a.is_nan() && b.is_nan();
    }
    if a.is_infinite() || b.is_infinite() {
        return a == b;
    }
    (a - b).abs() <= 1e-9 * a.abs().max(b.abs()) + 1e-12
}

fn shape_class(shape: &[usize]) -> String {
    format!("{}d{}", shape.len(), if shape.iter().any(|n| *n != shape[0]) { ",unequal" } else { "" })
}

fn case_j(relation: &str, stat_name: &str, x: &RefArray, extra: &str) -> J {
    J::obj([
        ("kind", J::s("c14")),
        ("relation", J::s(relation)),
        ("stat", J::s(stat_name)),
        ("shape", J::usizes(&x.shape)),
        ("values", J::f64s(&x.data)),
        ("extra", J::s(extra)),
    ])
}

fn value_sets(shape: &[usize], with_pairs: bool) -> Vec<(String, RefArray)> {
    let cells: usize = shape.iter().product();
    let mut v = Vec::new();
    for i in 0..cells {
        let mut x = RefArray::zeros(shape);
        x.data[i] = 3.0;
        v.push((format!("basis{i}"), x));
    }
    if with_pairs {
        for i in 0..cells {
            for j in i + 1..cells {
                let mut x = RefArray::zeros(shape);
                x.data[i] = 3.0;
                x.data[j] = 5.0;
                v.push((format!("pair{i}-{j}"), x));
            }
        }
    }
    v.push(("ramp".into(), RefArray::from_fn(shape, |f, _| (f * 7 % 11 + 1) as f64)));
    v.push(("powers".into(), RefArray::from_fn(shape, |f, _| (1u64 << (f % 30)) as f64 / 64.0)));
    v
}

fn mirror_swap(x: &RefArray) -> RefArray {
    x.transpose(&[1, 0])
}

/// All relations on one spectrum; returns (#relation instances, violations).
fn check_spectrum(label: &str, x: &RefArray) -> (u64, Vec<Viol>) {
    let shape = x.shape.clone();
    let d = shape.len();
    let mut n = 0u64;
    let mut viols: Vec<Viol> = Vec::new();
    let mut report = |rel: &str, st: &str, what: String, extra: &str, viols: &mut Vec<Viol>| {
        viols.push((format!("C14|lib|{rel}|{st}|{}", shape_class(&shape)), what, case_j(rel, st, x, extra)));
    };
    // f3 / f4 from f2 of two-population marginals
    if d == 3 || d == 4 {
        let scs = scs_from_ref(x);
        let f2_of = |keep: [usize; 2]| -> Result<f64, String> {
            let remove: Vec<Axis> = (0..d).filter(|a| !keep.contains(a)).map(Axis).collect();
            catch(|| {
                scs.marginalize(&remove)
                    .map_err(|e| e.to_string())
                    .and_then(|m| m.into_normalized().f2().map_err(|e| e.to_string()))
            })
            .map_err(|p| format!("panic: {p}"))?
        };
        n += 1;
        if d == 3 {
            let direct = stat("f3", x);
            let combo = f2_of([0, 1]).and_then(|ab| f2_of([0, 2]).and_then(|ac| f2_of([1, 2]).map(|bc| (ab + ac - bc) / 2.0)));
            match (&direct, &combo) {
                (Ok(a), Ok(b)) if same(*a, *b) => {}
                _ => report("f3-from-f2", "f3", format!("{label} shape {shape:?}: f3 = {direct:?} but (f2(A,B)+f2(A,C)-f2(B,C))/2 = {combo:?}"), "", &mut viols),
            }
        } else {
            let direct = stat("f4", x);
            if label == "scale-ramp" {
                // the scale spectrum is built to have a clearly non-zero f4 (the relation would be vacuous otherwise)
                if let Ok(v) = &direct {
                    if v.abs() < 1e-4 {
                        report("f4-from-f2", "f4", format!("{label} shape {shape:?}: |f4| = {v:e} is too small for the decomposition check to mean anything"), "vacuous", &mut viols);
                    }
                }
            }
            let combo = f2_of([0, 3]).and_then(|ad| {
                f2_of([1, 2]).and_then(|bc| f2_of([0, 2]).and_then(|ac| f2_of([1, 3]).map(|bd| (ad + bc - ac - bd) / 2.0)))
            });
            match (&direct, &combo) {
                (Ok(a), Ok(b)) if same(*a, *b) => {}
                _ => report("f4-from-f2", "f4", format!("{label} shape {shape:?}: f4 = {direct:?} but (f2(A,D)+f2(B,C)-f2(A,C)-f2(B,D))/2 = {combo:?}"), "", &mut viols),
            }
        }
    }
    // folding with fill zero
    let folded = catch(|| ref_from_spectrum(&scs_from_ref(x).fold().into_spectrum(0.0))).ok();
    for st in FOLD_INVARIANT {
        if !admissible(st, &shape) || (st == "d-tajima" && shape == [4]) {
            continue;
        }
        n += 1;
        let a = stat(st, x);
        let b = folded.as_ref().map_or(Err("fold panicked".to_string()), |f| stat(st, f));
        match (&a, &b) {
            (Ok(p), Ok(q)) if same(*p, *q) => {}
            _ => report("fold-invariance", st, format!("{label} shape {shape:?}: {st}(x) = {a:?} but {st}(fold0 x) = {b:?}"), "", &mut viols),
        }
    }
    // monomorphic cells
    let cells = x.data.len();
    let mut base = x.clone();
    base.data[0] = 0.0;
    base.data[cells - 1] = 0.0;
    for st in MONO_INDEPENDENT {
        if !admissible(st, &shape) || (st == "d-tajima" && shape == [4]) {
            continue;
        }
        let a = stat(st, &base);
        for (m0, m1) in [(1.0, 0.0), (0.0, 1.0), (1000.0, 1.0), (1.0, 1000.0), (1000.0, 1000.0), (1e17, 3.0), (7.0, 1e17), (1e17, 1e17), (1e150, 1e150)] {
            n += 1;
            let mut y = base.clone();
            y.data[0] = m0;
            y.data[cells - 1] = m1;
            let b = stat(st, &y);
            match (&a, &b) {
                (Ok(p), Ok(q)) if same(*p, *q) => {}
                _ => report("monomorphic-independence", st, format!("{label} shape {shape:?}: {st} = {a:?} with empty monomorphic cells but {b:?} with ({m0},{m1})"), &format!("{m0},{m1}"), &mut viols),
            }
        }
    }
    // population swap
    if d == 2 {
        let t = mirror_swap(x);
        for st in SWAP_INVARIANT {
            if !admissible(st, &shape) {
                continue;
            }
            n += 1;
            let a = stat(st, x);
            let b = stat(st, &t);
            match (&a, &b) {
                (Ok(p), Ok(q)) if same(*p, *q) => {}
                _ => report("population-swap", st, format!("{label} shape {shape:?}: {st}(x) = {a:?} but {st}(x with populations swapped) = {b:?}"), "", &mut viols),
            }
        }
    }
    // scaling; also to totals next to one (a spectrum that "looks normalized" is still one to normalize)
    let total: f64 = x.data.iter().sum();
    let near_one: Vec<f64> = if total.is_finite() && total > 0.0 { NEAR_ONE.iter().map(|t| t / total).collect() } else { Vec::new() };
    for c in SCALES.iter().copied().chain(near_one) {
        let y = RefArray { shape: shape.clone(), data: x.data.iter().map(|v| v * c).collect() };
        for st in SCALE_INVARIANT {
            if !admissible(st, &shape) {
                continue;
            }
            n += 1;
            let (a, b) = (stat(st, x), stat(st, &y));
            match (&a, &b) {
                (Ok(p), Ok(q)) if same(*p, *q) => {}
                _ => report("scale-invariance", st, format!("{label} shape {shape:?}: {st}(x) = {a:?} but {st}({c} x) = {b:?}"), &c.to_string(), &mut viols),
            }
        }
        for st in SCALE_LINEAR {
            if !admissible(st, &shape) {
                continue;
            }
            n += 1;
            let (a, b) = (stat(st, x), stat(st, &y));
            match (&a, &b) {
                (Ok(p), Ok(q)) if same(*p * c, *q) => {}
                _ => report("scale-linearity", st, format!("{label} shape {shape:?}: {st}(x) = {a:?} but {st}({c} x) = {b:?}"), &c.to_string(), &mut viols),
            }
        }
    }
    viols.truncate(6);
    (n, viols)
}

// ---- L2 --------------------------------------------------------------------------------------

fn cli_stats(x: &RefArray, stats: &[&str], fold_first: bool, scratch: &Scratch) -> Result<Vec<f64>, String> {
    cli_stats_with(x, stats, fold_first, &[], scratch)
}

fn cli_stats_with(x: &RefArray, stats: &[&str], fold_first: bool, extra: &[&str], scratch: &Scratch) -> Result<Vec<f64>, String> {
    let mut input = text_of(x).into_bytes();
    if fold_first {
        let f = run_sfs(&["fold", "--fill", "zero", "--precision", "17"], Stdin::Bytes(&input), scratch);
        if !f.ok() {
            return Err(format!("fold: {}", f.stderr_str()));
        }
        input = f.stdout;
    }
    let list = stats.join(",");
    let mut args: Vec<&str> = vec!["stat", "-s", &list, "--precision", "12"];
    args.extend_from_slice(extra);
    let o = run_sfs(&args, Stdin::Bytes(&input), scratch);
    if !o.ok() {
        return Err(format!("{} {}", o.status_str(), o.stderr_str().trim()));
    }
    o.stdout_str().trim().split(',').map(|t| t.parse::<f64>().map_err(|e| format!("'{t}': {e}"))).collect()
}

/// As `cli_stats`, with the number of decimals of the fold and of the statistics chosen (tiny
/// spectra need more than 17 decimals to be printed at all).
fn cli_stats_decimals(x: &RefArray, stats: &[&str], fold_first: bool, decimals: usize, scratch: &Scratch) -> Result<Vec<f64>, String> {
    let mut input = text_of(x).into_bytes();
    let d = decimals.to_string();
    if fold_first {
        let f = run_sfs(&["fold", "--fill", "zero", "--precision", &d], Stdin::Bytes(&input), scratch);
        if !f.ok() {
            return Err(format!("fold: {}", f.stderr_str()));
        }
        input = f.stdout;
    }
    let list = stats.join(",");
    let o = run_sfs(&["stat", "-s", &list, "--precision", &d], Stdin::Bytes(&input), scratch);
    if !o.ok() {
        return Err(format!("{} {}", o.status_str(), o.stderr_str().trim()));
    }
    o.stdout_str().trim().split(',').map(|t| t.parse::<f64>().map_err(|e| format!("'{t}': {e}"))).collect()
}

fn printed_same(a: f64, b: f64) -> bool {
    if a.is_nan() || b.is_nan() {
        return a.is_nan() && b.is_nan();
    }
    if a.is_infinite() || b.is_infinite() {
        return a == b;
    }
    (a - b).abs() <= 2.1e-12 + 1e-9 * a.abs().max(b.abs())
}

fn eval_cli(x: &RefArray, scratch: &Scratch) -> (u64, Vec<Viol>) {
    let shape = &x.shape;
    let all: Vec<&str> = ALL_STATS.iter().copied().filter(|s| admissible(s, shape) && !(*s == "d-tajima" && shape == &[4])).collect();
    let mut viols: Vec<Viol> = Vec::new();
    let mut n = 0;
    let base = cli_stats(x, &all, false, scratch);
    let Ok(base) = base else {
        return (1, vec![("C14|cli|stat-failed".into(), format!("shape {shape:?}: {base:?}"), case_j("cli", "-", x, ""))]);
    };
    // each statistic alone equals its value inside the mixed list
    for (st, v) in all.iter().zip(&base) {
        n += 1;
        match cli_stats(x, &[st], false, scratch) {
            Ok(a) if printed_same(a[0], *v) => {}
            other => viols.push((
                format!("C14|cli|value-depends-on-list|{st}"),
                format!("shape {shape:?}: {st} is {v} in `-s {}` but {other:?} when requested alone", all.join(",")),
                case_j("list-independence", st, x, ""),
            )),
        }
    }
    // verbosity flags must not change the row
    for f in ["-q", "-qq", "-v", "-vv"] {
        n += 1;
        match cli_stats_with(x, &all, false, &[f], scratch) {
            Ok(a) if a.len() == base.len() && a.iter().zip(&base).all(|(u, v)| u.to_bits() == v.to_bits() || (u.is_nan() && v.is_nan())) => {}
            other => viols.push((
                format!("C14|cli|verbosity-changes-output|{f}"),
                format!("shape {shape:?}: `sfs stat -s {} {f}` = {other:?}, without the flag {base:?}", all.join(",")),
                case_j("verbosity", f, x, ""),
            )),
        }
    }
    // fold --fill zero | stat
    let fold_stats: Vec<&str> = all.iter().copied().filter(|s| FOLD_INVARIANT.contains(s)).collect();
    if !fold_stats.is_empty() {
        n += fold_stats.len() as u64;
        let a = cli_stats(x, &fold_stats, false, scratch);
        let b = cli_stats(x, &fold_stats, true, scratch);
        match (&a, &b) {
            (Ok(p), Ok(q)) if p.iter().zip(q).all(|(u, v)| printed_same(*u, *v)) => {}
            _ => viols.push((
                format!("C14|cli|fold-invariance|{}", shape_class(shape)),
                format!("shape {shape:?}: `sfs stat -s {}` = {a:?} but `sfs fold --fill zero | sfs stat` = {b:?}", fold_stats.join(",")),
                case_j("fold-invariance", &fold_stats.join(","), x, ""),
            )),
        }
    }
    // scaling through the mixed list
    let total: f64 = x.data.iter().sum();
    let near_one: Vec<f64> = if total.is_finite() && total > 0.0 { vec![1.00001 / total, 0.999992 / total] } else { Vec::new() };
    for c in [2.0, 0.5, 1000.0, 1e12].into_iter().chain(near_one) {
        let y = RefArray { shape: shape.clone(), data: x.data.iter().map(|v| v * c).collect() };
        n += all.len() as u64;
        match cli_stats(&y, &all, false, scratch) {
            Ok(scaled) => {
                for ((st, a), b) in all.iter().zip(&base).zip(&scaled) {
                    let expect = if SCALE_LINEAR.contains(st) { a * c } else { *a };
                    let checked = SCALE_LINEAR.contains(st) || SCALE_INVARIANT.contains(st);
                    // printed values carry an absolute error of 0.5e-12 that is amplified by c
                    let ok = printed_same(expect, *b) || (expect - b).abs() <= 1e-12 * (1.0 + c);
                    if checked && !ok {
                        viols.push((
                            format!("C14|cli|scaling|{st}"),
                            format!("shape {shape:?}: {st} = {a} on x but {b} on {c} x (in `-s {}`)", all.join(",")),
                            case_j("scaling", st, x, &c.to_string()),
                        ));
                    }
                }
            }
            Err(e) => viols.push(("C14|cli|stat-failed".into(), format!("shape {shape:?} scaled by {c}: {e}"), case_j("scaling", "-", x, ""))),
        }
    }
    // tiny spectra: c x for c = 1e-12 and 1e-20, every number printed with 45 decimals (so that
    // printing loses nothing): scaling, and fold --fill zero | stat, relative to the values on x
    for c in [1e-12, 1e-20] {
        let y = RefArray { shape: shape.clone(), data: x.data.iter().map(|v| v * c).collect() };
        n += all.len() as u64;
        let rel = |expect: f64, got: f64| -> bool {
            if expect.is_nan() || got.is_nan() {
                return expect.is_nan() && got.is_nan();
            }
            expect == got || (expect - got).abs() <= 1e-9 * expect.abs() + 1e-40
        };
        match cli_stats_decimals(&y, &all, false, 45, scratch) {
            Ok(scaled) => {
                for ((st, a), b) in all.iter().zip(&base).zip(&scaled) {
                    // (the values on x were printed with 12 decimals: linear statistics are compared
                    // with what the library-independent relation gives from them, to 1e-9 relative
                    // plus the printing error of the base value)
                    let (expect, slack) = if SCALE_LINEAR.contains(st) { (a * c, 1e-12 * c) } else { (*a, 2e-12) };
                    let checked = SCALE_LINEAR.contains(st) || SCALE_INVARIANT.contains(st);
                    if checked && !(rel(expect, *b) || (expect - b).abs() <= slack) {
                        viols.push((format!("C14|cli|scaling-tiny|{st}"), format!("shape {shape:?}: {st} = {a} on x but {b:e} on {c:e} x (`stat -s {} --precision 45`)", all.join(",")), case_j("scaling-tiny", st, x, &format!("{c:e}"))));
                    }
                }
                if !fold_stats.is_empty() {
                    n += fold_stats.len() as u64;
                    let a = cli_stats_decimals(&y, &fold_stats, false, 45, scratch);
                    let b = cli_stats_decimals(&y, &fold_stats, true, 45, scratch);
                    match (&a, &b) {
                        // statistics that scale with the spectrum are compared relatively; the
                        // scale-free ones (f2, f3, f4, Fst, ... of order one, possibly exactly zero)
                        // with the absolute slack of the other cases
                        (Ok(p), Ok(q)) if fold_stats.iter().zip(p.iter().zip(q)).all(|(st, (u, v))| if SCALE_LINEAR.contains(st) { rel(*u, *v) } else { printed_same(*u, *v) }) => {}
                        _ => viols.push((
                            format!("C14|cli|fold-invariance-tiny|{}", shape_class(shape)),
                            format!("shape {shape:?} scaled by {c:e}: `sfs stat -s {} --precision 45` = {a:?} but behind `sfs fold --fill zero --precision 45` = {b:?}", fold_stats.join(",")),
                            case_j("fold-invariance-tiny", &fold_stats.join(","), x, &format!("{c:e}")),
                        )),
                    }
                }
            }
            Err(e) => viols.push(("C14|cli|stat-failed".into(), format!("shape {shape:?} scaled by {c:e}: {e}"), case_j("scaling-tiny", "-", x, ""))),
        }
    }
    viols.truncate(8);
    (n, viols)
}

pub fn run(tier: Tier) -> i32 {
    let mut rep = Report::new("C14", tier, "exploration");
    rep.rule = "relations between two evaluations of the implementation, each on every (shape, value set): f3/f4 = linear combinations of f2 of the two-population marginals (real marginalize + normalize); stat(fold_0 x) = stat(x) for the 12 listed statistics; independence of the two monomorphic cells (values {0, 1, 1000, 1e17, 1e150}: also values next to which the polymorphic mass vanishes in floating point) for all but sum/f2/f3/f4; population swap for f2, Fst, pi_xy, KING, R0, R1; scaling by c in {2, 1/2, 3/4, 3, 1e-3, 1e6, 1e10, 1e15, 1e-12, 1e-18, 1e-30, 1e30} (totals beyond 1e9 and 2^53 and far below one) and to totals of 1.00001, 0.999992, 1.0000001, 1.001, 0.9999999 (next to one without being one). Shapes: 1-D n+1 = 3..12, 2-D {2..6}^2, 3-D {2..4}^3, 4-D {2,3}^4, always including unequal lengths, plus one ramp spectrum for every one-axis size from 13 to 400 entries and six two-axis shapes with totals around 100, and seven spectra of 1 030 .. 77 520 entries (1-D beyond 1 024, 70x65, 19x17x15, 45x41x39, 19x17x16x15); value sets: every basis spectrum, every two-cell spectrum (small shapes), a ramp and a powers-of-two spectrum. L2: `sfs stat` with all admissible statistics in one -s list vs each alone, `sfs fold --fill zero | sfs stat`, scaled inputs. Non-trivial = unequal axis lengths or a non-basis spectrum.".into();
    let mut shp: Vec<Vec<usize>> = (3..=12).map(|n| vec![n]).collect();
    shp.extend(shapes(2, 2, tier.pick(5, 6), usize::MAX).into_iter().filter(|s| s.len() == 2));
    shp.extend(shapes(3, 2, tier.pick(3, 4), usize::MAX).into_iter().filter(|s| s.len() == 3));
    shp.extend(shapes(4, 2, 3, usize::MAX).into_iter().filter(|s| s.len() == 4));
    let mut jobs: Vec<(String, RefArray)> = Vec::new();
    for s in &shp {
        let cells: usize = s.iter().product();
        let pairs = cells <= tier.pick(12, 20);
        jobs.extend(value_sets(s, pairs));
    }
    // every one-axis size from 13 to 400 entries with one ramp spectrum each (where a comparison with
    // half the total, a table limit or a rounding of the size decides something, it decides it here)
    for n in 13..=400usize {
        jobs.push(("ramp-every-size".to_string(), RefArray::from_fn(&[n], |f, _| ((f * 13) % 31 + 1) as f64 + if f % 7 == 0 { 0.5 } else { 0.0 })));
    }
    for (a, b) in [(41usize, 59usize), (30, 70), (50, 50), (49, 51), (99, 2), (3, 97)] {
        jobs.push(("ramp-every-size".to_string(), RefArray::from_fn(&[a, b], |f, _| ((f * 13) % 31 + 1) as f64)));
    }
    // scale: spectra beyond 1 024, 4 096 and 65 536 entries (a ramp-like filling with mass in the last entries)
    for s in [vec![1030usize], vec![1601], vec![2049], vec![70, 65], vec![19, 17, 15], vec![45, 41, 39], vec![19, 17, 16, 15]] {
        let cells: usize = s.iter().product();
        // (for four populations the filling correlates (A-B) with (C-D), so that f4 is far from zero:
        // a sign error or a crossed pairing would be invisible on a spectrum whose f4 vanishes)
        let sh = s.clone();
        jobs.push((
            "scale-ramp".to_string(),
            RefArray::from_fn(&s, |f, idx| {
                let base = if f + 5 >= cells { 900.0 } else { ((f * 13) % 31 + 1) as f64 };
                if sh.len() == 4 {
                    let fr = |a: usize| idx[a] as f64 / (sh[a] - 1) as f64;
                    base + 400.0 * ((fr(0) - fr(1)) * (fr(2) - fr(3))).max(0.0)
                } else {
                    base
                }
            }),
        ));
    }
    // each spectrum on a newly spawned thread: the relations evaluate several statistics in a row, and
    // what they see must not depend on which spectra the worker happened to handle before
    let res = par_map(jobs.len(), |i| std::thread::scope(|sc| sc.spawn(|| check_spectrum(&jobs[i].0, &jobs[i].1)).join().unwrap_or_else(|_| (1, vec![("C14|lib|explorer-thread-died".to_string(), format!("{} {:?}", jobs[i].0, jobs[i].1.shape), J::Null)]))));
    let mut ev = 0u64;
    let mut nt = 0u64;
    for ((label, x), (n, v)) in jobs.iter().zip(res) {
        ev += n;
        if x.shape.iter().any(|k| *k != x.shape[0]) || !label.starts_with("basis") {
            nt += n;
        }
        for (k, w, j) in v {
            rep.violation(k, w, j);
        }
    }
    // the relations' inputs may have been reached through library calls: statistics of such values
    // are those of the values themselves (shared with C06)
    {
        let (n, viols) = super::c06::stat_after_histories("C14");
        for (k, w, j) in viols {
            rep.violation(k, w, j);
        }
        rep.part(Part {
            name: "lib: statistics after histories of library calls".into(),
            evaluations: n,
            nontrivial: n,
            note: "6 spectra x 17 histories over {into_normalized, normalize, an entry scaled / the corners zeroed through the indexing operator, masking through inner_mut, clone_from into a spectrum of the reversed shape, fold}: scaling an entry of a frequency spectrum and normalizing again, or copying a spectrum into one of another shape, leaves the statistics those of the values".into(),
            exhaustive: true,
            extra: vec![],
        });
    }
    rep.part(Part {
        name: "lib: relation instances".into(),
        evaluations: ev,
        nontrivial: nt,
        note: format!("{} shapes, {} spectra", shp.len(), jobs.len()),
        exhaustive: true,
        extra: vec![],
    });
    rep.sample(J::obj([
        ("relation", J::s("f3 = (f2(A,B) + f2(A,C) - f2(B,C)) / 2")),
        ("shape", J::usizes(&[2, 4, 3])),
        ("spectrum", J::s("3 at flat cell 5, 5 at flat cell 17")),
    ]));
    rep.sample(J::obj([
        ("relation", J::s("fst(x) = fst(x with the two populations swapped)")),
        ("shape", J::usizes(&[3, 5])),
        ("spectrum", J::s("ramp")),
    ]));

    // L2
    let scratch = Scratch::new("c14");
    let mut cli_shapes: Vec<Vec<usize>> = vec![vec![5], vec![8], vec![3, 3], vec![3, 5], vec![4, 2], vec![2, 3, 4], vec![3, 3, 2], vec![2, 3, 2, 3]];
    if tier.thorough() {
        cli_shapes.extend(shapes(2, 2, 5, usize::MAX).into_iter().filter(|s| s.len() == 2));
        cli_shapes.extend(vec![vec![12], vec![4, 4, 3], vec![3, 2, 2, 2]]);
    }
    let mut cj: Vec<RefArray> = Vec::new();
    for s in &cli_shapes {
        cj.push(RefArray::from_fn(s, |f, _| (f * 7 % 11 + 1) as f64));
        cj.push(RefArray::from_fn(s, |f, _| ((f * f) % 5) as f64 + 0.25));
        let cells: usize = s.iter().product();
        let mut two = RefArray::zeros(s);
        two.data[cells / 3] = 3.0;
        two.data[(2 * cells) / 3] = 5.0;
        cj.push(two);
    }
    {
        // the statistics of a folded spectrum written and routed in every other way
        let mut sp: Vec<(Vec<String>, Vec<u8>)> = Vec::new();
        for x in cj.iter().step_by(3).take(6) {
            let all: Vec<&str> = ALL_STATS.iter().copied().filter(|st| admissible(st, &x.shape) && FOLD_INVARIANT.contains(st)).collect();
            if all.is_empty() {
                continue;
            }
            let folded = run_sfs(&["fold", "--fill", "zero", "--precision", "17"], Stdin::Bytes(text_of(x).as_bytes()), &scratch).stdout;
            sp.push((vec!["stat".into(), "-s".into(), all.join(","), "--precision".into(), "12".into()], folded));
            sp.push((vec!["stat".into(), "-s".into(), all.join(","), "--precision".into(), "12".into()], text_of(x).into_bytes()));
        }
        super::spelling_part(&mut rep, "C14", "stat on a spectrum and on its fold with fill zero, for six spectra", &sp, &scratch);
    }
    let res = par_map(cj.len(), |i| eval_cli(&cj[i], &scratch));
    let mut ev = 0;
    for (n, v) in res {
        ev += n;
        for (k, w, j) in v {
            rep.violation(k, w, j);
        }
    }
    rep.part(Part {
        name: "cli: mixed -s lists, fold | stat, scaled inputs".into(),
        evaluations: ev,
        nontrivial: ev,
        note: format!("{} spectra over {} shapes", cj.len(), cli_shapes.len()),
        exhaustive: true,
        extra: vec![],
    });
    let _ = indices;
    rep.assumptions = vec![
        "relations compare two runs of the implementation; tolerance 1e-9 relative + 1e-12 absolute; NaN on both sides counts as equal (the definition is 0/0)".into(),
        "'all spectra' is covered by basis / two-cell spectra (numerators and denominators are linear functionals) plus two dense spectra".into(),
    ];
    rep.finish()
}

pub fn replay(case: &J) -> Option<Vec<String>> {
    if case.get("kind").and_then(|k| k.as_str()) != Some("c14") {
        return None;
    }
    let shape = case.get("shape")?.as_usizes()?;
    let data: Vec<f64> = case.get("values")?.as_arr()?.iter().map(|v| v.as_f64().unwrap_or(f64::NAN)).collect();
    let x = RefArray { shape, data };
    let scratch = Scratch::new("c14r");
    let mut v = check_spectrum("replay", &x).1;
    v.extend(eval_cli(&x, &scratch).1);
    Some(v.into_iter().map(|(k, w, _)| format!("{k} :: {w}")).collect())
}
