//! C03 — projection is exact hypergeometric down-sampling at every size; its laws hold.

use sfs_core::{array::Axis, array::Shape, utils::hypergeometric_pmf, Scs};

use crate::{
    cli::{run_sfs, Scratch, Stdin},
    createmodel::{all_rows, build_site_reader, run_reader, Cls, MemReader},
    enumerate::{indices, sample_maps, shapes},
    json::J,
    par::{par_each, par_map},
    refmodel::{close_coef, close_coef_n, hyper_exact, printed_ok, RefArray},
    subject::{join_usizes, parse_out, ref_from_spectrum, scs_from_ref, text_of},
    verdict::{catch, norm_msg, Part, Report, Tier},
};

type Viol = (String, String, J);

fn size_class(n: u64) -> &'static str {
    match n {
        0..=170 => "N<=170",
        171..=1029 => "171<=N<=1029",
        _ => "N>=1030",
    }
}

// ---------------------------------------------------------------------------------------------
// (i) operator coefficients

fn check_coef(big_n: u64, big_k: u64, n: u64, k: u64, viols: &mut Vec<Viol>) {
    let r = hyper_exact(big_n, big_k, n, k);
    match catch(|| hypergeometric_pmf(big_n, big_k, n, k)) {
        Ok(x) => {
            if !x.is_finite() || !close_coef_n(x, r, big_n) || x < 0.0 {
                let kind = if !x.is_finite() { "non-finite" } else { "wrong" };
                if viols.len() < 4 {
                    viols.push((
                        format!("C03|lib|coef-{kind}|{}", size_class(big_n)),
                        format!("hypergeometric_pmf(N={big_n},K={big_k},n={n},k={k}) = {x:e}, reference {r:e}"),
                        J::obj([
                            ("kind", J::s("c03-coef")),
                            ("N", J::Int(big_n as i64)),
                            ("K", J::Int(big_k as i64)),
                            ("n", J::Int(n as i64)),
                            ("k", J::Int(k as i64)),
                        ]),
                    ));
                }
            }
        }
        Err(p) => {
            if viols.len() < 4 {
                viols.push((
                    format!("C03|lib|coef-panic|{}|{}", size_class(big_n), norm_msg(&p)),
                    format!("hypergeometric_pmf(N={big_n},K={big_k},n={n},k={k}) panicked: {p}"),
                    J::obj([
                        ("kind", J::s("c03-coef")),
                        ("N", J::Int(big_n as i64)),
                        ("K", J::Int(big_k as i64)),
                        ("n", J::Int(n as i64)),
                        ("k", J::Int(k as i64)),
                    ]),
                ));
            }
        }
    }
}

fn coef_full(big_n: u64) -> (u64, u64, Vec<Viol>) {
    let mut viols = Vec::new();
    let mut evals = 0;
    let mut nontrivial = 0;
    for big_k in 0..=big_n {
        for n in 0..=big_n {
            // also one value beyond the support on each side (k = n + 1 must be zero)
            for k in 0..=n + 1 {
                evals += 1;
                if n < big_n && big_k > 0 && big_k < big_n && k > 0 && k < n {
                    nontrivial += 1;
                }
                check_coef(big_n, big_k, n, k, &mut viols);
            }
        }
    }
    (evals, nontrivial, viols)
}

fn coef_ladder(big_n: u64) -> (u64, u64, Vec<Viol>) {
    let mut viols = Vec::new();
    let mut evals = 0;
    let grid = |n: u64| -> Vec<u64> {
        let mut g = vec![0, 1, 2, n / 2, n - 1, n];
        g.sort();
        g.dedup();
        g
    };
    for big_k in grid(big_n) {
        for n in grid(big_n) {
            for k in 0..=n {
                evals += 1;
                check_coef(big_n, big_k, n, k, &mut viols);
            }
        }
    }
    (evals, evals, viols)
}

// ---------------------------------------------------------------------------------------------
// (ii) wiring + (iii) laws on small shapes

fn project_real(x: &RefArray, to: &[usize]) -> Result<Result<RefArray, String>, String> {
    catch(|| {
        scs_from_ref(x)
            .project(Shape(to.to_vec()))
            .map(|s| ref_from_spectrum(&s))
            .map_err(|e| e.to_string())
    })
}

fn arr_close(a: &RefArray, b: &RefArray) -> bool {
    a.shape == b.shape && a.data.iter().zip(&b.data).all(|(x, y)| close_coef(*x, *y))
}

fn lib_case(shape: &[usize], to: &[usize], what: &str) -> J {
    J::obj([
        ("kind", J::s("c03-lib")),
        ("shape", J::usizes(shape)),
        ("to", J::usizes(to)),
        ("what", J::s(what)),
    ])
}

fn check_shape(shape: &[usize]) -> (u64, u64, Vec<Viol>) {
    let mut viols: Vec<Viol> = Vec::new();
    let mut evals = 0u64;
    let mut nontrivial = 0u64;
    let cells: usize = shape.iter().product();
    let d = shape.len();
    let mut push = |viols: &mut Vec<Viol>, k: String, w: String, j: J| {
        if viols.iter().filter(|v| v.0 == k).count() < 2 {
            viols.push((k, w, j));
        }
    };
    // all admissible targets: 1 <= to_j <= shape_j
    for to_idx in indices(shape) {
        let to: Vec<usize> = to_idx.iter().map(|t| t + 1).collect();
        let smaller = to.iter().zip(shape).any(|(t, s)| t < s);
        // every basis vector
        for b in 0..cells {
            evals += 1;
            let mut x = RefArray::zeros(shape);
            x.data[b] = 1.0;
            let expect = x.project(&to);
            let interior = {
                let idx = &indices(shape)[b];
                idx.iter().zip(shape).all(|(i, n)| *i > 0 && i + 1 < *n)
            };
            if smaller && interior {
                nontrivial += 1;
            }
            match project_real(&x, &to) {
                Ok(Ok(got)) => {
                    if !arr_close(&got, &expect) {
                        push(
                            &mut viols,
                            format!("C03|lib|project-wrong|{d}d"),
                            format!("project basis e_{b} of shape {shape:?} to {to:?} = {:?}, expected {:?}", got.data, expect.data),
                            lib_case(shape, &to, "basis"),
                        );
                    }
                    if got.data.iter().any(|v| *v < 0.0 || !v.is_finite()) {
                        push(
                            &mut viols,
                            format!("C03|lib|negative-or-nonfinite|{d}d"),
                            format!("project basis e_{b} of shape {shape:?} to {to:?} has a negative or non-finite entry: {:?}", got.data),
                            lib_case(shape, &to, "basis"),
                        );
                    }
                    if !close_coef(got.sum(), 1.0) {
                        push(
                            &mut viols,
                            format!("C03|lib|mass-changed|{d}d"),
                            format!("project basis e_{b} of shape {shape:?} to {to:?} has mass {}", got.sum()),
                            lib_case(shape, &to, "basis"),
                        );
                    }
                    if !smaller && got != x {
                        push(
                            &mut viols,
                            format!("C03|lib|identity-not-exact|{d}d"),
                            format!("projecting shape {shape:?} to itself changes basis e_{b}: {:?}", got.data),
                            lib_case(shape, &to, "basis"),
                        );
                    }
                }
                Ok(Err(e)) => push(
                    &mut viols,
                    "C03|lib|valid-target-rejected".into(),
                    format!("project shape {shape:?} to {to:?} rejected: {e}"),
                    lib_case(shape, &to, "basis"),
                ),
                Err(p) => push(
                    &mut viols,
                    format!("C03|lib|panic|{}", norm_msg(&p)),
                    format!("project shape {shape:?} to {to:?} panicked: {p}"),
                    lib_case(shape, &to, "basis"),
                ),
            }
        }
        // ramp spectrum (linearity is checked, not assumed), two-step, commute with marginalize
        let ramp = RefArray::from_fn(shape, |f, _| (f * f + 1) as f64);
        let expect = ramp.project(&to);
        evals += 1;
        let direct = match project_real(&ramp, &to) {
            Ok(Ok(g)) => g,
            other => {
                push(
                    &mut viols,
                    "C03|lib|ramp-failed".into(),
                    format!("project ramp of shape {shape:?} to {to:?}: {other:?}"),
                    lib_case(shape, &to, "ramp"),
                );
                continue;
            }
        };
        if !arr_close(&direct, &expect) {
            push(
                &mut viols,
                format!("C03|lib|not-linear|{d}d"),
                format!("project ramp of shape {shape:?} to {to:?} = {:?}, expected {:?}", direct.data, expect.data),
                lib_case(shape, &to, "ramp"),
            );
        }
        // finite inputs give finite, exact outputs: all-zero, sign-alternating, cancelling, huge, tiny and scaled-down spectra
        for (name, x) in [
            ("zeros", RefArray::zeros(shape)),
            ("alternating", RefArray::from_fn(shape, |f, _| if f % 2 == 0 { 1.5 } else { -2.0 })),
            ("huge", RefArray::from_fn(shape, |f, _| if f == cells / 2 { 1e300 } else { 0.0 })),
            ("tiny", RefArray::from_fn(shape, |f, _| if f == cells - 1 { 5e-324 } else { 0.0 })),
            // mixed signs whose total is exactly 0 (e.g. observed minus expected counts)
            ("cancelling", RefArray::from_fn(shape, |f, _| if f + 1 == cells && cells % 2 == 1 { 0.0 } else if f % 2 == 0 { (f / 2 + 1) as f64 } else { -((f / 2 + 1) as f64) })),
            // an ordinary count spectrum scaled far below f64::EPSILON
            ("scaled-1e-18", RefArray::from_fn(shape, |f, _| (f + 1) as f64 * 1e-18)),
        ] {
            evals += 1;
            let expect = x.project(&to);
            match project_real(&x, &to) {
                Ok(Ok(got)) => {
                    let finite = got.data.iter().all(|v| v.is_finite());
                    let scale = x.data.iter().fold(0.0f64, |m, v| m.max(v.abs()));
                    let ok = got.shape == expect.shape
                        && got.data.iter().zip(&expect.data).all(|(a, b)| (a - b).abs() <= 1e-8 * b.abs() + 1e-12 * scale);
                    if !finite || !ok {
                        push(
                            &mut viols,
                            format!("C03|lib|special-input-{}|{name}", if finite { "wrong" } else { "non-finite" }),
                            format!("project '{name}' spectrum of shape {shape:?} to {to:?} = {:?}, expected {:?}", got.data, expect.data),
                            lib_case(shape, &to, name),
                        );
                    }
                }
                other => push(
                    &mut viols,
                    format!("C03|lib|special-input-failed|{name}"),
                    format!("project '{name}' spectrum of shape {shape:?} to {to:?}: {other:?}"),
                    lib_case(shape, &to, name),
                ),
            }
        }
        // two-step: via every intermediate shape between `to` and `shape`
        let span: Vec<usize> = shape.iter().zip(&to).map(|(s, t)| s - t + 1).collect();
        for mid_idx in indices(&span) {
            let mid: Vec<usize> = mid_idx.iter().zip(&to).map(|(m, t)| m + t).collect();
            if mid == to || mid == *shape {
                continue;
            }
            evals += 1;
            nontrivial += 1;
            let two = project_real(&ramp, &mid).and_then(|r| match r {
                Ok(m) => project_real(&m, &to),
                Err(e) => Ok(Err(e)),
            });
            match two {
                Ok(Ok(g)) if arr_close(&g, &direct) => {}
                other => push(
                    &mut viols,
                    format!("C03|lib|two-step-differs|{d}d"),
                    format!("project {shape:?}->{mid:?}->{to:?} = {other:?}, direct {:?}", direct.data),
                    lib_case(shape, &to, "two-step"),
                ),
            }
        }
        // commute with marginalization of each single axis
        if d >= 2 {
            for a in 0..d {
                evals += 1;
                let to_m: Vec<usize> = (0..d).filter(|j| *j != a).map(|j| to[j]).collect();
                let pm = catch(|| {
                    let s = scs_from_ref(&direct);
                    s.marginalize(&[Axis(a)]).map(|s| ref_from_spectrum(&s)).map_err(|e| e.to_string())
                });
                let mp = catch(|| {
                    let s = scs_from_ref(&ramp);
                    s.marginalize(&[Axis(a)])
                        .map_err(|e| e.to_string())
                        .and_then(|m| m.project(Shape(to_m.clone())).map_err(|e| e.to_string()))
                        .map(|s| ref_from_spectrum(&s))
                });
                match (&pm, &mp) {
                    (Ok(Ok(x)), Ok(Ok(y))) if arr_close(x, y) => {}
                    _ => push(
                        &mut viols,
                        format!("C03|lib|marginalize-commute|{d}d"),
                        format!("marginalize(axis {a}) o project != project o marginalize for {shape:?} -> {to:?}: {pm:?} vs {mp:?}"),
                        lib_case(shape, &to, "commute"),
                    ),
                }
            }
        }
    }
    (evals, nontrivial, viols)
}

// (iv) errors
fn check_errors(shape: &[usize]) -> (u64, Vec<Viol>) {
    let d = shape.len();
    let x = RefArray::from_fn(shape, |f, _| f as f64 + 1.0);
    let mut evals = 0;
    let mut viols: Vec<Viol> = Vec::new();
    let mut targets: Vec<Vec<usize>> = Vec::new();
    // same dimensionality: every target in the box [0..n_j+2]
    let bx: Vec<usize> = shape.iter().map(|n| n + 3).collect();
    targets.extend(indices(&bx));
    // other dimensionalities
    for dd in 0..=d + 1 {
        if dd != d {
            targets.push(vec![1; dd]);
            targets.push(vec![2; dd]);
        }
    }
    for to in targets {
        evals += 1;
        let invalid = to.len() != d || to.iter().any(|&t| t == 0) || to.iter().zip(shape).any(|(t, s)| t > s);
        match project_real(&x, &to) {
            Ok(Ok(g)) => {
                if invalid {
                    let why = if to.len() != d {
                        "dimensionality"
                    } else if to.iter().any(|&t| t == 0) {
                        "zero"
                    } else {
                        "larger"
                    };
                    if viols.len() < 6 {
                        viols.push((
                            format!("C03|lib|invalid-target-accepted|{why}"),
                            format!("project shape {shape:?} to {to:?} succeeded with shape {:?}", g.shape),
                            lib_case(shape, &to, "errors"),
                        ));
                    }
                }
            }
            Ok(Err(_)) => {
                if !invalid && viols.len() < 6 {
                    viols.push((
                        "C03|lib|valid-target-rejected".into(),
                        format!("project shape {shape:?} to {to:?} rejected"),
                        lib_case(shape, &to, "errors"),
                    ));
                }
            }
            Err(p) => {
                if viols.len() < 6 {
                    viols.push((
                        format!("C03|lib|panic|{}", norm_msg(&p)),
                        format!("project shape {shape:?} to {to:?} panicked: {p}"),
                        lib_case(shape, &to, "errors"),
                    ))
                }
            }
        }
    }
    (evals, viols)
}

// large one-axis sizes through Spectrum::project
fn check_large(n_chrom: usize) -> (u64, Vec<Viol>) {
    let shape = vec![n_chrom + 1];
    let mut viols: Vec<Viol> = Vec::new();
    let mut evals = 0;
    let mut targets = vec![n_chrom, n_chrom - 1, n_chrom / 2, 2, 1];
    targets.dedup();
    // a smooth count spectrum ~ 1/k plus the two monomorphic cells
    let x = RefArray::from_fn(&shape, |f, _| if f == 0 || f == n_chrom { 1000.0 } else { 100.0 / f as f64 });
    for m in targets {
        evals += 1;
        let to = vec![m + 1];
        // reference: direct sum with hyper_exact (O(N m))
        let mut expect = RefArray::zeros(&to);
        for k in 0..=n_chrom {
            let lo = (m + k).saturating_sub(n_chrom);
            for kp in lo..=m.min(k) {
                expect.data[kp] += x.data[k] * hyper_exact(n_chrom as u64, k as u64, m as u64, kp as u64);
            }
        }
        match project_real(&x, &to) {
            Ok(Ok(got)) => {
                let finite = got.data.iter().all(|v| v.is_finite());
                let ok = got.data.iter().zip(&expect.data).all(|(a, b)| (a - b).abs() <= 1e-8 * b.abs() + 1e-9);
                if !finite || !ok {
                    viols.push((
                        format!("C03|lib|large-{}|{}", if finite { "wrong" } else { "non-finite" }, size_class(n_chrom as u64)),
                        format!(
                            "project 1-D spectrum of {n_chrom} chromosomes to {m}: finite={finite}; first cells {:?} vs reference {:?}; mass {} vs {}",
                            &got.data[..got.data.len().min(3)],
                            &expect.data[..expect.data.len().min(3)],
                            got.sum(),
                            x.sum()
                        ),
                        lib_case(&shape, &to, "large"),
                    ));
                } else if m == n_chrom && got != x {
                    viols.push((
                        format!("C03|lib|large-identity-not-exact|{}", size_class(n_chrom as u64)),
                        format!("projecting {n_chrom} chromosomes to the same size is not the identity"),
                        lib_case(&shape, &to, "large"),
                    ));
                }
            }
            other => viols.push((
                format!("C03|lib|large-failed|{}", size_class(n_chrom as u64)),
                format!("project 1-D spectrum of {n_chrom} chromosomes to {m}: {other:?}"),
                lib_case(&shape, &to, "large"),
            )),
        }
    }
    (evals, viols)
}

// project-after-create = create-with-projection on complete call sets
fn check_create_relation(map: &[Option<usize>]) -> (u64, Vec<Viol>) {
    let s = map.len();
    let rows = all_rows(s, &Cls::CALLED);
    let n = crate::createmodel::pop_sizes(map);
    let full: Vec<usize> = n.iter().map(|n| 2 * n + 1).collect();
    let mut evals = 0;
    let mut viols = Vec::new();
    for to_idx in indices(&full) {
        let to: Vec<usize> = to_idx.iter().map(|t| t + 1).collect();
        evals += 1;
        let after = build_site_reader(Box::new(MemReader::from_classes(s, &rows)), map, None)
            .and_then(|mut r| run_reader(&mut r))
            .and_then(|c| match project_real(&c.spectrum, &to) {
                Ok(Ok(x)) => Ok(x),
                other => Err(format!("{other:?}")),
            });
        let during = build_site_reader(Box::new(MemReader::from_classes(s, &rows)), map, Some(&to))
            .and_then(|mut r| run_reader(&mut r))
            .map(|c| c.spectrum);
        match (&after, &during) {
            (Ok(a), Ok(b)) if a.shape == b.shape && a.data.iter().zip(&b.data).all(|(x, y)| (x - y).abs() <= 1e-9 * y.abs() + 1e-9) => {}
            _ => {
                if viols.len() < 3 {
                    viols.push((
                        "C03|lib|create-then-project-differs".to_string(),
                        format!("map {map:?} target {to:?}: project(create) = {after:?}, create --project = {during:?}"),
                        J::obj([("kind", J::s("c03-create")), ("to", J::usizes(&to))]),
                    ))
                }
            }
        }
    }
    (evals, viols)
}

#[derive(Clone)]
struct CliCase {
    shape: Vec<usize>,
    to: Vec<usize>,
    individuals: bool,
}

fn eval_cli(c: &CliCase, scratch: &Scratch) -> Vec<Viol> {
    let x = RefArray::from_fn(&c.shape, |f, _| ((f * 7) % 11 + 1) as f64);
    let input = text_of(&x);
    let (flag, arg) = if c.individuals {
        ("-p", join_usizes(&c.to.iter().map(|t| (t - 1) / 2).collect::<Vec<_>>(), ","))
    } else {
        ("--project-shape", join_usizes(&c.to, ","))
    };
    let o = run_sfs(&["view", flag, &arg, "--precision", "10"], Stdin::Bytes(input.as_bytes()), scratch);
    let invalid = c.to.len() != c.shape.len()
        || c.to.iter().any(|&t| t == 0)
        || c.to.iter().zip(&c.shape).any(|(t, s)| t > s);
    let case = J::obj([
        ("kind", J::s("c03-cli")),
        ("shape", J::usizes(&c.shape)),
        ("to", J::usizes(&c.to)),
        ("individuals", J::Bool(c.individuals)),
        ("stdin", J::s(input.clone())),
    ]);
    if invalid {
        if o.ok() || !o.stdout.is_empty() || !o.diagnosed_error() {
            return vec![(
                "C03|cli|invalid-target-not-rejected".into(),
                format!("view {flag} {arg} on shape {:?}: {} stdout={:?} stderr={:?}", c.shape, o.status_str(), o.stdout_str(), o.stderr_str()),
                case,
            )];
        }
        return vec![];
    }
    let expect = x.project(&c.to);
    match parse_out(&o) {
        Ok(got)
            if got.shape == expect.shape
                && got.data.iter().zip(&expect.data).all(|(g, e)| printed_ok(*g, *e, 10)) =>
        {
            vec![]
        }
        other => vec![(
            format!("C03|cli|project-wrong|{}", if c.individuals { "-p" } else { "shape" }),
            format!("view {flag} {arg} on shape {:?} gave {other:?}, expected {:?}", c.shape, expect.data),
            case,
        )],
    }
}

/// A projection given together with other `view` options: the axes named by the target are those that
/// remain after marginalization, masking and normalizing come after the projection.
fn eval_cli_cross(shape: &[usize], marg: Option<usize>, to: &[usize], mask: bool, normalize: bool, scratch: &Scratch) -> Option<Viol> {
    let x = RefArray::from_fn(shape, |f, _| ((f * 7) % 11 + 1) as f64);
    let input = text_of(&x);
    let arg = join_usizes(to, ",");
    let ms = marg.map(|a| a.to_string());
    let mut a: Vec<&str> = vec!["view"];
    if let Some(m) = &ms {
        a.extend(["-m", m]);
    }
    a.extend(["--project-shape", &arg]);
    if mask {
        a.push("--mask-monomorphic");
    }
    if normalize {
        a.push("--normalize");
    }
    a.extend(["--precision", "10"]);
    let o = run_sfs(&a, Stdin::Bytes(input.as_bytes()), scratch);
    let mut expect = match marg {
        Some(m) => x.marginalize(&[m]),
        None => x.clone(),
    }
    .project(to);
    if mask {
        let n = expect.data.len();
        expect.data[0] = 0.0;
        expect.data[n - 1] = 0.0;
    }
    if normalize {
        let t = expect.sum();
        for v in expect.data.iter_mut() {
            *v /= t;
        }
    }
    match parse_out(&o) {
        Ok(got) if got.shape == expect.shape && got.data.iter().zip(&expect.data).all(|(g, e)| printed_ok(*g, *e, 10)) => None,
        other => Some((
            format!("C03|cli|project-with-other-options|{}{}{}", if marg.is_some() { "marginalize," } else { "" }, if mask { "mask," } else { "" }, if normalize { "normalize" } else { "" }),
            format!("{a:?} on shape {shape:?} gave {other:?}, expected {:?} {:?}", expect.shape, expect.data),
            J::obj([("kind", J::s("c03-cross")), ("shape", J::usizes(shape)), ("marg", marg.map_or(J::Null, J::u)), ("to", J::usizes(to)), ("mask", J::Bool(mask)), ("normalize", J::Bool(normalize))]),
        )),
    }
}

pub fn run(tier: Tier) -> i32 {
    let mut rep = Report::new("C03", tier, "exploration");
    rep.rule = "(i) every coefficient hypergeometric_pmf(N,K,n,k) for all 0<=K,n<=N, 0<=k<=n+1 up to the bound, plus a ladder of large N on a boundary grid, against an exact-integer / compensated-log reference; (ii) Spectrum::project of every basis vector of every shape in the bound to every admissible target (a linear map is decided by its basis images) plus a non-linear-looking ramp; (iii) laws (mass, non-negativity, bit-exact identity, two-step via every intermediate shape, commutation with marginalization, create-then-project); (iv) every invalid target in a box; (v) `sfs view --project-shape/-p`. Non-trivial = strictly smaller target with interior source index / interior coefficient.".into();

    // (i)
    let nmax = tier.pick(72u64, 200u64);
    let ns: Vec<u64> = (0..=nmax).collect();
    let res = par_each(&ns, |&n| coef_full(n));
    let (mut ev, mut nt) = (0, 0);
    for (e, n, v) in res {
        ev += e;
        nt += n;
        for (k, w, j) in v {
            rep.violation(k, w, j);
        }
    }
    rep.part(Part {
        name: "lib: all coefficients".into(),
        evaluations: ev,
        nontrivial: nt,
        note: format!("every (N,K,n,k) with N<={nmax}"),
        exhaustive: true,
        extra: vec![],
    });
    // between the exhaustive bound and the 170!/171! table boundary, then beyond it
    let mut ladder: Vec<u64> = vec![64, 80, 99, 100, 104, 120, 128, 150, 169, 170, 171, 256, 340, 341, 512, 1029, 1030, 1500, 2048, 4000];
    if tier.thorough() {
        ladder.extend([172, 1031, 6000, 10000, 20000, 40000]);
    }
    let res = par_each(&ladder, |&n| coef_ladder(n));
    let mut ev = 0;
    for (e, _, v) in res {
        ev += e;
        for (k, w, j) in v {
            rep.violation(k, w, j);
        }
    }
    rep.part(Part {
        name: "lib: coefficient ladder".into(),
        evaluations: ev,
        nontrivial: ev,
        note: format!("N in {ladder:?}, K and n in {{0,1,2,N/2,N-1,N}}, all k"),
        exhaustive: true,
        extra: vec![],
    });
    rep.sample(J::obj([
        ("call", J::s("hypergeometric_pmf(N=1030,K=515,n=515,k=257)")),
        ("reference", J::f(hyper_exact(1030, 515, 515, 257))),
    ]));

    // call histories at large sizes: coefficients of size N1, then of size N2, on a *fresh* thread
    // (tables or caches grown on demand may depend on the order in which sizes were first seen)
    {
        let sizes: [u64; 9] = [60, 150, 171, 200, 256, 341, 600, 1030, 2000];
        let mut pairs: Vec<(u64, u64)> = Vec::new();
        for a in sizes {
            for b in sizes {
                pairs.push((a, b));
            }
        }
        let res = par_map(pairs.len(), |i| {
            let (n1, n2) = pairs[i];
            std::thread::spawn(move || {
                let mut viols: Vec<Viol> = Vec::new();
                let probe = |n: u64, viols: &mut Vec<Viol>, record: bool| {
                    for big_k in [0, 1, n / 3, n / 2, n - 1, n] {
                        for m in [1, 2, n / 2, n - 1, n] {
                            for k in [0, 1, m / 2, m] {
                                if record {
                                    check_coef(n, big_k, m, k, viols);
                                } else {
                                    let _ = catch(|| hypergeometric_pmf(n, big_k, m, k));
                                }
                            }
                        }
                    }
                };
                probe(n1, &mut viols, false);
                probe(n2, &mut viols, true);
                viols
                    .into_iter()
                    .take(2)
                    .map(|(k, w, j)| (format!("{k}|after-size-{}", if n1 < n2 { "smaller" } else if n1 > n2 { "larger" } else { "equal" }), format!("on a fresh thread, after coefficients of size {n1}: {w}"), j))
                    .collect::<Vec<Viol>>()
            })
            .join()
            .unwrap_or_default()
        });
        for v in res.into_iter().flatten() {
            rep.violation(v.0, v.1, v.2);
        }
        // one projection whose later axis is larger than its earlier one, and the transpose
        let mut ev2 = 0u64;
        for (shape, to) in [(vec![174usize, 192], vec![4usize, 42]), (vec![192, 174], vec![42, 4]), (vec![31, 230], vec![31, 3])] {
            ev2 += 1;
            let x = RefArray::from_fn(&shape, |f, _| ((f * 13) % 17 + 1) as f64);
            let got = std::thread::spawn({
                let x = x.clone();
                let to = to.clone();
                move || project_real(&x, &to)
            })
            .join();
            // reference by separability: project axis by axis with exact coefficients
            let mut expect = RefArray::zeros(&to);
            let (n0, n1) = (shape[0] - 1, shape[1] - 1);
            let (m0, m1) = (to[0] - 1, to[1] - 1);
            let h0: Vec<Vec<f64>> = (0..=n0).map(|k| (0..=m0).map(|kp| hyper_exact(n0 as u64, k as u64, m0 as u64, kp as u64)).collect()).collect();
            let h1: Vec<Vec<f64>> = (0..=n1).map(|k| (0..=m1).map(|kp| hyper_exact(n1 as u64, k as u64, m1 as u64, kp as u64)).collect()).collect();
            for k0 in 0..=n0 {
                for k1 in 0..=n1 {
                    let v = x.get(&[k0, k1]);
                    for (p0, w0) in h0[k0].iter().enumerate() {
                        if *w0 == 0.0 {
                            continue;
                        }
                        for (p1, w1) in h1[k1].iter().enumerate() {
                            expect.data[p0 * to[1] + p1] += v * w0 * w1;
                        }
                    }
                }
            }
            match got {
                Ok(Ok(Ok(g))) if g.shape == expect.shape && g.data.iter().zip(&expect.data).all(|(a, b)| (a - b).abs() <= 1e-8 * b.abs() + 1e-9) => {}
                other => rep.violation(
                    "C03|lib|large-two-axis-wrong",
                    format!("project {shape:?} -> {to:?} on a fresh thread: {:?}; reference mass {}", other.map(|r| r.map(|r| r.map(|g| (g.sum(), g.data[..3].to_vec())))), expect.sum()),
                    lib_case(&shape, &to, "large2"),
                ),
            }
        }
        rep.part(Part {
            name: "lib: size histories on fresh threads".into(),
            evaluations: pairs.len() as u64 + ev2,
            nontrivial: pairs.len() as u64 + ev2,
            note: format!("every ordered pair of sizes {sizes:?}: boundary coefficients of the first size, then of the second, on a newly spawned thread; three two-axis projections with axes of 173/191/229 chromosomes in both orders"),
            exhaustive: true,
            extra: vec![],
        });
    }
    // (ii)+(iii)
    let (md, ml) = tier.pick((3, 4), (3, 5));
    let mut shp = shapes(md, 1, ml, usize::MAX);
    if tier.thorough() {
        shp.extend(shapes(4, 1, 3, usize::MAX).into_iter().filter(|s| s.len() == 4));
    } else {
        shp.extend(shapes(4, 1, 2, usize::MAX).into_iter().filter(|s| s.len() == 4));
    }
    let res = par_each(&shp, |s| check_shape(s));
    let (mut ev, mut nt) = (0, 0);
    for (e, n, v) in res {
        ev += e;
        nt += n;
        for (k, w, j) in v {
            rep.violation(k, w, j);
        }
    }
    rep.part(Part {
        name: "lib: Spectrum::project wiring and laws".into(),
        evaluations: ev,
        nontrivial: nt,
        note: format!("{} shapes x all admissible targets x all basis vectors; two-step via all intermediates; commute with marginalize", shp.len()),
        exhaustive: true,
        extra: vec![],
    });
    // call histories of length 2: project(A -> a) directly followed by project(B -> b) on one thread
    {
        let lens = tier.pick(4, 5);
        let mut calls: Vec<(Vec<usize>, Vec<usize>)> = Vec::new();
        for sh in shapes(2, 1, lens, usize::MAX) {
            for t in crate::enumerate::indices(&sh) {
                calls.push((sh.clone(), t.iter().map(|x| x + 1).collect()));
            }
        }
        let res = par_map(calls.len(), |i| {
            let (a_shape, a_to) = &calls[i];
            let a = RefArray::from_fn(a_shape, |f, _| (f + 1) as f64);
            let mut viols: Vec<Viol> = Vec::new();
            for (b_shape, b_to) in &calls {
                let b = RefArray::from_fn(b_shape, |f, _| ((f * 3) % 7 + 1) as f64);
                let expect = b.project(b_to);
                let got = catch(|| {
                    let _ = scs_from_ref(&a).project(Shape(a_to.clone()));
                    scs_from_ref(&b).project(Shape(b_to.clone())).map(|s| ref_from_spectrum(&s)).map_err(|e| e.to_string())
                });
                match got {
                    Ok(Ok(g)) if arr_close(&g, &expect) => {}
                    other => {
                        if viols.len() < 2 {
                            viols.push((
                                "C03|lib|projection-depends-on-previous-call".into(),
                                format!("project {b_shape:?} -> {b_to:?} directly after project {a_shape:?} -> {a_to:?} on the same thread gives {other:?}, expected {:?}", expect.data),
                                J::obj([("kind", J::s("c03-hist")), ("first_shape", J::usizes(a_shape)), ("first_to", J::usizes(a_to)), ("shape", J::usizes(b_shape)), ("to", J::usizes(b_to))]),
                            ));
                        }
                    }
                }
            }
            viols
        });
        for v in res.into_iter().flatten() {
            rep.violation(v.0, v.1, v.2);
        }
        let n = (calls.len() * calls.len()) as u64;
        rep.part(Part {
            name: "lib: projection after projection (call histories of length 2)".into(),
            evaluations: n,
            nontrivial: n,
            note: format!("every ordered pair of the {} (shape, target) projections with <=2 axes and lengths <={lens}, run back to back on one thread; the second result must equal the reference", calls.len()),
            exhaustive: true,
            extra: vec![],
        });
    }
    rep.sample(J::obj([
        ("shape", J::usizes(&[4, 3])),
        ("basis", J::usizes(&[2, 1])),
        ("to", J::usizes(&[3, 2])),
        ("expected", J::f64s(&{
            let mut x = RefArray::zeros(&[4, 3]);
            x.add(&[2, 1], 1.0);
            x.project(&[3, 2]).data
        })),
    ]));

    // (iv)
    let err_shapes: Vec<Vec<usize>> = vec![vec![1], vec![3], vec![2, 3], vec![3, 1, 2], vec![2, 2, 2, 2]];
    let res = par_each(&err_shapes, |s| check_errors(s));
    let mut ev = 0;
    for (e, v) in res {
        ev += e;
        for (k, w, j) in v {
            rep.violation(k, w, j);
        }
    }
    rep.part(Part {
        name: "lib: invalid targets".into(),
        evaluations: ev,
        nontrivial: ev,
        note: "every target in the box [0..n_j+2]^d plus wrong dimensionalities, 5 shapes".into(),
        exhaustive: true,
        extra: vec![],
    });

    // large sizes
    let mut larges: Vec<usize> = vec![171, 340, 1029, 1030, 2000, 4100];
    if tier.thorough() {
        larges.extend([4000, 8000]);
    }
    let res = par_each(&larges, |&n| check_large(n));
    let mut ev = 0;
    for (e, v) in res {
        ev += e;
        for (k, w, j) in v {
            rep.violation(k, w, j);
        }
    }
    // spectra with more than 4096 / 65536 entries on several axes, projected to small targets
    {
        let bigs: Vec<(Vec<usize>, Vec<usize>)> = vec![
            (vec![65, 65], vec![5, 5]),
            (vec![65, 65], vec![64, 2]),
            (vec![17, 17, 17], vec![3, 3, 3]),
            (vec![4201], vec![11]),
            (vec![9, 9, 9, 9], vec![2, 3, 2, 3]),
            (vec![300, 221], vec![4, 3]),
        ];
        let res = par_map(bigs.len(), |i| {
            let (shape, to) = &bigs[i];
            let cells: usize = shape.iter().product();
            // every entry carries mass, the last ones in particular
            let x = RefArray::from_fn(shape, |f, _| if f + 3 >= cells { 1200.0 } else { ((f * 11) % 23 + 1) as f64 });
            let expect = x.project(to);
            match project_real(&x, to) {
                Ok(Ok(g)) if arr_close(&g, &expect) => None,
                other => Some((
                    "C03|lib|big-spectrum-wrong".to_string(),
                    format!("project {shape:?} ({cells} entries) -> {to:?}: {:?}; reference mass {} first entries {:?}", other.map(|r| r.map(|g| (g.sum(), g.data[..3].to_vec()))), expect.sum(), &expect.data[..3]),
                    lib_case(shape, to, "big"),
                )),
            }
        });
        for v in res.into_iter().flatten() {
            rep.violation(v.0, v.1, v.2);
        }
        rep.part(Part {
            name: "lib: spectra of thousands of entries on several axes".into(),
            evaluations: bigs.len() as u64,
            nontrivial: bigs.len() as u64,
            note: "65x65, 17^3, 9^4, 300x221 and 4 201 entries (odd entry counts, mass in the last entries) projected to small targets, every target entry against the reference".into(),
            exhaustive: true,
            extra: vec![],
        });
    }
    rep.part(Part {
        name: "lib: one-axis spectra of thousands of chromosomes".into(),
        evaluations: ev,
        nontrivial: ev,
        note: format!("n in {larges:?} chromosomes projected to n, n-1, n/2, 2, 1"),
        exhaustive: true,
        extra: vec![],
    });

    // create relation
    let maps: Vec<Vec<Option<usize>>> = sample_maps(tier.pick(3, 4), 3);
    let res = par_each(&maps, |m| check_create_relation(m));
    let mut ev = 0;
    for (e, v) in res {
        ev += e;
        for (k, w, j) in v {
            rep.violation(k, w, j);
        }
    }
    rep.part(Part {
        name: "lib: project(create) == create --project on complete data".into(),
        evaluations: ev,
        nontrivial: ev,
        note: format!("{} sample maps x all targets, every complete genotype row once", maps.len()),
        exhaustive: true,
        extra: vec![],
    });

    // projection during creation: the sites handed out by the reader dropped and weighted (shared with C11)
    {
        let (n, viols) = super::c11::scripts_for("C03", "projected-weights", tier);
        for (k, w, j) in viols {
            rep.violation(k, w, j);
        }
        rep.part(Part {
            name: "lib: projected sites dropped and weighted".into(),
            evaluations: n,
            nontrivial: n,
            note: "every sequence of 1..3 (thorough 4) symbols over {six record kinds, a change of the column layout} under five projection set-ups x {add, drop, weight -1, weight 0.5, weight 3 then 2}: projecting during creation adds each row's own hypergeometric contribution times its weight".into(),
            exhaustive: true,
            extra: vec![],
        });
    }
    // (v) CLI
    let scratch = Scratch::new("c03");
    let cli_shapes: Vec<Vec<usize>> = vec![vec![7], vec![3, 5], vec![5, 3, 3], vec![3, 3, 3, 3], vec![2, 4], vec![9, 1]];
    let mut cases = Vec::new();
    for s in &cli_shapes {
        let bx: Vec<usize> = s.iter().map(|n| n + 2).collect();
        let all: Vec<Vec<usize>> = indices(&bx);
        // all targets when few, else a boundary subset
        for to in all {
            let boundary = to.iter().zip(s).all(|(t, n)| *t <= 1 || *t + 1 >= *n || *t == n / 2 + 1);
            if s.iter().product::<usize>() <= 16 || boundary {
                cases.push(CliCase { shape: s.clone(), to: to.clone(), individuals: false });
                if to.iter().all(|t| t % 2 == 1) {
                    cases.push(CliCase { shape: s.clone(), to, individuals: true });
                }
            }
        }
        cases.push(CliCase { shape: s.clone(), to: vec![1; s.len() + 1], individuals: false });
        if s.len() > 1 {
            cases.push(CliCase { shape: s.clone(), to: vec![1; s.len() - 1], individuals: false });
        }
        // targets of the wrong dimensionality that *agree* with the source on the axes they share:
        // every proper prefix and suffix, every single axis dropped, an axis appended / prepended / doubled
        let mut wrong: Vec<Vec<usize>> = Vec::new();
        for k in 1..s.len() {
            wrong.push(s[..k].to_vec());
            wrong.push(s[k..].to_vec());
        }
        for a in 0..s.len() {
            if s.len() > 1 {
                let mut t = s.clone();
                t.remove(a);
                wrong.push(t);
            }
            let mut t = s.clone();
            t.insert(a, s[a]);
            wrong.push(t);
        }
        for extra in [1usize, 2, *s.last().unwrap()] {
            let mut t = s.clone();
            t.push(extra);
            wrong.push(t);
            let mut t = s.clone();
            t.insert(0, extra);
            wrong.push(t);
        }
        wrong.sort();
        wrong.dedup();
        for to in wrong {
            if to.len() == s.len() {
                continue;
            }
            if to.iter().all(|t| t % 2 == 1) {
                cases.push(CliCase { shape: s.clone(), to: to.clone(), individuals: true });
            }
            cases.push(CliCase { shape: s.clone(), to, individuals: false });
        }
    }
    {
        let sp: Vec<(Vec<String>, Vec<u8>)> = cases
            .iter()
            .filter(|c| c.shape.len() >= 2 || c.to.len() == 1)
            .map(|c| {
                let x = RefArray::from_fn(&c.shape, |f, _| ((f * 7) % 11 + 1) as f64);
                let (flag, arg) = if c.individuals { ("-p", join_usizes(&c.to.iter().map(|t| (t.max(&1) - 1) / 2).collect::<Vec<_>>(), ",")) } else { ("--project-shape", join_usizes(&c.to, ",")) };
                (vec!["view".to_string(), flag.to_string(), arg, "--precision".to_string(), "10".to_string()], text_of(&x).into_bytes())
            })
            .collect();
        super::spelling_part(&mut rep, "C03", "every projection target of the CLI part, valid and invalid", &sp, &scratch);
    }
    let res = par_map(cases.len(), |i| eval_cli(&cases[i], &scratch));
    for v in res.into_iter().flatten() {
        rep.violation(v.0, v.1, v.2);
    }
    rep.part(Part {
        name: "cli: view --project-shape / -p".into(),
        evaluations: cases.len() as u64,
        nontrivial: cases.iter().filter(|c| c.to.iter().zip(&c.shape).any(|(t, s)| t < s)).count() as u64,
        note: format!("{} shapes x boundary targets incl. invalid ones (larger, zero, and every wrong-dimensionality target that agrees with the source on shared axes: prefixes, suffixes, an axis dropped / appended / prepended / doubled)", cli_shapes.len()),
        exhaustive: true,
        extra: vec![],
    });
    // projection together with the other view options (unequal axis lengths, every axis removed in turn)
    {
        let mut xj: Vec<(Vec<usize>, Option<usize>, Vec<usize>, bool, bool)> = Vec::new();
        for sh in [vec![3usize, 5], vec![5, 3], vec![5, 3, 4], vec![2, 4, 3]] {
            let mut margs: Vec<Option<usize>> = vec![None];
            margs.extend((0..sh.len()).map(Some));
            for m in margs {
                let rest: Vec<usize> = sh.iter().enumerate().filter(|(a, _)| Some(*a) != m).map(|(_, n)| *n).collect();
                for to in indices(&rest) {
                    let to: Vec<usize> = to.iter().map(|t| t + 1).collect();
                    // every target for two remaining axes, the corner targets for three
                    if rest.len() >= 3 && !to.iter().zip(&rest).all(|(t, n)| *t == 1 || t == n || *t + 1 == *n) {
                        continue;
                    }
                    for (mask, normalize) in [(false, false), (true, false), (false, true), (true, true)] {
                        if m.is_none() && !mask && !normalize {
                            continue;
                        }
                        xj.push((sh.clone(), m, to.clone(), mask, normalize));
                    }
                }
            }
        }
        let res = par_map(xj.len(), |i| eval_cli_cross(&xj[i].0, xj[i].1, &xj[i].2, xj[i].3, xj[i].4, &scratch));
        for v in res.into_iter().flatten() {
            rep.violation(v.0, v.1, v.2);
        }
        rep.part(Part {
            name: "cli: projection together with other view options".into(),
            evaluations: xj.len() as u64,
            nontrivial: xj.len() as u64,
            note: "shapes 3x5, 5x3, 5x3x4, 2x4x3 x {no axis, each axis} marginalized x every target of the remaining axes (corner targets for three axes) x {mask, normalize, both, neither}: the result is normalize(mask(project(marginalize(x))))".into(),
            exhaustive: true,
            extra: vec![],
        });
    }
    // targets given as individuals at and beyond the limits of the integer types: 2i+1 must not wrap
    {
        let x = RefArray::from_fn(&[9], |f, _| (f + 1) as f64);
        let input = text_of(&x);
        let mut n = 0u64;
        for base in [1u128 << 31, 1 << 32, 1 << 62, 1 << 63, (1 << 64) - 8] {
            for k in 0..8u128 {
                let v = base + k;
                if v >= 1 << 64 {
                    continue;
                }
                n += 1;
                let arg = v.to_string();
                let o = run_sfs(&["view", "-p", &arg], Stdin::Bytes(input.as_bytes()), &scratch);
                if o.ok() || !o.stdout.is_empty() || !o.diagnosed_error() {
                    rep.violation(
                        "C03|cli|invalid-target-not-rejected|huge-individuals".to_string(),
                        format!("view -p {arg} on a 9-entry spectrum: {} stdout {:?} stderr {:?}", o.status_str(), o.stdout_str(), o.stderr_str().trim()),
                        J::obj([("kind", J::s("c03-huge-p")), ("individuals", J::s(arg.clone()))]),
                    );
                }
            }
        }
        rep.part(Part {
            name: "cli: absurd numbers of individuals".into(),
            evaluations: n,
            nontrivial: n,
            note: "view -p i on a 9-entry spectrum for i = 2^31 .. 2^31+7, 2^32 .., 2^62 .., 2^63 .., 2^64-8 .. 2^64-1: every one is larger than the source and must be rejected".into(),
            exhaustive: true,
            extra: vec![],
        });
    }
    {
        let sp: Vec<(RefArray, usize)> = vec![
            (RefArray::from_fn(&[9], |f, _| (f + 1) as f64), 6).0.project(&[5]),
            RefArray::from_fn(&[5, 7], |f, _| ((f * 5) % 13) as f64).project(&[3, 4]),
            RefArray::from_fn(&[4, 4, 4], |f, _| (f % 5) as f64).project(&[2, 3, 2]),
        ]
        .into_iter()
        .zip([6usize, 3, 12])
        .collect();
        super::plain_streams_part(&mut rep, "C03", "three projected spectra with 1..3 axes at precision 3, 6 and 12", &sp);
    }
    rep.assumptions = vec![
        "reference hyper_exact: exact u128 binomials for N<=120, compensated ln-factorial sums above (relative accuracy ~1e-11)".into(),
        "single coefficients are compared relatively, also in the far tails: 1e-11 for N <= 170, 1e-10 for N <= 5000, 1e-8 above (the unchanged tree is within 1e-13 / 2e-12 of the exact value); sums over many coefficients within 1e-8|r| + 1e-13 (DESIGN 2.9)".into(),
    ];
    let _ = Scs::from_zeros(1usize);
    rep.finish()
}

pub fn replay(case: &J) -> Option<Vec<String>> {
    let fmt = |v: Vec<Viol>| v.into_iter().map(|(k, w, _)| format!("{k} :: {w}")).collect();
    match case.get("kind")?.as_str()? {
        "c03-coef" => {
            let g = |k: &str| case.get(k).and_then(|x| x.as_i64()).map(|x| x as u64);
            let mut v = Vec::new();
            check_coef(g("N")?, g("K")?, g("n")?, g("k")?, &mut v);
            Some(fmt(v))
        }
        "c03-lib" => {
            let shape = case.get("shape")?.as_usizes()?;
            let what = case.get("what")?.as_str()?;
            let v = match what {
                "errors" => check_errors(&shape).1,
                "large" => check_large(shape[0] - 1).1,
                "large2" | "big" => {
                    // one projection of a large spectrum: re-run exactly that projection (on a fresh thread)
                    let to = case.get("to")?.as_usizes()?;
                    let cells: usize = shape.iter().product();
                    let x = if what == "big" {
                        RefArray::from_fn(&shape, |f, _| if f + 3 >= cells { 1200.0 } else { ((f * 11) % 23 + 1) as f64 })
                    } else {
                        RefArray::from_fn(&shape, |f, _| ((f * 13) % 17 + 1) as f64)
                    };
                    let expect = x.project(&to);
                    let got = std::thread::spawn({
                        let x = x.clone();
                        let to = to.clone();
                        move || project_real(&x, &to)
                    })
                    .join();
                    return Some(match got {
                        Ok(Ok(Ok(g))) if g.shape == expect.shape && g.data.iter().zip(&expect.data).all(|(a, b)| (a - b).abs() <= 1e-8 * b.abs() + 1e-9) => vec![],
                        other => vec![format!("C03|lib|large-spectrum-wrong :: project {shape:?} -> {to:?}: {:?}", other.map(|r| r.map(|r| r.map(|g| g.sum()))))],
                    });
                }
                _ if shape.iter().product::<usize>() > 4096 => return None,
                _ => check_shape(&shape).2,
            };
            Some(fmt(v))
        }
        "c03-hist" => {
            let a_shape = case.get("first_shape")?.as_usizes()?;
            let a_to = case.get("first_to")?.as_usizes()?;
            let b_shape = case.get("shape")?.as_usizes()?;
            let b_to = case.get("to")?.as_usizes()?;
            let a = RefArray::from_fn(&a_shape, |f, _| (f + 1) as f64);
            let b = RefArray::from_fn(&b_shape, |f, _| ((f * 3) % 7 + 1) as f64);
            let expect = b.project(&b_to);
            let got = catch(|| {
                let _ = scs_from_ref(&a).project(Shape(a_to.clone()));
                scs_from_ref(&b).project(Shape(b_to.clone())).map(|s| ref_from_spectrum(&s)).map_err(|e| e.to_string())
            });
            Some(match got {
                Ok(Ok(g)) if arr_close(&g, &expect) => vec![],
                other => vec![format!("C03|lib|projection-depends-on-previous-call :: {other:?}, expected {:?}", expect.data)],
            })
        }
        "c03-script" => super::c11::replay_script(case),
        "c03-cross" => {
            let scratch = Scratch::new("c03r");
            let b = |k: &str| matches!(case.get(k), Some(J::Bool(true)));
            let marg = case.get("marg").and_then(|m| m.as_i64()).map(|m| m as usize);
            Some(eval_cli_cross(&case.get("shape")?.as_usizes()?, marg, &case.get("to")?.as_usizes()?, b("mask"), b("normalize"), &scratch).into_iter().map(|(k, w, _)| format!("{k} :: {w}")).collect())
        }
        "c03-cli" => {
            let c = CliCase {
                shape: case.get("shape")?.as_usizes()?,
                to: case.get("to")?.as_usizes()?,
                individuals: matches!(case.get("individuals"), Some(J::Bool(true))),
            };
            let scratch = Scratch::new("c03r");
            Some(fmt(eval_cli(&c, &scratch)))
        }
        _ => None,
    }
}
