//! C06 — statistics equal their definitions on genotypes and the published estimators.

use crate::{
    cli::{run_sfs, Scratch, Stdin},
    createmodel::{build_site_reader, run_reader, sample_arg, Cls, MemReader},
    enumerate::{indices, shapes},
    gen::{to_vcf, CallSet},
    json::J,
    par::par_map,
    refmodel::{close_stat, RefArray},
    statref::{admissible, real_stat, ref_stat, stat_from_genotypes, ALL_STATS},
    subject::{scs_from_ref, text_of},
    verdict::{catch, norm_msg, Part, Report, Tier},
};

type Viol = (String, String, J);

fn shape_class(shape: &[usize]) -> String {
    let unequal = shape.iter().any(|n| *n != shape[0]);
    format!("{}d{}", shape.len(), if unequal { ",unequal" } else { "" })
}

fn scale_of(x: &RefArray) -> f64 {
    x.data.iter().fold(0.0f64, |m, v| m.max(v.abs())).max(1.0)
}

fn spec_case(stat: &str, x: &RefArray, what: &str) -> J {
    J::obj([
        ("kind", J::s("c06-spectrum")),
        ("stat", J::s(stat)),
        ("shape", J::usizes(&x.shape)),
        ("values", J::f64s(&x.data[..x.data.len().min(64)])),
        ("nonzero", J::arr(x.data.iter().enumerate().filter(|(_, v)| **v != 0.0).take(8).map(|(i, v)| J::arr([J::u(i), J::f(*v)])))),
        ("what", J::s(what)),
    ])
}

/// Compares the real statistic with the reference on one spectrum.
fn check_spectrum(stat: &str, x: &RefArray, what: &str) -> Option<Viol> {
    check_spectrum_w(stat, x, what, None)
}

/// `weight`: the share of one site in the spectrum (1 / total) when the statistic is a site average
/// whose value is of that order; the comparison is then relative to it rather than to one.
fn check_spectrum_w(stat: &str, x: &RefArray, what: &str, weight: Option<f64>) -> Option<Viol> {
    // Tajima's D with n = 3 is identically 0/0 (pi = S/a_1 and both variance coefficients vanish):
    // whatever floating-point rounding makes of it is not a defect
    if stat == "d-tajima" && x.shape == [4] {
        return None;
    }
    let scs = scs_from_ref(x);
    let r = ref_stat(stat, x);
    let scale = match stat {
        "sum" | "s" | "pi" | "theta" | "pi-xy" => scale_of(x),
        _ => 1.0,
    };
    match catch(|| real_stat(stat, &scs)) {
        Ok(Ok(v)) => {
            let ok = match weight {
                Some(w) => crate::refmodel::close(v, r, 1e-9, 1e-12 * w),
                None => close_stat(v, r, scale),
            };
            if ok {
                None
            } else {
                Some((
                    format!("C06|lib|{stat}-wrong|{}|{what}", shape_class(&x.shape)),
                    format!("{stat} on shape {:?} ({what}): {v:e}, definition gives {r:e}", x.shape),
                    spec_case(stat, x, what),
                ))
            }
        }
        Ok(Err(e)) => Some((
            format!("C06|lib|{stat}-rejected|{}", shape_class(&x.shape)),
            format!("{stat} on shape {:?} rejected: {e}", x.shape),
            spec_case(stat, x, what),
        )),
        Err(p) => Some((
            format!("C06|lib|{stat}-panic|{}", norm_msg(&p)),
            format!("{stat} on shape {:?} panicked: {p}", x.shape),
            spec_case(stat, x, what),
        )),
    }
}

fn basis(shape: &[usize], i: usize, v: f64) -> RefArray {
    let mut x = RefArray::zeros(shape);
    x.data[i] = v;
    x
}

/// (a) coefficient level for one (stat, shape)
fn coefficient_level(stat: &str, shape: &[usize], pairs: bool) -> (u64, Vec<Viol>) {
    let cells: usize = shape.iter().product();
    let mut viols: Vec<Viol> = Vec::new();
    let mut evals = 0;
    let mut push = |v: Option<Viol>, viols: &mut Vec<Viol>| {
        if let Some(v) = v {
            if viols.len() < 4 {
                viols.push(v);
            }
        }
    };
    for i in 0..cells {
        evals += 1;
        push(check_spectrum(stat, &basis(shape, i, 3.0), "basis"), &mut viols);
    }
    if pairs {
        for i in 0..cells {
            for j in i + 1..cells {
                evals += 1;
                let mut x = basis(shape, i, 3.0);
                x.data[j] = 5.0;
                push(check_spectrum(stat, &x, "two-cell"), &mut viols);
            }
        }
    }
    // a rare class of sites in a genome-sized spectrum: one, two or three sites in a cell next to a
    // monomorphic corner of 1e6 .. 1e13 sites (the share of the class goes down to 1e-13; a site
    // average is then of that order and is compared relative to it)
    for corner in [1e6, 3.1e9, 1e13] {
        for i in 1..cells {
            for c in [1.0, 3.0] {
                evals += 1;
                let mut x = basis(shape, i, c);
                x.data[0] = corner;
                let w = match stat {
                    "f2" | "f3" | "f4" => Some(1.0 / (corner + c)),
                    _ => None,
                };
                push(check_spectrum_w(stat, &x, "rare-class", w), &mut viols);
            }
        }
    }
    // ramps: a linear and a 1/k-like spectrum
    evals += 2;
    push(check_spectrum(stat, &RefArray::from_fn(shape, |f, _| (f * 7 % 13 + 1) as f64), "ramp"), &mut viols);
    push(check_spectrum(stat, &RefArray::from_fn(shape, |f, _| 100.0 / (f + 1) as f64), "one-over-k"), &mut viols);
    (evals, viols)
}

/// 1-D estimators for one n: basis (all or boundary), pairs for small n, textbook-like spectra.
fn estimators_1d(n: usize) -> (u64, Vec<Viol>) {
    let shape = vec![n + 1];
    let mut viols: Vec<Viol> = Vec::new();
    let mut evals = 0;
    let cells: Vec<usize> = if n <= 60 {
        (0..=n).collect()
    } else {
        let mut v = vec![0, 1, 2, 3, n / 2, n - 2, n - 1, n, 170.min(n), 171.min(n), 172.min(n)];
        v.sort();
        v.dedup();
        v
    };
    for stat in ["pi", "theta", "d-tajima", "d-fu-li", "s", "sum"] {
        for &k in &cells {
            evals += 1;
            if let Some(v) = check_spectrum(stat, &basis(&shape, k, 4.0), "basis") {
                if viols.len() < 6 {
                    viols.push(v);
                }
            }
        }
        if n <= 12 {
            for i in 0..=n {
                for j in i + 1..=n {
                    evals += 1;
                    let mut x = basis(&shape, i, 3.0);
                    x.data[j] = 5.0;
                    if let Some(v) = check_spectrum(stat, &x, "two-cell") {
                        if viols.len() < 6 {
                            viols.push(v);
                        }
                    }
                }
            }
        }
        // neutral-like spectrum theta/k, a ramp, an excess of singletons, an excess of high-frequency variants
        let specs = [
            ("neutral", RefArray::from_fn(&shape, |f, _| if f == 0 || f == n { 1000.0 } else { 60.0 / f as f64 })),
            ("ramp", RefArray::from_fn(&shape, |f, _| (f % 9 + 1) as f64)),
            ("singletons", RefArray::from_fn(&shape, |f, _| if f == 1 { 40.0 } else if f == 0 || f == n { 500.0 } else { 1.0 })),
            ("high-frequency", RefArray::from_fn(&shape, |f, _| if f + 2 >= n && f < n { 25.0 } else if f == 0 { 300.0 } else { 0.5 })),
        ];
        for (name, x) in specs {
            evals += 1;
            if let Some(v) = check_spectrum(stat, &x, name) {
                if viols.len() < 6 {
                    viols.push(v);
                }
            }
        }
    }
    (evals, viols)
}

// ---------------------------------------------------------------------------------------------
// (b) genotype level

#[derive(Clone)]
struct GenoCase {
    sizes: Vec<usize>,
}

fn geno_data(sizes: &[usize]) -> (Vec<Option<usize>>, Vec<Vec<usize>>, Vec<Vec<usize>>) {
    let s: usize = sizes.iter().sum();
    let mut map = Vec::new();
    let mut pops: Vec<Vec<usize>> = Vec::new();
    for (j, n) in sizes.iter().enumerate() {
        let start = map.len();
        for _ in 0..*n {
            map.push(Some(j));
        }
        pops.push((start..start + n).collect());
    }
    // every complete genotype row, with a pattern-dependent multiplicity 1..3 (breaks symmetries)
    let mut sites = Vec::new();
    for row in indices(&vec![3; s]) {
        let w = 1 + row.iter().enumerate().map(|(i, g)| (i + 1) * g).sum::<usize>() % 3;
        for _ in 0..w {
            sites.push(row.clone());
        }
    }
    (map, pops, sites)
}

fn stats_for_dim(shape: &[usize]) -> Vec<&'static str> {
    ALL_STATS.iter().copied().filter(|s| admissible(s, shape)).collect()
}

fn eval_geno(c: &GenoCase, scratch: Option<&Scratch>) -> Vec<Viol> {
    let (map, pops, sites) = geno_data(&c.sizes);
    let shape: Vec<usize> = c.sizes.iter().map(|n| 2 * n + 1).collect();
    let stats = stats_for_dim(&shape);
    let mut viols = Vec::new();
    let expect: Vec<f64> = stats.iter().map(|s| stat_from_genotypes(s, &sites, &pops)).collect();
    let rows: Vec<Vec<Cls>> = sites.iter().map(|r| r.iter().map(|g| [Cls::G0, Cls::G1, Cls::G2][*g]).collect()).collect();
    let case = |stat: &str| {
        J::obj([
            ("kind", J::s("c06-genotypes")),
            ("population_sizes", J::usizes(&c.sizes)),
            ("stat", J::s(stat)),
            ("layer", J::s(if scratch.is_some() { "cli" } else { "lib" })),
        ])
    };
    let unequal = if c.sizes.iter().any(|n| *n != c.sizes[0]) { "unequal-sizes" } else { "equal-sizes" };
    match scratch {
        None => {
            let got = build_site_reader(Box::new(MemReader::from_classes(map.len(), &rows)), &map, None).and_then(|mut r| run_reader(&mut r));
            match got {
                Ok(g) => {
                    let scs = scs_from_ref(&g.spectrum);
                    for (stat, e) in stats.iter().zip(&expect) {
                        match catch(|| real_stat(stat, &scs)) {
                            Ok(Ok(v)) if close_stat(v, *e, 1.0) => {}
                            other => viols.push((
                                format!("C06|lib|{stat}-differs-from-genotypes|{}d,{unequal}", c.sizes.len()),
                                format!("population sizes {:?}: {stat} from the created spectrum = {other:?}, from the genotypes = {e:e}", c.sizes),
                                case(stat),
                            )),
                        }
                    }
                }
                Err(e) => viols.push((format!("C06|lib|create-failed|{}", norm_msg(&e)), format!("sizes {:?}: {e}", c.sizes), case("-"))),
            }
        }
        Some(scratch) => {
            let mut cs = CallSet::new(map.len());
            for (i, row) in rows.iter().enumerate() {
                let gts: Vec<&str> = row.iter().enumerate().map(|(j, cl)| cl.spell(i + j)).collect();
                cs.push_gts(&gts);
            }
            let vcf = to_vcf(&cs).0;
            let created = run_sfs(&["create", "-s", &sample_arg(&map)], Stdin::Bytes(&vcf), scratch);
            if !created.ok() {
                viols.push(("C06|cli|create-failed".into(), format!("sizes {:?}: {}", c.sizes, created.stderr_str()), case("-")));
                return viols;
            }
            let list = stats.join(",");
            let o = run_sfs(&["stat", "-s", &list, "--precision", "12", "-H"], Stdin::Bytes(&created.stdout), scratch);
            if !o.ok() {
                viols.push((
                    format!("C06|cli|stat-failed|{}d", c.sizes.len()),
                    format!("sizes {:?}: sfs stat -s {list}: {} {}", c.sizes, o.status_str(), o.stderr_str()),
                    case(&list),
                ));
                return viols;
            }
            let out = o.stdout_str();
            let mut lines = out.lines();
            let header: Vec<&str> = lines.next().unwrap_or("").split(',').collect();
            let vals: Vec<f64> = lines.next().unwrap_or("").split(',').map(|t| t.parse::<f64>().unwrap_or(f64::NAN)).collect();
            if header.len() != stats.len() || vals.len() != stats.len() {
                viols.push(("C06|cli|stat-output-malformed".into(), format!("sizes {:?}: {out:?}", c.sizes), case(&list)));
                return viols;
            }
            for ((stat, e), v) in stats.iter().zip(&expect).zip(&vals) {
                let ok = (v.is_nan() && e.is_nan()) || (v.is_infinite() && e.is_infinite() && v == e) || (v - e).abs() <= 0.6e-12 + 1e-9 * e.abs();
                if !ok {
                    viols.push((
                        format!("C06|cli|{stat}-differs-from-genotypes|{}d,{unequal}", c.sizes.len()),
                        format!("population sizes {:?}: `sfs create | sfs stat -s {list}` reports {stat} = {v}, the genotypes give {e:e}", c.sizes),
                        case(stat),
                    ));
                }
            }
        }
    }
    viols
}

pub fn run(tier: Tier) -> i32 {
    let mut rep = Report::new("C06", tier, "exploration");
    rep.rule = "(a) coefficient level: each linear statistic (sum, S, pi, theta, pi_xy, f2, f3, f4) on every basis spectrum (a linear functional is decided by its values on the basis) and each ratio statistic (Fst, KING, R0, R1) on every one- and two-cell spectrum of every admissible shape with lengths 2..6 (3..6 for Fst), plus ramps; the 1-D estimators (pi, theta, Tajima's D, Fu & Li's D, S, sum) for every n = 3..400 on basis / two-cell / neutral / skewed spectra against formulas typed from the papers. (b) genotype level: every combination of population sizes in {1,2,3}^d, d = 1..3, and {1,2}^4, call set = every complete genotype row with a pattern-dependent multiplicity; statistics from the real create path (library) and from `sfs create | sfs stat -s <all admissible> --precision 12` (binary) against direct computation from the genotypes (pairwise differences by brute force, site means of frequency products, ratio of sums, genotype-pair counts). Non-trivial = unequal sizes, or a statistic without a test in the repository (f3, f4, Fu-Li, KING, R0, R1).".into();

    // (a) linear + ratio statistics on shapes
    let mut jobs: Vec<(&'static str, Vec<usize>, bool)> = Vec::new();
    let max_len = tier.pick(5, 6);
    for s in shapes(2, 2, max_len, usize::MAX).into_iter().filter(|s| s.len() == 2) {
        jobs.push(("pi-xy", s.clone(), false));
        jobs.push(("f2", s.clone(), false));
        jobs.push(("s", s.clone(), false));
        jobs.push(("sum", s.clone(), false));
        if s.iter().all(|n| *n >= 3) {
            jobs.push(("fst", s.clone(), true));
        }
    }
    for s in shapes(3, 2, tier.pick(4, 5), usize::MAX).into_iter().filter(|s| s.len() == 3) {
        jobs.push(("f3", s.clone(), false));
        jobs.push(("s", s, false));
    }
    for s in shapes(4, 2, tier.pick(3, 4), usize::MAX).into_iter().filter(|s| s.len() == 4) {
        jobs.push(("f4", s.clone(), false));
        jobs.push(("sum", s, false));
    }
    for st in ["king", "r0", "r1"] {
        jobs.push((st, vec![3, 3], true));
    }
    let res = par_map(jobs.len(), |i| coefficient_level(jobs[i].0, &jobs[i].1, jobs[i].2));
    let mut ev = 0;
    let mut nt = 0;
    for ((stat, shape, _), (e, v)) in jobs.iter().zip(res) {
        ev += e;
        if shape.iter().any(|n| *n != shape[0]) || ["f3", "f4", "king", "r0", "r1"].contains(stat) {
            nt += e;
        }
        for (k, w, j) in v {
            rep.violation(k, w, j);
        }
    }
    rep.part(Part {
        name: "lib: coefficient level on multi-population shapes".into(),
        evaluations: ev,
        nontrivial: nt,
        note: format!("{} (statistic, shape) pairs; basis vectors, all two-cell spectra for ratio statistics, ramps", jobs.len()),
        exhaustive: true,
        extra: vec![],
    });
    rep.sample(J::obj([
        ("stat", J::s("fst")),
        ("shape", J::usizes(&[3, 5])),
        ("spectrum", J::s("3 at cell (1,2), 5 at cell (2,1)")),
        ("expected", J::f(ref_stat("fst", &{
            let mut x = RefArray::zeros(&[3, 5]);
            x.add(&[1, 2], 3.0);
            x.add(&[2, 1], 5.0);
            x
        }))),
    ]));

    // 1-D estimators for every n
    let mut ns: Vec<usize> = (3..=tier.pick(400, 1000)).collect();
    // beyond the contiguous range: thousands of chromosomes
    ns.extend(if tier.thorough() { vec![1024, 2000, 4096, 5000, 20_000, 65_537] } else { vec![1024, 2000, 5000] });
    let res = par_map(ns.len(), |i| estimators_1d(ns[i]));
    let mut ev = 0;
    for (e, v) in res {
        ev += e;
        for (k, w, j) in v {
            rep.violation(k, w, j);
        }
    }
    rep.part(Part {
        name: "lib: 1-D estimators for every n".into(),
        evaluations: ev,
        nontrivial: ev,
        note: format!("n = 3..{} and a ladder up to 5 000 (thorough 65 537): pi, theta, Tajima's D, Fu & Li's D, S, sum on basis (all cells for n<=60, boundary cells incl. 170..172 above), two-cell (n<=12), neutral / ramp / singleton-excess / high-frequency-excess spectra", tier.pick(400, 1000)),
        exhaustive: true,
        extra: vec![],
    });

    // size histories: the estimators for n1 and then for n2 on a freshly spawned thread, every ordered
    // pair of a size ladder (constants such as harmonic numbers or log-factorials that are tabulated or
    // cached on demand must not depend on which sizes were asked for first)
    {
        let sizes: [usize; 10] = [5, 40, 128, 129, 170, 171, 172, 256, 400, 700];
        let mut pairs: Vec<(usize, usize)> = Vec::new();
        for a in sizes {
            for b in sizes {
                pairs.push((a, b));
            }
        }
        let res = par_map(pairs.len(), |i| {
            let (n1, n2) = pairs[i];
            std::thread::spawn(move || {
                let _ = estimators_1d(n1);
                let (e, v) = estimators_1d(n2);
                (e, v.into_iter().take(2).map(|(k, w, j)| (format!("{k}|after-size-{}", if n1 < n2 { "smaller" } else if n1 > n2 { "larger" } else { "equal" }), format!("on a fresh thread after the estimators for n = {n1}: {w}"), j)).collect::<Vec<Viol>>())
            })
            .join()
            .unwrap_or((0, vec![]))
        });
        let mut ev = 0;
        for (e, v) in res {
            ev += e;
            for (k, w, j) in v {
                rep.violation(k, w, j);
            }
        }
        rep.part(Part {
            name: "lib: size histories on fresh threads".into(),
            evaluations: ev,
            nontrivial: ev,
            note: format!("every ordered pair of n in {sizes:?}: all 1-D estimator checks for the first size, then for the second, on a newly spawned thread"),
            exhaustive: true,
            extra: vec![],
        });
    }

    // (b) genotype level
    let mut cases: Vec<GenoCase> = Vec::new();
    for d in 1..=3 {
        for sz in indices(&vec![3; d]) {
            cases.push(GenoCase { sizes: sz.iter().map(|x| x + 1).collect() });
        }
    }
    for sz in indices(&[2; 4]) {
        cases.push(GenoCase { sizes: sz.iter().map(|x| x + 1).collect() });
    }
    cases.retain(|c| c.sizes.iter().sum::<usize>() <= tier.pick(7, 8));
    let res = par_map(cases.len(), |i| eval_geno(&cases[i], None));
    for v in res.into_iter().flatten() {
        rep.violation(v.0, v.1, v.2);
    }
    let n_stats: u64 = cases.iter().map(|c| stats_for_dim(&c.sizes.iter().map(|n| 2 * n + 1).collect::<Vec<_>>()).len() as u64).sum();
    rep.part(Part {
        name: "lib: statistics of created spectra vs genotypes".into(),
        evaluations: n_stats,
        nontrivial: n_stats,
        note: format!("{} population-size combinations (sizes 1..3, d=1..3; sizes 1..2, d=4)", cases.len()),
        exhaustive: true,
        extra: vec![],
    });
    let scratch = Scratch::new("c06");
    let cli_cases: Vec<GenoCase> = cases.iter().filter(|c| c.sizes.iter().sum::<usize>() <= tier.pick(6, 7)).cloned().collect();
    let res = par_map(cli_cases.len(), |i| eval_geno(&cli_cases[i], Some(&scratch)));
    for v in res.into_iter().flatten() {
        rep.violation(v.0, v.1, v.2);
    }
    let n_stats: u64 = cli_cases.iter().map(|c| stats_for_dim(&c.sizes.iter().map(|n| 2 * n + 1).collect::<Vec<_>>()).len() as u64).sum();
    rep.part(Part {
        name: "cli: sfs create | sfs stat vs genotypes".into(),
        evaluations: n_stats,
        nontrivial: n_stats,
        note: format!("{} call sets; all admissible statistics requested in one `-s` list with --precision 12", cli_cases.len()),
        exhaustive: true,
        extra: vec![],
    });
    rep.sample(J::obj([
        ("population_sizes", J::usizes(&[1, 3])),
        ("argv", J::s("sfs create -s s0=p0,s1=p1,s2=p1,s3=p1 | sfs stat -s f2,fst,pi-xy,s,sum --precision 12 -H")),
        ("expected_from_genotypes", J::f64s(&{
            let (_, pops, sites) = geno_data(&[1, 3]);
            ["f2", "fst", "pi-xy", "s", "sum"].iter().map(|s| stat_from_genotypes(s, &sites, &pops)).collect::<Vec<_>>()
        })),
    ]));
    // unused helper kept for replay
    let _ = text_of;
    rep.assumptions = vec![
        "estimator formulas typed from Tajima (1989), Fu & Li (1993), Watterson (1975), Bhatia et al. (2013), Waples et al. (2019) in harness/src/statref.rs".into(),
        "tolerance |x-r| <= 1e-9*max(|r|,scale) + 1e-12 (DESIGN 2.9)".into(),
    ];
    rep.finish()
}

pub fn replay(case: &J) -> Option<Vec<String>> {
    match case.get("kind")?.as_str()? {
        "c06-genotypes" => {
            let c = GenoCase { sizes: case.get("population_sizes")?.as_usizes()? };
            let scratch = Scratch::new("c06r");
            let mut v = eval_geno(&c, None);
            v.extend(eval_geno(&c, Some(&scratch)));
            Some(v.into_iter().map(|(k, w, _)| format!("{k} :: {w}")).collect())
        }
        "c06-spectrum" => {
            let shape = case.get("shape")?.as_usizes()?;
            let stat = case.get("stat")?.as_str()?.to_string();
            let what = case.get("what")?.as_str()?.to_string();
            let mut x = RefArray::zeros(&shape);
            if x.data.len() <= 64 {
                for (i, v) in case.get("values")?.as_arr()?.iter().enumerate() {
                    x.data[i] = v.as_f64()?;
                }
            } else {
                for e in case.get("nonzero")?.as_arr()? {
                    let p = e.as_arr()?;
                    x.data[p[0].as_i64()? as usize] = p[1].as_f64()?;
                }
            }
            let leak: &'static str = Box::leak(stat.into_boxed_str());
            let w = if what == "rare-class" && matches!(leak, "f2" | "f3" | "f4") { Some(1.0 / x.sum()) } else { None };
            Some(check_spectrum_w(leak, &x, &what, w).into_iter().map(|(k, w, _)| format!("{k} :: {w}")).collect())
        }
        _ => None,
    }
}
