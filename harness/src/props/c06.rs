//! C06 — statistics equal their definitions on genotypes and the published estimators.

use crate::{
    cli::{run_sfs, Scratch, Stdin},
    createmodel::{build_site_reader, run_reader, sample_arg, Cls, MemReader},
    enumerate::{indices, shapes},
    gen::{to_vcf, CallSet},
    json::J,
    par::par_map,
    refmodel::{close_stat, RefArray},
    statref::{admissible, real_stat, ref_stat, stat_from_genotypes, ALL_STATS},
    subject::{scs_from_ref, text_of},
    verdict::{catch, norm_msg, Part, Report, Tier},
};

type Viol = (String, String, J);

fn shape_class(shape: &[usize]) -> String {
    let unequal = shape.iter().any(|n| *n != shape[0]);
    format!("{}d{}", shape.len(), if unequal { ",unequal" } else { "" })
}

fn scale_of(x: &RefArray) -> f64 {
    x.data.iter().fold(0.0f64, |m, v| m.max(v.abs())).max(1.0)
}

fn spec_case(stat: &str, x: &RefArray, what: &str) -> J {
    J::obj([
        ("kind", J::s("c06-spectrum")),
        ("stat", J::s(stat)),
        ("shape", J::usizes(&x.shape)),
        ("values", J::f64s(&x.data[..x.data.len().min(64)])),
        ("nonzero", J::arr(x.data.iter().enumerate().filter(|(_, v)| **v != 0.0).take(8).map(|(i, v)| J::arr([J::u(i), J::f(*v)])))),
        ("what", J::s(what)),
    ])
}

/// Compares the real statistic with the reference on one spectrum.
fn check_spectrum(stat: &str, x: &RefArray, what: &str) -> Option<Viol> {
    check_spectrum_w(stat, x, what, None)
}

/// `weight`: the share of one site in the spectrum (1 / total) when the statistic is a site average
/// whose value is of that order; the comparison is then relative to it rather than to one.
fn check_spectrum_w(stat: &str, x: &RefArray, what: &str, weight: Option<f64>) -> Option<Viol> {
    // Tajima's D with n = 3 is identically 0/0 (pi = S/a_1 and both variance coefficients vanish):
    // whatever floating-point rounding makes of it is not a defect
    if stat == "d-tajima" && x.shape == [4] {
        return None;
    }
    let scs = scs_from_ref(x);
    let r = ref_stat(stat, x);
    let scale = match stat {
        "sum" | "s" | "pi" | "theta" | "pi-xy" => scale_of(x),
        _ => 1.0,
    };
    match catch(|| real_stat(stat, &scs)) {
        Ok(Ok(v)) => {
            let ok = match weight {
                Some(w) => crate::refmodel::close(v, r, 1e-9, 1e-12 * w),
                None => close_stat(v, r, scale),
            };
            if ok {
                None
            } else {
                Some((
                    format!("C06|lib|{stat}-wrong|{}|{what}", shape_class(&x.shape)),
                    format!("{stat} on shape {:?} ({what}): {v:e}, definition gives {r:e}", x.shape),
                    spec_case(stat, x, what),
                ))
            }
        }
        Ok(Err(e)) => Some((
            format!("C06|lib|{stat}-rejected|{}", shape_class(&x.shape)),
            format!("{stat} on shape {:?} rejected: {e}", x.shape),
            spec_case(stat, x, what),
        )),
        Err(p) => Some((
            format!("C06|lib|{stat}-panic|{}", norm_msg(&p)),
            format!("{stat} on shape {:?} panicked: {p}", x.shape),
            spec_case(stat, x, what),
        )),
    }
}

fn basis(shape: &[usize], i: usize, v: f64) -> RefArray {
    let mut x = RefArray::zeros(shape);
    x.data[i] = v;
    x
}

/// (a) coefficient level for one (stat, shape)
fn coefficient_level(stat: &str, shape: &[usize], pairs: bool) -> (u64, Vec<Viol>) {
    let cells: usize = shape.iter().product();
    let mut viols: Vec<Viol> = Vec::new();
    let mut evals = 0;
    let mut push = |v: Option<Viol>, viols: &mut Vec<Viol>| {
        if let Some(v) = v {
            if viols.len() < 4 {
                viols.push(v);
            }
        }
    };
    for i in 0..cells {
        evals += 1;
        push(check_spectrum(stat, &basis(shape, i, 3.0), "basis"), &mut viols);
    }
    if pairs {
        for i in 0..cells {
            for j in i + 1..cells {
                evals += 1;
                let mut x = basis(shape, i, 3.0);
                x.data[j] = 5.0;
                push(check_spectrum(stat, &x, "two-cell"), &mut viols);
            }
        }
    }
    // a rare class of sites in a genome-sized spectrum: one, two or three sites in a cell next to a
    // monomorphic corner of 1e6 .. 1e13 sites (the share of the class goes down to 1e-13; a site
    // average is then of that order and is compared relative to it)
    for corner in [1e6, 3.1e9, 1e13] {
        for i in 1..cells {
            for c in [1.0, 3.0] {
                evals += 1;
                let mut x = basis(shape, i, c);
                x.data[0] = corner;
                let w = match stat {
                    "f2" | "f3" | "f4" => Some(1.0 / (corner + c)),
                    _ => None,
                };
                push(check_spectrum_w(stat, &x, "rare-class", w), &mut viols);
            }
        }
    }
    // ramps: a linear and a 1/k-like spectrum
    evals += 2;
    push(check_spectrum(stat, &RefArray::from_fn(shape, |f, _| (f * 7 % 13 + 1) as f64), "ramp"), &mut viols);
    push(check_spectrum(stat, &RefArray::from_fn(shape, |f, _| 100.0 / (f + 1) as f64), "one-over-k"), &mut viols);
    (evals, viols)
}

/// 1-D estimators for one n: basis (all or boundary), pairs for small n, textbook-like spectra.
fn estimators_1d(n: usize) -> (u64, Vec<Viol>) {
    let shape = vec![n + 1];
    let mut viols: Vec<Viol> = Vec::new();
    let mut evals = 0;
    let cells: Vec<usize> = if n <= 60 {
        (0..=n).collect()
    } else {
        let mut v = vec![0, 1, 2, 3, n / 2, n - 2, n - 1, n, 170.min(n), 171.min(n), 172.min(n)];
        v.sort();
        v.dedup();
        v
    };
    for stat in ["pi", "theta", "d-tajima", "d-fu-li", "s", "sum"] {
        for &k in &cells {
            evals += 1;
            if let Some(v) = check_spectrum(stat, &basis(&shape, k, 4.0), "basis") {
                if viols.len() < 6 {
                    viols.push(v);
                }
            }
        }
        if n <= 12 {
            for i in 0..=n {
                for j in i + 1..=n {
                    evals += 1;
                    let mut x = basis(&shape, i, 3.0);
                    x.data[j] = 5.0;
                    if let Some(v) = check_spectrum(stat, &x, "two-cell") {
                        if viols.len() < 6 {
                            viols.push(v);
                        }
                    }
                }
            }
        }
        // neutral-like spectrum theta/k, a ramp, an excess of singletons, an excess of high-frequency variants
        let specs = [
            ("neutral", RefArray::from_fn(&shape, |f, _| if f == 0 || f == n { 1000.0 } else { 60.0 / f as f64 })),
            ("ramp", RefArray::from_fn(&shape, |f, _| (f % 9 + 1) as f64)),
            ("singletons", RefArray::from_fn(&shape, |f, _| if f == 1 { 40.0 } else if f == 0 || f == n { 500.0 } else { 1.0 })),
            ("high-frequency", RefArray::from_fn(&shape, |f, _| if f + 2 >= n && f < n { 25.0 } else if f == 0 { 300.0 } else { 0.5 })),
        ];
        for (name, x) in specs {
            evals += 1;
            if let Some(v) = check_spectrum(stat, &x, name) {
                if viols.len() < 6 {
                    viols.push(v);
                }
            }
        }
    }
    (evals, viols)
}

// ---------------------------------------------------------------------------------------------
// (b) genotype level

#[derive(Clone)]
struct GenoCase {
    sizes: Vec<usize>,
}

fn geno_data(sizes: &[usize]) -> (Vec<Option<usize>>, Vec<Vec<usize>>, Vec<Vec<usize>>) {
    let s: usize = sizes.iter().sum();
    let mut map = Vec::new();
    let mut pops: Vec<Vec<usize>> = Vec::new();
    for (j, n) in sizes.iter().enumerate() {
        let start = map.len();
        for _ in 0..*n {
            map.push(Some(j));
        }
        pops.push((start..start + n).collect());
    }
    // every complete genotype row, with a pattern-dependent multiplicity 1..3 (breaks symmetries)
    let mut sites = Vec::new();
    for row in indices(&vec![3; s]) {
        let w = 1 + row.iter().enumerate().map(|(i, g)| (i + 1) * g).sum::<usize>() % 3;
        for _ in 0..w {
            sites.push(row.clone());
        }
    }
    (map, pops, sites)
}

fn stats_for_dim(shape: &[usize]) -> Vec<&'static str> {
    ALL_STATS.iter().copied().filter(|s| admissible(s, shape)).collect()
}

fn eval_geno(c: &GenoCase, scratch: Option<&Scratch>) -> Vec<Viol> {
    let (map, pops, sites) = geno_data(&c.sizes);
    let shape: Vec<usize> = c.sizes.iter().map(|n| 2 * n + 1).collect();
    let stats = stats_for_dim(&shape);
    let mut viols = Vec::new();
    let expect: Vec<f64> = stats.iter().map(|s| stat_from_genotypes(s, &sites, &pops)).collect();
    let rows: Vec<Vec<Cls>> = sites.iter().map(|r| r.iter().map(|g| [Cls::G0, Cls::G1, Cls::G2][*g]).collect()).collect();
    let case = |stat: &str| {
        J::obj([
            ("kind", J::s("c06-genotypes")),
            ("population_sizes", J::usizes(&c.sizes)),
            ("stat", J::s(stat)),
            ("layer", J::s(if scratch.is_some() { "cli" } else { "lib" })),
        ])
    };
    let unequal = if c.sizes.iter().any(|n| *n != c.sizes[0]) { "unequal-sizes" } else { "equal-sizes" };
    match scratch {
        None => {
            let got = build_site_reader(Box::new(MemReader::from_classes(map.len(), &rows)), &map, None).and_then(|mut r| run_reader(&mut r));
            match got {
                Ok(g) => {
                    let scs = scs_from_ref(&g.spectrum);
                    for (stat, e) in stats.iter().zip(&expect) {
                        match catch(|| real_stat(stat, &scs)) {
                            Ok(Ok(v)) if close_stat(v, *e, 1.0) => {}
                            other => viols.push((
                                format!("C06|lib|{stat}-differs-from-genotypes|{}d,{unequal}", c.sizes.len()),
                                format!("population sizes {:?}: {stat} from the created spectrum = {other:?}, from the genotypes = {e:e}", c.sizes),
                                case(stat),
                            )),
                        }
                    }
                }
                Err(e) => viols.push((format!("C06|lib|create-failed|{}", norm_msg(&e)), format!("sizes {:?}: {e}", c.sizes), case("-"))),
            }
        }
        Some(scratch) => {
            let mut cs = CallSet::new(map.len());
            for (i, row) in rows.iter().enumerate() {
                let gts: Vec<&str> = row.iter().enumerate().map(|(j, cl)| cl.spell(i + j)).collect();
                cs.push_gts(&gts);
            }
            let vcf = to_vcf(&cs).0;
            // the sample list names every sample, in an order other than the column order (the
            // columns rotated by one): the populations become axes in the order of their first
            // appearance in the list, and every sample keeps its own genotypes
            let s_total = map.len();
            let order: Vec<usize> = (0..s_total).map(|i| (i + 1) % s_total).collect();
            let mut pop_order: Vec<usize> = Vec::new();
            for &i in &order {
                let p = map[i].unwrap();
                if !pop_order.contains(&p) {
                    pop_order.push(p);
                }
            }
            let list_arg = order.iter().map(|&i| format!("s{i}=p{}", map[i].unwrap())).collect::<Vec<_>>().join(",");
            let pops_listed: Vec<Vec<usize>> = pop_order.iter().map(|&p| pops[p].clone()).collect();
            let expect: Vec<f64> = stats.iter().map(|s| stat_from_genotypes(s, &sites, &pops_listed)).collect();
            let _ = sample_arg(&map);
            let created = run_sfs(&["create", "-s", &list_arg], Stdin::Bytes(&vcf), scratch);
            if !created.ok() {
                viols.push(("C06|cli|create-failed".into(), format!("sizes {:?}: {}", c.sizes, created.stderr_str()), case("-")));
                return viols;
            }
            let list = stats.join(",");
            let o = run_sfs(&["stat", "-s", &list, "--precision", "12", "-H"], Stdin::Bytes(&created.stdout), scratch);
            if !o.ok() {
                viols.push((
                    format!("C06|cli|stat-failed|{}d", c.sizes.len()),
                    format!("sizes {:?}: sfs stat -s {list}: {} {}", c.sizes, o.status_str(), o.stderr_str()),
                    case(&list),
                ));
                return viols;
            }
            let out = o.stdout_str();
            let mut lines = out.lines();
            let header: Vec<&str> = lines.next().unwrap_or("").split(',').collect();
            let vals: Vec<f64> = lines.next().unwrap_or("").split(',').map(|t| t.parse::<f64>().unwrap_or(f64::NAN)).collect();
            if header.len() != stats.len() || vals.len() != stats.len() {
                viols.push(("C06|cli|stat-output-malformed".into(), format!("sizes {:?}: {out:?}", c.sizes), case(&list)));
                return viols;
            }
            for ((stat, e), v) in stats.iter().zip(&expect).zip(&vals) {
                let ok = (v.is_nan() && e.is_nan()) || (v.is_infinite() && e.is_infinite() && v == e) || (v - e).abs() <= 0.6e-12 + 1e-9 * e.abs();
                if !ok {
                    viols.push((
                        format!("C06|cli|{stat}-differs-from-genotypes|{}d,{unequal}", c.sizes.len()),
                        format!("population sizes {:?}: `sfs create | sfs stat -s {list}` reports {stat} = {v}, the genotypes give {e:e}", c.sizes),
                        case(stat),
                    ));
                }
            }
        }
    }
    viols
}

/// Statistic `stat` evaluated on a spectrum of shape `first` and then on one of shape `second` on a
/// newly spawned thread: the second value must be the reference value (tables kept between calls).
fn stat_history(stat: &'static str, first: &[usize], second: &[usize]) -> Option<Viol> {
    let a = RefArray::from_fn(first, |f, _| ((f * 5) % 7 + 1) as f64);
    let b = RefArray::from_fn(second, |f, _| ((f * 3) % 11 + 2) as f64);
    let expect = ref_stat(stat, &b);
    let (sa, sb) = (scs_from_ref(&a), scs_from_ref(&b));
    let got = std::thread::spawn(move || {
        catch(|| {
            let _ = real_stat(stat, &sa);
            real_stat(stat, &sb)
        })
    })
    .join()
    .unwrap_or(Err("thread died".into()));
    match got {
        Ok(Ok(v)) if close_stat(v, expect, 1.0) => None,
        other => Some((
            format!("C06|lib|{stat}-depends-on-previous-call|{}", shape_class(second)),
            format!("{stat} on shape {second:?} right after {stat} on shape {first:?} on the same thread: {other:?}, definition gives {expect:e}"),
            J::obj([("kind", J::s("c06-history")), ("stat", J::s(stat)), ("first", J::usizes(first)), ("shape", J::usizes(second))]),
        )),
    }
}

/// Statistics of values reached through short histories of library calls (state change to a
/// frequency spectrum, entries changed through the indexing operator, normalizing again, clone_from
/// into a spectrum of another shape, masking through inner_mut): the statistic is the definition on
/// the values the history leaves, whatever the history was.
pub(super) fn stat_after_histories(prop: &str) -> (u64, Vec<Viol>) {
    use super::c13_lib::{live_stat, run_history, Op};
    let histories: Vec<Vec<Op>> = vec![
        vec![Op::IntoNorm],
        vec![Op::IntoNorm, Op::IntoNorm],
        vec![Op::IntoNorm, Op::Scale],
        vec![Op::IntoNorm, Op::Scale, Op::IntoNorm],
        vec![Op::IntoNorm, Op::Scale, Op::Norm],
        vec![Op::IntoNorm, Op::MaskIdx, Op::Norm],
        vec![Op::IntoNorm, Op::MaskIdx, Op::IntoNorm],
        vec![Op::Norm, Op::Scale, Op::Norm],
        vec![Op::Scale],
        vec![Op::Mask],
        vec![Op::Mask, Op::Scale],
        vec![Op::Scale, Op::Mask, Op::IntoNorm],
        vec![Op::CloneFrom],
        vec![Op::CloneFrom, Op::Scale],
        vec![Op::IntoNorm, Op::CloneFrom],
        vec![Op::Fold],
        vec![Op::IntoNorm, Op::Fold],
    ];
    let inits: Vec<RefArray> = vec![
        RefArray::from_fn(&[3, 5], |f, _| ((f * 5) % 7 + 1) as f64),
        RefArray::from_fn(&[5, 3], |f, _| ((f * 3) % 11 + 2) as f64),
        RefArray::from_fn(&[3, 3], |f, _| ((f * 7) % 5 + 1) as f64),
        RefArray::from_fn(&[2, 3, 4], |f, _| ((f * 5) % 9 + 1) as f64),
        RefArray::from_fn(&[2, 3, 2, 4], |f, _| ((f * 7) % 13 + 1) as f64),
        RefArray::from_fn(&[7], |f, _| ((f * 3) % 5 + 1) as f64),
    ];
    let mut viols: Vec<Viol> = Vec::new();
    let mut n = 0u64;
    for init in &inits {
        for hist in &histories {
            let (live, expect) = match run_history(init, hist) {
                Ok(x) => x,
                Err((k, w, j)) => {
                    viols.push((k.replacen("C13|", &format!("{prop}|"), 1), w, j));
                    continue;
                }
            };
            for stat in ["f2", "f3", "f4", "fst", "king", "pi", "pi-xy", "r0", "r1", "sum", "theta"] {
                if !admissible(stat, &expect.shape) {
                    continue;
                }
                n += 1;
                let r = ref_stat(stat, &expect);
                let scale = match stat {
                    "sum" | "pi" | "theta" | "pi-xy" => expect.data.iter().fold(0.0f64, |m, v| m.max(v.abs())).max(1.0),
                    _ => 1.0,
                };
                let names: Vec<String> = hist.iter().map(|o| format!("{o:?}")).collect();
                match catch(|| live_stat(&live, stat)) {
                    Ok(Ok(v)) if close_stat(v, r, scale) => {}
                    other => viols.push((
                        format!("{prop}|lib|{stat}-after-history"),
                        format!("{stat} of a spectrum of shape {:?} after {names:?}: {other:?}, the definition on the values the history leaves gives {r:e}", init.shape),
                        J::obj([("kind", J::s("stat-history")), ("shape", J::usizes(&init.shape)), ("values", J::f64s(&init.data)), ("history", J::s(names.join(" "))), ("stat", J::s(stat))]),
                    )),
                }
            }
        }
    }
    (n, viols)
}

/// `sfs stat` on an npy file of type `descr` against `sfs stat` on the text spelling of the values the
/// file holds (exactly, with round-trip digits): the same statistics row, byte for byte.
fn eval_npy_input(shape: &[usize], descr: &str, version: u8, scratch: &Scratch) -> Option<Viol> {
    let (npy, text) = super::typed_npy_and_text(shape, descr, version);
    let stats = stats_for_dim(shape).join(",");
    let a = run_sfs(&["stat", "-s", &stats, "--precision", "12", "-H"], Stdin::Bytes(text.as_bytes()), scratch);
    let b = run_sfs(&["stat", "-s", &stats, "--precision", "12", "-H"], Stdin::Bytes(&npy), scratch);
    if a.ok() && b.ok() && a.stdout == b.stdout {
        return None;
    }
    Some((
        format!("C06|cli|npy-input-differs-from-text|{}", descr.trim_start_matches(['<', '>', '|'])),
        format!("shape {shape:?} stored as {descr} (format {version}.0): `sfs stat -s {stats}` gives {} {:?} on the npy file and {} {:?} on the same values as text", b.status_str(), b.stdout_str(), a.status_str(), a.stdout_str()),
        J::obj([("kind", J::s("c06-npy-input")), ("shape", J::usizes(shape)), ("descr", J::s(descr)), ("version", J::Int(version as i64))]),
    ))
}

/// Degenerate spectra through the binary: a single site (every basis spectrum with one entry 1, so
/// that the total is exactly one) and no site at all (all zeros). Every admissible statistic must
/// print the reference value; where the definition divides zero by zero that is NaN.
fn eval_degenerate(shape: &[usize], site: Option<usize>, scratch: &Scratch) -> Vec<Viol> {
    let x = match site {
        Some(i) => basis(shape, i, 1.0),
        None => RefArray::zeros(shape),
    };
    let stats = stats_for_dim(shape);
    let list = stats.join(",");
    let input = text_of(&x);
    let o = run_sfs(&["stat", "-s", &list, "--precision", "12"], Stdin::Bytes(input.as_bytes()), scratch);
    let what = match site { Some(i) => format!("one site in entry {i}"), None => "no site".to_string() };
    let case = J::obj([("kind", J::s("c06-degenerate")), ("shape", J::usizes(shape)), ("site", site.map_or(J::Null, J::u))]);
    if !o.ok() {
        return vec![(format!("C06|cli|degenerate-stat-failed|{}", shape_class(shape)), format!("shape {shape:?}, {what}: sfs stat -s {list}: {} {}", o.status_str(), o.stderr_str().trim()), case)];
    }
    let vals: Vec<f64> = o.stdout_str().trim().split(',').map(|t| t.parse::<f64>().unwrap_or(f64::NAN)).collect();
    if vals.len() != stats.len() {
        return vec![("C06|cli|stat-output-malformed".into(), format!("shape {shape:?}, {what}: {:?}", o.stdout_str()), case)];
    }
    let mut viols = Vec::new();
    for (st, v) in stats.iter().zip(&vals) {
        let e = ref_stat(st, &x);
        let ok = (v.is_nan() && e.is_nan()) || (v.is_infinite() && e.is_infinite() && v.signum() == e.signum()) || (v - e).abs() <= 0.6e-12 + 1e-9 * e.abs();
        if !ok {
            viols.push((
                format!("C06|cli|{st}-wrong-on-degenerate-spectrum|{}", if site.is_some() { "one-site" } else { "no-site" }),
                format!("shape {shape:?}, {what}: `sfs stat -s {list}` reports {st} = {v}, the definition gives {e:e}"),
                case.clone(),
            ));
        }
    }
    viols
}

/// The spectra of the report-format grid.
fn format_spectrum(which: usize) -> RefArray {
    match which {
        0 => RefArray::from_fn(&[6], |f, _| [7.0, 3.0, 5.0, 1.0, 4.0, 2.0][f]),
        _ => RefArray::from_fn(&[3, 3], |f, _| [9.0, 2.0, 3.0, 4.0, 5.0, 1.0, 7.0, 8.0, 6.0][f]),
    }
}

const FORMAT_STATS: [&[&str]; 2] = [&["sum", "s", "pi", "theta", "d-tajima", "d-fu-li"], &["sum", "s", "f2", "fst", "pi-xy", "king", "r0", "r1"]];

/// The header line of `sfs stat -s <one statistic> -H` for every statistic of the grid.
fn single_stat_headers(scratch: &Scratch) -> [Vec<String>; 2] {
    let one = |which: usize| -> Vec<String> {
        let bytes = crate::subject::text_of(&format_spectrum(which)).into_bytes();
        FORMAT_STATS[which].iter().map(|name| run_sfs(&["stat", "-s", name, "-H"], Stdin::Bytes(&bytes), scratch).stdout_str().lines().next().unwrap_or("").to_string()).collect()
    };
    [one(0), one(1)]
}

/// `sfs stat` with a list of statistics in a given order, with or without header, a delimiter, one or
/// per-statistic precisions, the spectrum as text or npy: the i-th reported value must be the i-th
/// requested statistic at its precision, and the header the names of the single-statistic runs.
fn eval_format(which: usize, list: &[usize], header: bool, delim: usize, prec: usize, npy_in: bool, single_headers: Option<&[Vec<String>; 2]>, scratch: &Scratch) -> Option<Viol> {
    let x = format_spectrum(which);
    let names: Vec<&str> = list.iter().map(|&i| FORMAT_STATS[which][i]).collect();
    let delims = [",", ";", "\t", "\u{2192}"];
    let d = delims[delim];
    // precisions: 0 = default (6), 1 = one value for all, 2 = one per statistic (i + 1 decimals for the i-th)
    let precs: Vec<usize> = match prec {
        0 => vec![6; names.len()],
        1 => vec![3; names.len()],
        2 => (0..names.len()).map(|i| (i * 2 + 1) % 9).collect(),
        3 => vec![18; names.len()],
        _ => vec![0; names.len()],
    };
    let joined = names.join(",");
    let pj = match prec {
        0 => String::new(),
        1 => "3".to_string(),
        2 => precs.iter().map(|p| p.to_string()).collect::<Vec<_>>().join(","),
        3 => "18".to_string(),
        _ => "0".to_string(),
    };
    let mut a: Vec<&str> = vec!["stat", "-s", &joined];
    if header {
        a.push("-H");
    }
    if delim != 0 {
        a.extend(["-d", d]);
    }
    if prec != 0 {
        a.extend(["-p", &pj]);
    }
    let bytes = if npy_in {
        let data: Vec<u8> = x.data.iter().flat_map(|v| v.to_le_bytes()).collect();
        crate::npyref::synth(1, &crate::npyref::dict_text("<f8", false, &x.shape, &crate::npyref::Spelling::numpy()), &data)
    } else {
        crate::subject::text_of(&x).into_bytes()
    };
    let o = run_sfs(&a, Stdin::Bytes(&bytes), scratch);
    let case = || J::obj([("kind", J::s("c06-format")), ("which", J::u(which)), ("list", J::usizes(list)), ("header", J::Bool(header)), ("delimiter", J::u(delim)), ("precision", J::u(prec)), ("npy_in", J::Bool(npy_in))]);
    let fail = |w: String| Some((format!("C06|cli|report-format|{}{}", if header { "header," } else { "" }, ["default-precision", "one-precision", "precision-list", "precision-18", "precision-0"][prec]), format!("sfs {} on shape {:?} ({}): {w}", a.join(" "), x.shape, if npy_in { "npy" } else { "text" }), case()));
    if !o.ok() {
        return fail(format!("{} {}", o.status_str(), o.stderr_str().trim()));
    }
    let out = o.stdout_str();
    let lines: Vec<&str> = out.lines().collect();
    if lines.len() != 1 + header as usize {
        return fail(format!("{} lines of output: {out:?}", lines.len()));
    }
    let toks: Vec<&str> = lines[lines.len() - 1].split(d).collect();
    if toks.len() != names.len() {
        return fail(format!("{} values for {} statistics: {out:?}", toks.len(), names.len()));
    }
    for (i, (name, tok)) in names.iter().zip(&toks).enumerate() {
        let r = ref_stat(name, &x);
        let decimals = tok.split('.').nth(1).map_or(0, |t| t.len());
        let v: f64 = tok.parse().unwrap_or(f64::NAN);
        let numeric = tok.chars().any(|c| c.is_ascii_digit());
        let value_ok = if r.is_nan() { v.is_nan() } else if r.is_infinite() { v == r } else { (v - r).abs() <= 0.5000001 * 10f64.powi(-(precs[i] as i32)) + 1e-9 * r.abs() };
        if !value_ok || (numeric && r.is_finite() && decimals != precs[i]) {
            return fail(format!("value {i} ({name}) is printed as {tok:?}, the definition gives {r:e} and the precision is {}: {out:?}", precs[i]));
        }
    }
    if header {
        // the header of a list is the list of the headers of its members
        let computed;
        let table = match single_headers {
            Some(t) => t,
            None => {
                computed = single_stat_headers(scratch);
                &computed
            }
        };
        let expect_names: Vec<String> = list.iter().map(|&i| table[which][i].clone()).collect();
        let expect = expect_names.join(d);
        if lines[0] != expect {
            return fail(format!("header {:?}, the single-statistic headers give {expect:?}", lines[0]));
        }
    }
    None
}

pub fn run(tier: Tier) -> i32 {
    let mut rep = Report::new("C06", tier, "exploration");
    rep.rule = "(a) coefficient level: each linear statistic (sum, S, pi, theta, pi_xy, f2, f3, f4) on every basis spectrum (a linear functional is decided by its values on the basis) and each ratio statistic (Fst, KING, R0, R1) on every one- and two-cell spectrum of every admissible shape with lengths 2..6 (3..6 for Fst), plus ramps; the 1-D estimators (pi, theta, Tajima's D, Fu & Li's D, S, sum) for every n = 3..400 on basis / two-cell / neutral / skewed spectra against formulas typed from the papers. (b) genotype level: every combination of population sizes in {1,2,3}^d, d = 1..3, and {1,2}^4, call set = every complete genotype row with a pattern-dependent multiplicity; statistics from the real create path (library) and from `sfs create | sfs stat -s <all admissible> --precision 12` (binary) against direct computation from the genotypes (pairwise differences by brute force, site means of frequency products, ratio of sums, genotype-pair counts). Non-trivial = unequal sizes, or a statistic without a test in the repository (f3, f4, Fu-Li, KING, R0, R1).".into();

    // (a) linear + ratio statistics on shapes
    let mut jobs: Vec<(&'static str, Vec<usize>, bool)> = Vec::new();
    let max_len = tier.pick(5, 6);
    for s in shapes(2, 2, max_len, usize::MAX).into_iter().filter(|s| s.len() == 2) {
        jobs.push(("pi-xy", s.clone(), false));
        jobs.push(("f2", s.clone(), false));
        jobs.push(("s", s.clone(), false));
        jobs.push(("sum", s.clone(), false));
        if s.iter().all(|n| *n >= 3) {
            jobs.push(("fst", s.clone(), true));
        }
    }
    for s in shapes(3, 2, tier.pick(4, 5), usize::MAX).into_iter().filter(|s| s.len() == 3) {
        jobs.push(("f3", s.clone(), false));
        jobs.push(("s", s, false));
    }
    for s in shapes(4, 2, tier.pick(3, 4), usize::MAX).into_iter().filter(|s| s.len() == 4) {
        jobs.push(("f4", s.clone(), false));
        jobs.push(("sum", s, false));
    }
    for st in ["king", "r0", "r1"] {
        jobs.push((st, vec![3, 3], true));
    }
    let res = par_map(jobs.len(), |i| coefficient_level(jobs[i].0, &jobs[i].1, jobs[i].2));
    let mut ev = 0;
    let mut nt = 0;
    for ((stat, shape, _), (e, v)) in jobs.iter().zip(res) {
        ev += e;
        if shape.iter().any(|n| *n != shape[0]) || ["f3", "f4", "king", "r0", "r1"].contains(stat) {
            nt += e;
        }
        for (k, w, j) in v {
            rep.violation(k, w, j);
        }
    }
    rep.part(Part {
        name: "lib: coefficient level on multi-population shapes".into(),
        evaluations: ev,
        nontrivial: nt,
        note: format!("{} (statistic, shape) pairs; basis vectors, all two-cell spectra for ratio statistics, ramps", jobs.len()),
        exhaustive: true,
        extra: vec![],
    });
    rep.sample(J::obj([
        ("stat", J::s("fst")),
        ("shape", J::usizes(&[3, 5])),
        ("spectrum", J::s("3 at cell (1,2), 5 at cell (2,1)")),
        ("expected", J::f(ref_stat("fst", &{
            let mut x = RefArray::zeros(&[3, 5]);
            x.add(&[1, 2], 3.0);
            x.add(&[2, 1], 5.0);
            x
        }))),
    ]));

    // 1-D estimators for every n
    let mut ns: Vec<usize> = (3..=tier.pick(400, 1000)).collect();
    // beyond the contiguous range: thousands of chromosomes
    ns.extend(if tier.thorough() { vec![1024, 2000, 4096, 5000, 20_000, 65_537] } else { vec![1024, 2000, 5000] });
    let res = par_map(ns.len(), |i| estimators_1d(ns[i]));
    let mut ev = 0;
    for (e, v) in res {
        ev += e;
        for (k, w, j) in v {
            rep.violation(k, w, j);
        }
    }
    rep.part(Part {
        name: "lib: 1-D estimators for every n".into(),
        evaluations: ev,
        nontrivial: ev,
        note: format!("n = 3..{} and a ladder up to 5 000 (thorough 65 537): pi, theta, Tajima's D, Fu & Li's D, S, sum on basis (all cells for n<=60, boundary cells incl. 170..172 above), two-cell (n<=12), neutral / ramp / singleton-excess / high-frequency-excess spectra", tier.pick(400, 1000)),
        exhaustive: true,
        extra: vec![],
    });

    // size histories: the estimators for n1 and then for n2 on a freshly spawned thread, every ordered
    // pair of a size ladder (constants such as harmonic numbers or log-factorials that are tabulated or
    // cached on demand must not depend on which sizes were asked for first)
    {
        let sizes: [usize; 10] = [5, 40, 128, 129, 170, 171, 172, 256, 400, 700];
        let mut pairs: Vec<(usize, usize)> = Vec::new();
        for a in sizes {
            for b in sizes {
                pairs.push((a, b));
            }
        }
        let res = par_map(pairs.len(), |i| {
            let (n1, n2) = pairs[i];
            std::thread::spawn(move || {
                let _ = estimators_1d(n1);
                let (e, v) = estimators_1d(n2);
                (e, v.into_iter().take(2).map(|(k, w, j)| (format!("{k}|after-size-{}", if n1 < n2 { "smaller" } else if n1 > n2 { "larger" } else { "equal" }), format!("on a fresh thread after the estimators for n = {n1}: {w}"), j)).collect::<Vec<Viol>>())
            })
            .join()
            .unwrap_or((0, vec![]))
        });
        let mut ev = 0;
        for (e, v) in res {
            ev += e;
            for (k, w, j) in v {
                rep.violation(k, w, j);
            }
        }
        rep.part(Part {
            name: "lib: size histories on fresh threads".into(),
            evaluations: ev,
            nontrivial: ev,
            note: format!("every ordered pair of n in {sizes:?}: all 1-D estimator checks for the first size, then for the second, on a newly spawned thread"),
            exhaustive: true,
            extra: vec![],
        });
    }

    // (b) genotype level
    let mut cases: Vec<GenoCase> = Vec::new();
    for d in 1..=3 {
        for sz in indices(&vec![3; d]) {
            cases.push(GenoCase { sizes: sz.iter().map(|x| x + 1).collect() });
        }
    }
    for sz in indices(&[2; 4]) {
        cases.push(GenoCase { sizes: sz.iter().map(|x| x + 1).collect() });
    }
    cases.retain(|c| c.sizes.iter().sum::<usize>() <= tier.pick(7, 8));
    let res = par_map(cases.len(), |i| eval_geno(&cases[i], None));
    for v in res.into_iter().flatten() {
        rep.violation(v.0, v.1, v.2);
    }
    let n_stats: u64 = cases.iter().map(|c| stats_for_dim(&c.sizes.iter().map(|n| 2 * n + 1).collect::<Vec<_>>()).len() as u64).sum();
    rep.part(Part {
        name: "lib: statistics of created spectra vs genotypes".into(),
        evaluations: n_stats,
        nontrivial: n_stats,
        note: format!("{} population-size combinations (sizes 1..3, d=1..3; sizes 1..2, d=4)", cases.len()),
        exhaustive: true,
        extra: vec![],
    });
    let scratch = Scratch::new("c06");
    let cli_cases: Vec<GenoCase> = cases.iter().filter(|c| c.sizes.iter().sum::<usize>() <= tier.pick(6, 7)).cloned().collect();
    let res = par_map(cli_cases.len(), |i| eval_geno(&cli_cases[i], Some(&scratch)));
    for v in res.into_iter().flatten() {
        rep.violation(v.0, v.1, v.2);
    }
    let n_stats: u64 = cli_cases.iter().map(|c| stats_for_dim(&c.sizes.iter().map(|n| 2 * n + 1).collect::<Vec<_>>()).len() as u64).sum();
    rep.part(Part {
        name: "cli: sfs create | sfs stat vs genotypes".into(),
        evaluations: n_stats,
        nontrivial: n_stats,
        note: format!("{} call sets; all admissible statistics requested in one `-s` list with --precision 12", cli_cases.len()),
        exhaustive: true,
        extra: vec![],
    });
    // shape histories: the same statistic on two spectra in a row on one thread, for every ordered pair
    // of shapes of equal dimension (among them pairs with the same number of cells)
    {
        let groups: Vec<(Vec<&'static str>, Vec<Vec<usize>>)> = vec![
            (vec!["f2", "fst", "pi-xy"], vec![vec![3, 5], vec![5, 3], vec![2, 6], vec![6, 2], vec![3, 4], vec![4, 3], vec![3, 3], vec![5, 5]]),
            (vec!["king", "r0", "r1"], vec![vec![3, 3]]),
            (vec!["f3"], vec![vec![2, 3, 4], vec![4, 3, 2], vec![3, 2, 4], vec![2, 2, 6], vec![3, 3, 3]]),
            (vec!["f4"], vec![vec![2, 3, 2, 4], vec![4, 2, 3, 2], vec![2, 2, 3, 4], vec![3, 3, 3, 3]]),
            (vec!["pi", "theta", "d-tajima", "d-fu-li"], vec![vec![6], vec![9], vec![12], vec![7]]),
        ];
        let mut hj: Vec<(&'static str, Vec<usize>, Vec<usize>)> = Vec::new();
        for (stats, shapes) in &groups {
            for st in stats {
                for a in shapes {
                    for b in shapes {
                        hj.push((*st, a.clone(), b.clone()));
                    }
                }
            }
        }
        // and two different statistics in a row on the same spectrum (tables keyed by size alone)
        let mut cross: Vec<(&'static str, &'static str, Vec<usize>)> = Vec::new();
        for (stats, shapes) in &groups {
            for s1 in stats {
                for s2 in stats {
                    if s1 != s2 {
                        for sh in shapes {
                            cross.push((*s1, *s2, sh.clone()));
                        }
                    }
                }
            }
        }
        let res = par_map(hj.len(), |i| stat_history(hj[i].0, &hj[i].1, &hj[i].2));
        for v in res.into_iter().flatten() {
            rep.violation(v.0, v.1, v.2);
        }
        let res = par_map(cross.len(), |i| {
            let (s1, s2, sh) = (cross[i].0, cross[i].1, cross[i].2.clone());
            let x = RefArray::from_fn(&sh, |f, _| ((f * 5) % 7 + 1) as f64);
            let expect = ref_stat(s2, &x);
            let sx = scs_from_ref(&x);
            let got = std::thread::spawn(move || catch(|| { let _ = real_stat(s1, &sx); real_stat(s2, &sx) })).join().unwrap_or(Err("thread died".into()));
            match got {
                Ok(Ok(v)) if close_stat(v, expect, 1.0) => None,
                other => Some((
                    format!("C06|lib|{s2}-depends-on-previous-statistic"),
                    format!("{s2} right after {s1} on the same spectrum of shape {sh:?} on one thread: {other:?}, definition gives {expect:e}"),
                    J::obj([("kind", J::s("c06-cross")), ("first_stat", J::s(s1)), ("stat", J::s(s2)), ("shape", J::usizes(&sh))]),
                )),
            }
        });
        for v in res.into_iter().flatten() {
            rep.violation(v.0, v.1, v.2);
        }
        rep.transitions += 2 * (hj.len() + cross.len()) as u64;
        rep.part(Part {
            name: "lib: statistic after statistic (call histories of length 2)".into(),
            evaluations: (hj.len() + cross.len()) as u64,
            nontrivial: (hj.len() + cross.len()) as u64,
            note: format!("{} ordered pairs (statistic on shape A, then on shape B) over shapes of equal dimension, and {} ordered pairs of different statistics on one spectrum, each on a newly spawned thread: the second value equals the definition", hj.len(), cross.len()),
            exhaustive: true,
            extra: vec![],
        });
    }
    // statistics of values reached through library histories
    {
        let (n, viols) = stat_after_histories("C06");
        for (k, w, j) in viols {
            rep.violation(k, w, j);
        }
        rep.part(Part {
            name: "lib: statistics after histories of library calls".into(),
            evaluations: n,
            nontrivial: n,
            note: "6 spectra x 17 histories over {into_normalized, normalize, an entry scaled / the corners zeroed through the indexing operator, masking through inner_mut, clone_from into a spectrum of the reversed shape, fold}: every admissible statistic of the value reached equals the definition on the values the history leaves".into(),
            exhaustive: true,
            extra: vec![],
        });
    }
    {
        let mut sp: Vec<(Vec<String>, Vec<u8>)> = Vec::new();
        for which in 0..2usize {
            let input = crate::subject::text_of(&format_spectrum(which)).into_bytes();
            let names = FORMAT_STATS[which];
            for a in 0..names.len() {
                for b in 0..names.len() {
                    let list = format!("{},{}", names[a], names[b]);
                    sp.push((vec!["stat".into(), "-s".into(), list.clone()], input.clone()));
                    if (a + b) % 2 == 0 {
                        sp.push((vec!["stat".into(), "-s".into(), list.clone(), "-H".into(), "-d".into(), ";".into(), "-p".into(), "2,5".into()], input.clone()));
                    }
                }
            }
            sp.push((vec!["stat".into(), "--statistics".into(), names.join(","), "--header".into(), "--precision".into(), "4".into()], input.clone()));
        }
        super::spelling_part(&mut rep, "C06", "stat with every ordered pair of statistics, alone and with header, delimiter and a precision list", &sp, &scratch);
    }
    // report format: every ordered list of up to three statistics x header x delimiter x precision
    // form x input format - the i-th value is the i-th statistic asked for, whatever else is asked
    {
        let mut fj: Vec<(usize, Vec<usize>, bool, usize, usize, bool)> = Vec::new();
        for which in 0..2usize {
            let n = FORMAT_STATS[which].len();
            let mut lists: Vec<Vec<usize>> = Vec::new();
            for a in 0..n {
                lists.push(vec![a]);
                for b in 0..n {
                    lists.push(vec![a, b]);
                    if tier.thorough() || (a + 2 * b) % 3 == 0 {
                        for c in 0..n {
                            if c != a || c != b {
                                lists.push(vec![a, b, c]);
                            }
                        }
                    }
                }
            }
            lists.push((0..n).collect());
            lists.push((0..n).rev().collect());
            for l in lists {
                for header in [false, true] {
                    for delim in 0..4usize {
                        for prec in 0..5usize {
                            for npy_in in [false, true] {
                                if !tier.thorough() && npy_in && (delim == 1 || delim == 2) {
                                    continue;
                                }
                                fj.push((which, l.clone(), header, delim, prec, npy_in));
                            }
                        }
                    }
                }
            }
        }
        let single = single_stat_headers(&scratch);
        let res = par_map(fj.len(), |i| eval_format(fj[i].0, &fj[i].1, fj[i].2, fj[i].3, fj[i].4, fj[i].5, Some(&single), &scratch));
        for v in res.into_iter().flatten() {
            rep.violation(v.0, v.1, v.2);
        }
        rep.part(Part {
            name: "cli: report format (statistic lists x header x delimiter x precisions x input format)".into(),
            evaluations: fj.len() as u64,
            nontrivial: fj.len() as u64,
            note: "a 6-entry and a 3x3 spectrum; every ordered list of one and two statistics (repeats included), the ordered triples of a third of the pairs (thorough: all), and all statistics in both orders x {no header, -H} x delimiter {default, ';', tab, a 3-byte arrow} x precision {default, one value, one per statistic, 18 decimals, none} x input {text, npy}: value i is statistic i at precision i, the header is the join of the single-statistic headers".into(),
            exhaustive: true,
            extra: vec![],
        });
    }
    {
        let mut nj: Vec<(Vec<usize>, &'static str, u8)> = Vec::new();
        for shape in [vec![9usize], vec![3, 5], vec![3, 3, 3], vec![3, 3, 3, 3]] {
            for (k, descr) in ["<f8", ">f8", "<f4", ">f4", "|u1", "|i1", "<u2", ">u2", "<i2", ">i2", "<u4", ">u4", "<i4", ">i4", "<u8", ">u8", "<i8", ">i8"].into_iter().enumerate() {
                nj.push((shape.clone(), descr, [1u8, 2, 3][(k + shape.len()) % 3]));
            }
        }
        let res = par_map(nj.len(), |i| eval_npy_input(&nj[i].0, nj[i].1, nj[i].2, &scratch));
        for v in res.into_iter().flatten() {
            rep.violation(v.0, v.1, v.2);
        }
        rep.part(Part {
            name: "cli: statistics of npy files of every element type".into(),
            evaluations: nj.len() as u64,
            nontrivial: nj.len() as u64,
            note: "spectra with 1..4 axes stored as f8, f4 (entries with a fractional part that is not a short decimal), and the signed and unsigned integers of 1, 2, 4 and 8 bytes (entries beyond the range of the next smaller and of the signed type), little- and big-endian, format 1.0 / 2.0 / 3.0 in turn: every admissible statistic against the same values given as text, byte for byte at 12 decimals".into(),
            exhaustive: true,
            extra: vec![],
        });
    }
    {
        let mut dj: Vec<(Vec<usize>, Option<usize>)> = Vec::new();
        for shape in [vec![3usize], vec![4], vec![5], vec![8], vec![3, 3], vec![3, 5], vec![2, 2], vec![3, 3, 3], vec![3, 3, 3, 3]] {
            let cells: usize = shape.iter().product();
            dj.push((shape.clone(), None));
            if cells <= 27 {
                for i in 0..cells {
                    dj.push((shape.clone(), Some(i)));
                }
            }
        }
        let res = par_map(dj.len(), |i| eval_degenerate(&dj[i].0, dj[i].1, &scratch));
        for v in res.into_iter().flatten() {
            rep.violation(v.0, v.1, v.2);
        }
        rep.part(Part {
            name: "cli: spectra of one site and of no site".into(),
            evaluations: dj.len() as u64,
            nontrivial: dj.len() as u64,
            note: "shapes with 1..4 axes: the all-zero spectrum, and for the shapes of at most 27 entries every spectrum holding exactly one site (total exactly one) x every admissible statistic through `sfs stat`: the reference value (NaN where the definition divides zero by zero)".into(),
            exhaustive: true,
            extra: vec![],
        });
    }
    rep.sample(J::obj([
        ("population_sizes", J::usizes(&[1, 3])),
        ("argv", J::s("sfs create -s s0=p0,s1=p1,s2=p1,s3=p1 | sfs stat -s f2,fst,pi-xy,s,sum --precision 12 -H")),
        ("expected_from_genotypes", J::f64s(&{
            let (_, pops, sites) = geno_data(&[1, 3]);
            ["f2", "fst", "pi-xy", "s", "sum"].iter().map(|s| stat_from_genotypes(s, &sites, &pops)).collect::<Vec<_>>()
        })),
    ]));
    // unused helper kept for replay
    let _ = text_of;
    rep.assumptions = vec![
        "estimator formulas typed from Tajima (1989), Fu & Li (1993), Watterson (1975), Bhatia et al. (2013), Waples et al. (2019) in harness/src/statref.rs".into(),
        "tolerance |x-r| <= 1e-9*max(|r|,scale) + 1e-12 (DESIGN 2.9)".into(),
    ];
    rep.finish()
}

pub fn replay(case: &J) -> Option<Vec<String>> {
    match case.get("kind")?.as_str()? {
        "c06-degenerate" => {
            let scratch = Scratch::new("c06r");
            let site = case.get("site").and_then(|x| x.as_i64()).map(|x| x as usize);
            Some(eval_degenerate(&case.get("shape")?.as_usizes()?, site, &scratch).into_iter().map(|(k, w, _)| format!("{k} :: {w}")).collect())
        }
        "c06-npy-input" => {
            let scratch = Scratch::new("c06r");
            let descr: &'static str = ["<f8", ">f8", "<f4", ">f4", "|u1", "|i1", "<u2", ">u2", "<i2", ">i2", "<u4", ">u4", "<i4", ">i4", "<u8", ">u8", "<i8", ">i8"].into_iter().find(|d| Some(*d) == case.get("descr").and_then(|x| x.as_str()))?;
            Some(eval_npy_input(&case.get("shape")?.as_usizes()?, descr, case.get("version")?.as_i64()? as u8, &scratch).into_iter().map(|(k, w, _)| format!("{k} :: {w}")).collect())
        }
        "c06-genotypes" => {
            let c = GenoCase { sizes: case.get("population_sizes")?.as_usizes()? };
            let scratch = Scratch::new("c06r");
            let mut v = eval_geno(&c, None);
            v.extend(eval_geno(&c, Some(&scratch)));
            Some(v.into_iter().map(|(k, w, _)| format!("{k} :: {w}")).collect())
        }
        "c06-format" => {
            let scratch = Scratch::new("c06r");
            let b = |k: &str| matches!(case.get(k), Some(J::Bool(true)));
            Some(
                eval_format(case.get("which")?.as_i64()? as usize, &case.get("list")?.as_usizes()?, b("header"), case.get("delimiter")?.as_i64()? as usize, case.get("precision")?.as_i64()? as usize, b("npy_in"), None, &scratch)
                    .into_iter()
                    .map(|(k, w, _)| format!("{k} :: {w}"))
                    .collect(),
            )
        }
        "c06-spectrum" => {
            let shape = case.get("shape")?.as_usizes()?;
            let stat = case.get("stat")?.as_str()?.to_string();
            let what = case.get("what")?.as_str()?.to_string();
            let mut x = RefArray::zeros(&shape);
            if x.data.len() <= 64 {
                for (i, v) in case.get("values")?.as_arr()?.iter().enumerate() {
                    x.data[i] = v.as_f64()?;
                }
            } else {
                for e in case.get("nonzero")?.as_arr()? {
                    let p = e.as_arr()?;
                    x.data[p[0].as_i64()? as usize] = p[1].as_f64()?;
                }
            }
            let leak: &'static str = Box::leak(stat.into_boxed_str());
            let w = if what == "rare-class" && matches!(leak, "f2" | "f3" | "f4") { Some(1.0 / x.sum()) } else { None };
            Some(check_spectrum_w(leak, &x, &what, w).into_iter().map(|(k, w, _)| format!("{k} :: {w}")).collect())
        }
        _ => None,
    }
}
