//! C08 — genotype -> allele-count classification is total and exact.
//!
//! The alphabet is finite and enumerated completely: every GT string over alleles
//! {., 0, 1, 2, 3, 10}, separators {/, |} and ploidy 1..3 (942 strings), in the VCF text path and
//! the BCF binary path, with the probe sample selected and unselected.

use std::{io::Cursor, num::NonZeroUsize};

use sfs_core::input::genotype;

use crate::{
    cli::{run_sfs, Scratch, Stdin},
    createmodel::{build_site_reader, run_reader, CreateResult},
    gen::{parse_gt, render, CallSet, Container, Layout, Record},
    json::{hex, J},
    par::par_map,
    refmodel::RefArray,
    verdict::{catch, norm_msg, Part, Report, Tier},
};

type Viol = (String, String, J);

const ALLELES: [&str; 6] = [".", "0", "1", "2", "3", "10"];
const ALTS: [&str; 10] = ["C", "G", "T", "AA", "AC", "AG", "AT", "CA", "CC", "CG"];

pub fn all_gt_strings() -> Vec<String> {
    let mut out = Vec::new();
    for a in ALLELES {
        out.push(a.to_string());
    }
    for a in ALLELES {
        for s1 in ["/", "|"] {
            for b in ALLELES {
                out.push(format!("{a}{s1}{b}"));
            }
        }
    }
    for a in ALLELES {
        for s1 in ["/", "|"] {
            for b in ALLELES {
                for s2 in ["/", "|"] {
                    for c in ALLELES {
                        out.push(format!("{a}{s1}{b}{s2}{c}"));
                    }
                }
            }
        }
    }
    out
}

#[derive(Clone, Copy, Debug, PartialEq)]
enum Expect {
    Count(usize),
    Missing,
    Multi,
    PloidyError,
    /// a bare `.`: the VCF "missing field" or a haploid missing call; either reading is accepted
    BareDot,
}

/// Transcription of the statement.
fn classify(gt: &str) -> Expect {
    let a = parse_gt(gt);
    if a.len() != 2 {
        return if gt == "." { Expect::BareDot } else { Expect::PloidyError };
    }
    if a.iter().any(|(x, _)| x.is_none()) {
        return Expect::Missing;
    }
    if a.iter().any(|(x, _)| x.unwrap() >= 2) {
        return Expect::Multi;
    }
    Expect::Count(a.iter().map(|(x, _)| x.unwrap() as usize).sum())
}

/// The partner sample's genotype at the probe record and the column order (probe = sample `s0`).
#[derive(Clone, Copy, Debug, PartialEq)]
pub struct Ctx {
    partner: &'static str,
    probe_first: bool,
    /// the probe record is monomorphic (`ALT = .`); only for GT strings over alleles {., 0}
    alt_dot: bool,
}

const CTXS: [Ctx; 6] = [
    Ctx { partner: "0/0", probe_first: true, alt_dot: false },
    Ctx { partner: "0/0", probe_first: false, alt_dot: false },
    Ctx { partner: "./.", probe_first: true, alt_dot: false },
    Ctx { partner: "./.", probe_first: false, alt_dot: false },
    Ctx { partner: "1/2", probe_first: true, alt_dot: false },
    Ctx { partner: "1/2", probe_first: false, alt_dot: false },
];

const ALT_DOT: Ctx = Ctx { partner: "0/0", probe_first: true, alt_dot: true };

/// Allele indices far beyond the declared ALT alleles (text path only: they do not fit the int8
/// vectors of the BCF writer): values around the limits of 8-, 16- and 32-bit integers, whose
/// truncation would turn them into 0 or 1.
const HUGE_ALLELES: [&str; 7] = ["255", "256", "257", "65535", "65536", "65537", "4294967295"];

fn huge_gt_strings() -> Vec<String> {
    let mut out = Vec::new();
    for h in HUGE_ALLELES {
        for small in ["0", "1", "."] {
            for sep in ["/", "|"] {
                out.push(format!("{small}{sep}{h}"));
                out.push(format!("{h}{sep}{small}"));
            }
        }
        out.push(format!("{h}/{h}"));
        out.push(h.to_string());
        out.push(format!("0/{h}/1"));
    }
    out
}

fn call_set(gt: &str, ctx: Ctx) -> CallSet {
    let mut cs = CallSet::new(2);
    if !ctx.probe_first {
        cs.samples = vec!["s1".into(), "s0".into()];
    }
    let alts = ALTS.to_vec();
    let pair = |a: &str, b: &str| -> Vec<String> {
        if ctx.probe_first {
            vec![a.to_string(), b.to_string()]
        } else {
            vec![b.to_string(), a.to_string()]
        }
    };
    cs.records.push(Record { chrom: 0, pos: 3, alts: alts.clone(), gts: pair("0/0", "0|0"), decorated: false });
    cs.records.push(Record { chrom: 1, pos: 7, alts: if ctx.alt_dot { vec![] } else { alts.clone() }, gts: pair(gt, ctx.partner), decorated: false });
    cs.records.push(Record { chrom: 1, pos: 9, alts, gts: pair("0|0", "0/0"), decorated: false });
    cs
}

fn expected_result(e: Expect, selected: bool, ctx: Ctx) -> Vec<Result<CreateResult, ()>> {
    let partner_called = ctx.partner == "0/0";
    let ok = |shape: usize, idx: Option<usize>, skipped: usize| {
        let mut s = RefArray::zeros(&[shape]);
        s.data[0] = 2.0;
        if let Some(i) = idx {
            s.data[i] += 1.0;
        }
        Ok(CreateResult { spectrum: s, skipped, sites: 3 })
    };
    if !selected {
        return if partner_called { vec![ok(3, Some(0), 0)] } else { vec![ok(3, None, 1)] };
    }
    if !partner_called {
        // the partner is missing / multiallelic: the site is skipped unless the probe is non-diploid
        return match e {
            Expect::PloidyError => vec![Err(())],
            Expect::BareDot => vec![ok(5, None, 1), Err(())],
            _ => vec![ok(5, None, 1)],
        };
    }
    match e {
        Expect::Count(c) => vec![ok(5, Some(c), 0)],
        Expect::Missing | Expect::Multi => vec![ok(5, None, 1)],
        Expect::PloidyError => vec![Err(())],
        Expect::BareDot => vec![ok(5, None, 1), Err(())],
    }
}

fn case_j(gt: &str, container: Container, selected: bool, ctx: Ctx, bytes: &[u8]) -> J {
    J::obj([
        ("kind", J::s("c08")),
        ("gt", J::s(gt)),
        ("partner", J::s(ctx.partner)),
        ("probe_first", J::Bool(ctx.probe_first)),
        ("alt_dot", J::Bool(ctx.alt_dot)),
        ("container", J::s(container.name())),
        ("probe_selected", J::Bool(selected)),
        ("bytes_hex", J::s(hex(bytes))),
    ])
}

fn gt_class(gt: &str) -> String {
    let a = parse_gt(gt);
    let has_dot = a.iter().any(|(x, _)| x.is_none());
    let has_hi = a.iter().any(|(x, _)| x.map_or(false, |v| v >= 2));
    let phased = gt.contains('|');
    format!(
        "ploidy{}{}{}{}",
        a.len(),
        if has_dot { ",dot" } else { "" },
        if has_hi { ",allele>=2" } else { "" },
        if phased { ",phased" } else { "" }
    )
}

fn eval_lib(gt: &str, container: Container, selected: bool, ctx: Ctx) -> Option<Viol> {
    let cs = call_set(gt, ctx);
    let bytes = render(&cs, container, &Layout::Single);
    let b2 = bytes.clone();
    let r = catch(move || {
        let g = genotype::reader::Builder::default()
            .set_threads(NonZeroUsize::new(1).unwrap())
            .verif_build_from_reader(Cursor::new(b2))
            .map_err(|e| format!("build: {e}"))?;
        // the map is by sample *name* (entry i = sample `s<i>`); the probe is always named `s0`
        let map: Vec<Option<usize>> = if selected { vec![Some(0), Some(0)] } else { vec![None, Some(0)] };
        let mut site = build_site_reader(g, &map, None)?;
        run_reader(&mut site)
    });
    let r: Result<CreateResult, String> = match r {
        Ok(x) => x,
        Err(p) => Err(format!("panic: {p}")),
    };
    let e = classify(gt);
    let allowed = expected_result(e, selected, ctx);
    let matches = allowed.iter().any(|a| match (a, &r) {
        (Ok(x), Ok(y)) => x == y,
        (Err(()), Err(msg)) => msg.contains("not diploid"),
        _ => false,
    });
    if matches {
        return None;
    }
    let what = match &r {
        Ok(c) => format!("spectrum {:?} skipped {}", c.spectrum.data, c.skipped),
        Err(m) => format!("error '{m}'"),
    };
    let key = match &r {
        Err(m) if m.starts_with("panic:") => format!("C08|lib|panic|{}", norm_msg(m)),
        _ => format!(
            "C08|lib|misclassified|{}|expect={:?}|{}|partner={}",
            gt_class(gt),
            e,
            if selected { "selected" } else { "unselected" },
            if ctx.partner == "0/0" { "called".to_string() } else { format!("{}{}", ctx.partner, if ctx.probe_first { ",after-probe" } else { ",before-probe" }) }
        ),
    };
    Some((
        key,
        format!("GT '{gt}' in the {} path (probe {}, partner {} in the {} column): {what}; the statement requires {e:?}", container.name(), if selected { "selected" } else { "unselected" }, ctx.partner, if ctx.probe_first { "later" } else { "earlier" }),
        case_j(gt, container, selected, ctx, &bytes),
    ))
}

/// A site at which several selected samples are skipped for different reasons; `order` picks which
/// columns are missing and which multiallelic.
fn eval_two_reasons(container: Container, order: usize, scratch: &Scratch) -> Option<Viol> {
    let gts: [&str; 3] = [["./.", "1/2", "0/1"], ["1/2", "./.", "0/1"], ["0/1", "2/1", ".|."], [".|0", "2|2", "./."]][order];
    let reasons: [Option<&str>; 3] = [[Some("missing"), Some("multiallelic"), None], [Some("multiallelic"), Some("missing"), None], [None, Some("multiallelic"), Some("missing")], [Some("missing"), Some("multiallelic"), Some("missing")]][order];
    let mut cs = CallSet::new(3);
    cs.records.push(Record { chrom: 0, pos: 3, alts: ALTS.to_vec(), gts: vec!["0/0".into(), "0|0".into(), "0/1".into()], decorated: false });
    cs.records.push(Record { chrom: 1, pos: 7, alts: ALTS.to_vec(), gts: gts.iter().map(|g| g.to_string()).collect(), decorated: false });
    cs.records.push(Record { chrom: 1, pos: 9, alts: ALTS.to_vec(), gts: vec!["1|1".into(), "0/0".into(), "0/0".into()], decorated: false });
    let bytes = render(&cs, container, &Layout::Single);
    let o = run_sfs(&["create", "-vv", "-s", "s0,s1,s2"], Stdin::Bytes(&bytes), scratch);
    let stderr = o.stderr_str();
    let mut problems: Vec<String> = Vec::new();
    if !o.ok() {
        problems.push(format!("expected success, got {} ({})", o.status_str(), stderr.trim()));
    }
    for (i, r) in reasons.iter().enumerate() {
        let named: Vec<&str> = stderr.lines().filter(|l| l.contains(&format!("Skipping sample 's{i}' at site 'chr2:7'"))).collect();
        match r {
            Some(r) => {
                if named.len() != 1 || !named[0].contains(&format!("Reason: '{r}'")) {
                    problems.push(format!("sample s{i} ({}) is skipped as {r}, its trace lines are {named:?}", gts[i]));
                }
            }
            None => {
                if !named.is_empty() {
                    problems.push(format!("sample s{i} ({}) is called, yet reported: {named:?}", gts[i]));
                }
            }
        }
    }
    if problems.is_empty() {
        return None;
    }
    Some((
        format!("C08|cli|trace-reason-wrong|{}", container.name()),
        format!("GTs {gts:?} at chr2:7 in the {} path: {}", container.name(), problems.join("; ")),
        J::obj([("kind", J::s("c08-two-reasons")), ("container", J::s(container.name())), ("order", J::u(order))]),
    ))
}

fn eval_cli(gt: &str, container: Container, selected: bool, scratch: &Scratch) -> Option<Viol> {
    eval_cli_with(gt, container, selected, "-vv", false, scratch)
}

thread_local! {
    /// when set, the BCF header of the probe call set lists its contigs against their dictionary
    /// (IDX) order - the contig a record names is the one with its IDX, not the n-th header line
    static CONTIGS_REVERSED: std::cell::Cell<bool> = std::cell::Cell::new(false);
}

/// `verbosity`: the logging flag of the run ("" for none); trace lines are only checked under -vv, the
/// outcome, stdout and the locus named by an error under every flag. `reversed`: the list names the
/// samples against their column order (one population, so the spectrum is the same).
fn eval_cli_with(gt: &str, container: Container, selected: bool, verbosity: &str, reversed: bool, scratch: &Scratch) -> Option<Viol> {
    let ctx = CTXS[0];
    let mut cs = call_set(gt, ctx);
    cs.contig_lines_reversed = CONTIGS_REVERSED.with(|c| c.get());
    let bytes = render(&cs, container, &Layout::Single);
    let sarg = if selected { if reversed { "s1,s0" } else { "s0,s1" } } else { "s1" };
    let mut argv: Vec<&str> = vec!["create"];
    if !verbosity.is_empty() {
        argv.push(verbosity);
    }
    argv.extend(["-s", sarg]);
    let o = run_sfs(&argv, Stdin::Bytes(&bytes), scratch);
    let traced = verbosity == "-vv";
    let e = classify(gt);
    let stderr = o.stderr_str();
    let stdout = o.stdout_str();
    let mut problems: Vec<String> = Vec::new();
    let check_ok = |expect_out: &str, reason: Option<&str>, problems: &mut Vec<String>| {
        if !o.ok() {
            problems.push(format!("expected success, got {} ({})", o.status_str(), stderr.trim()));
            return;
        }
        if stdout != expect_out {
            problems.push(format!("stdout {stdout:?}, expected {expect_out:?}"));
        }
        let trace = "Skipping sample 's0' at site 'chr2:7'. Reason: '";
        if !traced {
            return;
        }
        match reason {
            Some(r) => {
                if !stderr.contains(&format!("{trace}{r}'")) {
                    problems.push(format!("no trace line naming sample s0 at chr2:7 with reason '{r}'"));
                }
            }
            None => {
                if stderr.contains("Skipping sample") {
                    problems.push("a sample was reported as skipped".into());
                }
            }
        }
    };
    let check_err = |problems: &mut Vec<String>| {
        if o.ok() {
            problems.push(format!("expected a failing run, got exit 0 with stdout {stdout:?}"));
        } else {
            if !o.stdout.is_empty() {
                problems.push(format!("failing run wrote stdout {stdout:?}"));
            }
            if o.panicked() || !o.diagnosed_error() {
                problems.push(format!("not a diagnosed error: {} {}", o.status_str(), stderr.trim()));
            }
            if !stderr.contains("'chr2:7'") {
                problems.push(format!("error does not name 'chr2:7': {}", stderr.trim()));
            }
        }
    };
    if !selected {
        check_ok("#SHAPE=<3>\n3 0 0\n", None, &mut problems);
    } else {
        match e {
            Expect::Count(c) => {
                let mut v = [2, 0, 0, 0, 0];
                v[c] += 1;
                let out = format!("#SHAPE=<5>\n{}\n", v.iter().map(|x| x.to_string()).collect::<Vec<_>>().join(" "));
                check_ok(&out, None, &mut problems);
            }
            Expect::Missing => check_ok("#SHAPE=<5>\n2 0 0 0 0\n", Some("missing"), &mut problems),
            Expect::Multi => check_ok("#SHAPE=<5>\n2 0 0 0 0\n", Some("multiallelic"), &mut problems),
            Expect::PloidyError => check_err(&mut problems),
            Expect::BareDot => {
                let mut p1 = Vec::new();
                check_ok("#SHAPE=<5>\n2 0 0 0 0\n", Some("missing"), &mut p1);
                let mut p2 = Vec::new();
                check_err(&mut p2);
                if !p1.is_empty() && !p2.is_empty() {
                    problems.extend(p1);
                }
            }
        }
    }
    if problems.is_empty() {
        return None;
    }
    let key = if o.panicked() {
        format!("C08|cli|panic|{}", o.panic_site())
    } else {
        format!("C08|cli|misclassified|{}|expect={:?}|{}", gt_class(gt), e, if selected { "selected" } else { "unselected" })
    };
    let key = if verbosity == "-vv" && !reversed { key } else { format!("{key}|{}{}", if verbosity.is_empty() { "default-verbosity" } else { verbosity }, if reversed { "|list-against-column-order" } else { "" }) };
    let mut case = case_j(gt, container, selected, ctx, &bytes);
    if let J::Obj(o) = &mut case {
        o.push(("verbosity".into(), J::s(verbosity)));
        o.push(("reversed".into(), J::Bool(reversed)));
    }
    Some((key, format!("GT '{gt}' in the {} path ({argv:?}): {}", container.name(), problems.join("; ")), case))
}

pub fn run(tier: Tier) -> i32 {
    let mut rep = Report::new("C08", tier, "exploration");
    let gts = all_gt_strings();
    rep.rule = format!(
        "all {} GT strings over alleles {{., 0, 1, 2, 3, 10}} x separators {{/,|}} x ploidy 1..3, x path {{VCF text, BCF binary, and their BGZF forms}} x role {{probe sample selected, unselected}} x partner sample genotype {{0/0, ./., 1/2}} x column order {{probe first, partner first}}; the probe record sits between two ordinary records on another contig/position. L1 through the real format detection + noodles decoding + classification + site reader; L2 through `sfs create -vv` with the per-sample trace lines and the error message as part of the observation. Oracle: transcription of the statement. Non-trivial = a string with a '.', an allele >= 2, or ploidy != 2.",
        gts.len()
    );
    let containers = [Container::Vcf, Container::RawBcf, Container::VcfGz, Container::Bcf];
    let mut jobs: Vec<(usize, Container, bool, Ctx)> = Vec::new();
    for (i, _) in gts.iter().enumerate() {
        for c in containers {
            for sel in [true, false] {
                for ctx in CTXS {
                    // partner contexts other than the default only in the uncompressed containers
                    if ctx != CTXS[0] && c.compressed() {
                        continue;
                    }
                    jobs.push((i, c, sel, ctx));
                }
            }
        }
    }
    // monomorphic probe records for the strings that only use alleles {., 0}
    let n_plain = gts.len();
    for (i, g) in gts.iter().enumerate() {
        if g.chars().all(|c| matches!(c, '.' | '0' | '/' | '|')) {
            for c in [Container::Vcf, Container::RawBcf] {
                for sel in [true, false] {
                    jobs.push((i, c, sel, ALT_DOT));
                }
            }
        }
    }
    // huge allele indices, text path
    let mut gts = gts;
    let huge = huge_gt_strings();
    for h in &huge {
        gts.push(h.clone());
        for c in [Container::Vcf, Container::VcfGz] {
            for sel in [true, false] {
                jobs.push((gts.len() - 1, c, sel, CTXS[0]));
            }
        }
    }
    let res = par_map(jobs.len(), |j| eval_lib(&gts[jobs[j].0], jobs[j].1, jobs[j].2, jobs[j].3));
    let mut nt = 0u64;
    for ((i, _, sel, _), v) in jobs.iter().zip(res) {
        let e = classify(&gts[*i]);
        if !matches!(e, Expect::Count(_)) {
            nt += 1;
        }
        if *sel {
            rep.outcome(format!("{:?}", match e { Expect::Count(_) => "counted".to_string(), other => format!("{other:?}") }));
        }
        if let Some((k, w, j)) = v {
            rep.violation(k, w, j);
        }
    }
    rep.part(Part {
        name: "lib: every GT string x path x role".into(),
        evaluations: jobs.len() as u64,
        nontrivial: nt,
        note: format!("{n_plain} strings x 4 containers x 2 roles; in vcf and raw bcf additionally x partner genotype {{0/0, ./., 1/2}} x column order, and the strings over {{., 0}} also at a monomorphic (ALT=.) record; {} strings with allele indices 255..4294967295 in the text path", huge.len()),
        exhaustive: true,
        extra: vec![],
    });
    rep.sample(J::obj([
        ("gt", J::s("0/2")),
        ("path", J::s("raw-bcf")),
        ("role", J::s("selected")),
        ("expected", J::s("multiallelic: site skipped, trace line with reason 'multiallelic'")),
    ]));
    rep.sample(J::obj([
        ("gt", J::s("1|0|.")),
        ("path", J::s("vcf")),
        ("role", J::s("selected")),
        ("expected", J::s("run fails, error names 'chr2:7', stdout empty")),
    ]));

    // scripts over the public reader interface that concern this property (shared with C11)
    {
        let (n, viols) = super::c11::scripts_for("C08", "ploidy", tier);
        for (k, w, j) in viols {
            rep.violation(k, w, j);
        }
        rep.part(Part {
            name: "lib: records around one with a non-diploid genotype".into(),
            evaluations: n,
            nontrivial: n,
            note: "every sequence of 1..3 (thorough 4) symbols over {six record kinds, a record with a non-diploid genotype in the first / third column} containing at least one such record, under six set-ups, read on after the error: the faulty record is an error and contributes nothing, every other record is classified as if it stood alone".into(),
            exhaustive: true,
            extra: vec![],
        });
    }
    // the raw-value constructor of the genotype type: 0, 1, 2 and nothing else
    {
        use sfs_core::input::genotype::Genotype;
        let mut raws: Vec<usize> = (0..=70_000).collect();
        raws.extend([1usize << 31, (1 << 32) - 1, 1 << 32, (1 << 32) + 1, (1 << 32) + 2, usize::MAX - 2, usize::MAX - 1, usize::MAX]);
        let mut n = 0u64;
        for raw in raws {
            n += 1;
            let expect = match raw {
                0 => Some(Genotype::Zero),
                1 => Some(Genotype::One),
                2 => Some(Genotype::Two),
                _ => None,
            };
            let got = Genotype::try_from_raw(raw);
            if got != expect {
                rep.violation(
                    format!("C08|lib|try_from_raw|{}", if raw > 255 { ">255" } else { "<=255" }),
                    format!("Genotype::try_from_raw({raw}) = {got:?}, expected {expect:?}"),
                    J::obj([("kind", J::s("c08-raw")), ("raw", J::s(raw.to_string()))]),
                );
            }
        }
        rep.part(Part {
            name: "lib: Genotype::try_from_raw".into(),
            evaluations: n,
            nontrivial: n,
            note: "every raw value 0..=70 000 and values around 2^31, 2^32 and the maximum: 0, 1, 2 are the three genotypes, everything else is None".into(),
            exhaustive: true,
            extra: vec![],
        });
    }
    // L2
    let scratch = Scratch::new("c08");
    let mut cj: Vec<(usize, Container, bool)> = Vec::new();
    for (i, g) in gts.iter().enumerate() {
        let ploidy = parse_gt(g).len();
        let take = ploidy <= 2 || tier.thorough() || i % 10 == 0 || i >= n_plain;
        if !take {
            continue;
        }
        for c in [Container::Vcf, Container::RawBcf] {
            if i >= n_plain && c == Container::RawBcf {
                continue;
            }
            cj.push((i, c, true));
            if ploidy != 2 || i % 4 == 0 || tier.thorough() {
                cj.push((i, c, false));
            }
        }
    }
    let res = par_map(cj.len(), |j| eval_cli(&gts[cj[j].0], cj[j].1, cj[j].2, &scratch));
    for v in res.into_iter().flatten() {
        rep.violation(v.0, v.1, v.2);
    }
    // the same probe under every logging flag and with the list against the column order: which
    // sample a trace line names, whether a failing run still names the locus, and what is counted must
    // not depend on either
    {
        let picks: Vec<usize> = (0..gts.len()).filter(|&i| parse_gt(&gts[i]).len() <= 3 && i < n_plain).collect();
        let mut vj: Vec<(usize, Container, &str, bool)> = Vec::new();
        for &i in &picks {
            for c in [Container::Vcf, Container::RawBcf] {
                for (verb, rev) in [("-vv", true), ("", false), ("-q", false), ("-qq", false), ("-qq", true), ("-v", true), ("-vvv", false)] {
                    vj.push((i, c, verb, rev));
                }
            }
        }
        let res = par_map(vj.len(), |j| eval_cli_with(&gts[vj[j].0], vj[j].1, true, vj[j].2, vj[j].3, &scratch));
        for v in res.into_iter().flatten() {
            rep.violation(v.0, v.1, v.2);
        }
        // the same probes as BCF whose header lists the contigs against their IDX order
        let res = par_map(picks.len(), |j| {
            CONTIGS_REVERSED.with(|c| c.set(true));
            let r = eval_cli_with(&gts[picks[j]], Container::RawBcf, true, "-vv", false, &scratch);
            CONTIGS_REVERSED.with(|c| c.set(false));
            r
        });
        for v in res.into_iter().flatten() {
            let mut case = v.2;
            if let J::Obj(o) = &mut case {
                o.push(("contigs_reversed".into(), J::Bool(true)));
            }
            rep.violation(format!("{}|contig-lines-against-idx", v.0), v.1, case);
        }
        rep.part(Part {
            name: "cli: logging flags and list order".into(),
            evaluations: vj.len() as u64,
            nontrivial: vj.len() as u64,
            note: format!("{} GT strings of ploidy <= 3 x {{vcf, raw bcf}} x {{-vv with the list against the column order, no flag, -q, -qq, -qq reversed, -v reversed, -vvv}}: same outcome and stdout; under -vv the trace line names the probe sample; a failing run names chr2:7 under every flag; and as BCF whose contig header lines stand against their IDX order (trace lines and errors still name chr2:7)", picks.len()),
            exhaustive: true,
            extra: vec![],
        });
    }
    rep.part(Part {
        name: "cli: sfs create -vv".into(),
        evaluations: cj.len() as u64,
        nontrivial: cj.iter().filter(|(i, _, _)| !matches!(classify(&gts[*i]), Expect::Count(_))).count() as u64,
        note: format!("all ploidy<=2 strings{} in the VCF and BCF paths; stdout, exit status, trace lines 'Skipping sample .. Reason', error naming contig:position", if tier.thorough() { " and all ploidy-3 strings" } else { " and every tenth ploidy-3 string" }),
        exhaustive: true,
        extra: vec![],
    });
    // large positions (text path): the error and the trace lines name the position as written
    {
        let mut n = 0u64;
        for pos in [65_543usize, 2_147_483_647, 4_294_967_303] {
            for (gt, is_err) in [("0", true), ("0/1/1", true), ("./.", false), ("1/2", false)] {
                n += 1;
                let mut cs = call_set(gt, CTXS[0]);
                cs.records[1].pos = pos;
                cs.records[2].pos = pos + 2;
                let vcf = crate::gen::to_vcf(&cs).0;
                let o = run_sfs(&["create", "-vv", "-s", "s0,s1"], Stdin::Bytes(&vcf), &scratch);
                let stderr = o.stderr_str();
                let site = format!("'chr2:{pos}'");
                let ok = if is_err { !o.ok() && o.stdout.is_empty() && o.diagnosed_error() && stderr.contains(&site) } else { o.ok() && stderr.contains(&format!("Skipping sample 's0' at site {site}")) };
                if !ok {
                    rep.violation(
                        format!("C08|cli|large-position-misreported|{}", if is_err { "ploidy-error" } else { "trace" }),
                        format!("GT '{gt}' at chr2:{pos}: {} stdout {:?} stderr {:?}", o.status_str(), o.stdout_str(), stderr.lines().filter(|l| l.contains("chr2")).take(3).collect::<Vec<_>>()),
                        J::obj([("kind", J::s("c08-pos")), ("gt", J::s(gt)), ("pos", J::u(pos))]),
                    );
                }
            }
        }
        rep.part(Part {
            name: "cli: large positions".into(),
            evaluations: n,
            nontrivial: n,
            note: "probe record at positions 65 543, 2^31-1 and 2^32+7 (VCF text): ploidy errors and trace lines name contig:position as written".into(),
            exhaustive: true,
            extra: vec![],
        });
    }
    // scale: more than 65 536 selected samples; the trace line must name the sample that was skipped
    {
        let n = 65_540usize;
        let who = 65_537usize;
        let mut cs = CallSet::new(n);
        let gts0: Vec<&str> = (0..n).map(|j| ["0/0", "0/1"][j % 2]).collect();
        cs.push_gts(&gts0);
        let gts1: Vec<&str> = (0..n).map(|j| if j == who { "./." } else if j == 3 { "1/1" } else { "0/0" }).collect();
        cs.push_gts(&gts1);
        let vcf = crate::gen::to_vcf(&cs).0;
        let o = run_sfs(&["create", "-vv"], Stdin::Bytes(&vcf), &scratch);
        let stderr = o.stderr_str();
        let named: Vec<&str> = stderr.lines().filter(|l| l.contains("Skipping sample")).collect();
        let want = format!("Skipping sample 's{who}' at site 'chr1:2'. Reason: 'missing'");
        let alt0: usize = (0..n).filter(|j| j % 2 == 1).count();
        let ok_out = crate::subject::parse_out(&o).map(|g| g.shape == vec![2 * n + 1] && g.data.iter().enumerate().all(|(i, v)| *v == if i == alt0 { 1.0 } else { 0.0 })).unwrap_or(false);
        if !(o.ok() && named.len() == 1 && named[0].contains(&want) && ok_out) {
            rep.violation(
                "C08|cli|wide-call-set-misreported",
                format!("{n} samples, only sample s{who} missing at chr1:2: {}; trace lines {:?}; spectrum as expected: {ok_out}", o.status_str(), named.iter().take(3).collect::<Vec<_>>()),
                J::obj([("kind", J::s("c08-wide")), ("samples", J::u(n)), ("missing_sample", J::u(who))]),
            );
        }
        rep.part(Part {
            name: "cli: 65 540 selected samples".into(),
            evaluations: 1,
            nontrivial: 1,
            note: "two records, one missing genotype in column 65 537: the site is skipped, the trace line names s65537, the other record is counted at its index".into(),
            exhaustive: true,
            extra: vec![],
        });
    }
    // one site, several skipped samples, different reasons: every trace line carries the reason of
    // the sample it names, whichever column comes first
    {
        let mut tj: Vec<(Container, usize)> = Vec::new();
        for c in Container::all() {
            for order in 0..4usize {
                tj.push((c, order));
            }
        }
        let res = par_map(tj.len(), |i| eval_two_reasons(tj[i].0, tj[i].1, &scratch));
        for v in res.into_iter().flatten() {
            rep.violation(v.0, v.1, v.2);
        }
        rep.part(Part {
            name: "cli: several skipped samples at one site, each with its own reason".into(),
            evaluations: tj.len() as u64,
            nontrivial: tj.len() as u64,
            note: "three selected samples of which two or three are skipped at one site, missing and multiallelic in every column order, in four containers at -vv: one trace line per skipped sample, naming that sample's own reason".into(),
            exhaustive: true,
            extra: vec![],
        });
    }
    rep.assumptions = vec![
        "a bare '.' GT (the VCF missing-field spelling / a haploid missing call) may be classified either as missing or as a ploidy error: the statement does not decide it (DESIGN section 5, F16)".into(),
        "BCF encoding written from the BCF2.2 specification (harness/src/gen.rs), validated against the htslib-written fixture record".into(),
    ];
    rep.finish()
}

pub fn replay(case: &J) -> Option<Vec<String>> {
    if case.get("kind").and_then(|k| k.as_str()) == Some("c08-two-reasons") {
        let scratch = Scratch::new("c08r");
        let c = Container::all().into_iter().find(|c| Some(c.name()) == case.get("container").and_then(|x| x.as_str()))?;
        return Some(eval_two_reasons(c, case.get("order")?.as_i64()? as usize, &scratch).into_iter().map(|(k, w, _)| format!("{k} :: {w}")).collect());
    }
    if case.get("kind").and_then(|k| k.as_str()) == Some("c08-raw") {
        use sfs_core::input::genotype::Genotype;
        let raw: usize = case.get("raw")?.as_str()?.parse().ok()?;
        let ok = matches!((raw, Genotype::try_from_raw(raw)), (0, Some(Genotype::Zero)) | (1, Some(Genotype::One)) | (2, Some(Genotype::Two))) || (raw > 2 && Genotype::try_from_raw(raw).is_none());
        return Some(if ok { vec![] } else { vec![format!("C08|lib|try_from_raw :: {raw} -> {:?}", Genotype::try_from_raw(raw))] });
    }
    if case.get("kind").and_then(|k| k.as_str()) == Some("c08-script") {
        return super::c11::replay_script(case);
    }
    let gt = case.get("gt")?.as_str()?.to_string();
    let cname = case.get("container")?.as_str()?;
    let c = Container::all().into_iter().find(|c| c.name() == cname)?;
    let sel = matches!(case.get("probe_selected"), Some(J::Bool(true)));
    let scratch = Scratch::new("c08r");
    let partner = case.get("partner").and_then(|p| p.as_str()).unwrap_or("0/0");
    let probe_first = !matches!(case.get("probe_first"), Some(J::Bool(false)));
    let alt_dot = matches!(case.get("alt_dot"), Some(J::Bool(true)));
    let ctx = if alt_dot { ALT_DOT } else { CTXS.iter().copied().find(|x| x.partner == partner && x.probe_first == probe_first)? };
    let mut v: Vec<Viol> = eval_lib(&gt, c, sel, ctx).into_iter().collect();
    v.extend(eval_cli(&gt, c, sel, &scratch));
    if matches!(case.get("contigs_reversed"), Some(J::Bool(true))) {
        CONTIGS_REVERSED.with(|c| c.set(true));
        let r = eval_cli_with(&gt, c, sel, "-vv", false, &scratch);
        CONTIGS_REVERSED.with(|c| c.set(false));
        return Some(r.into_iter().map(|(k, w, _)| format!("{k} :: {w}")).collect());
    }
    if let Some(verb) = case.get("verbosity").and_then(|x| x.as_str()) {
        let verb: &'static str = ["-vv", "", "-q", "-qq", "-v", "-vvv"].iter().copied().find(|k| *k == verb).unwrap_or("-vv");
        v.extend(eval_cli_with(&gt, c, sel, verb, matches!(case.get("reversed"), Some(J::Bool(true))), &scratch));
    }
    Some(v.into_iter().map(|(k, w, _)| format!("{k} :: {w}")).collect())
}
